#!/usr/bin/env python3
"""C14 test-vector generator: an independent reading of a gamenet protocol
description (gamenet/generate/spec/*.json).

Usage: specvec.py <spec.json> <out-file> [--shard I --nshards N]
       specvec.py --outdir DIR <spec.json>...      (writes DIR/<crate>.vec for each)

Written from the JSON field names and the wire conventions in doc/ (doc/int.md
for the variable-length integer, doc/teehistorian.md for the UUID namespace);
it does not import or call anything from gamenet/generate. python3 stdlib
only, deterministic, no network, no clock.

Output: one record per line, fields separated by TAB.

  S  <crate> <spec-file-name> <n-codecs> <n-vectors>
  C  <kind> <Name> <id> <nwords|-> <flags> <id-prefix-hex|-> <base-payload>
  V  <index> <kind> <Name> <expect> <class> <id> <payload> <tag>

kind     system | game | connless | object
Name     message/object name in title case (["sv","motd"] -> SvMotd)
id       o:<ordinal> | u:<uuid hex> | c:<8 id bytes hex>   (what the bytes/words are addressed to)
flags    comma list: bool (has a boolean member), dvs (dont_validate_size), default (has defaulted members), - if none
expect   ok    decode Ok, no warning, name matches, re-encode identical
         okd   decode Ok, no warning, name matches; do not re-encode (absent trailing optional)
         warn  decode Ok with at least one warning (excess data)
         err   decode must return Err
         any   the description does not decide (member with a `default`, objects whose size is not validated): no panic only
payload  messages: hex of the whole message including the id; objects: comma separated i32 words ('-' if none)
class    coarse class of what was varied (goes into violation signatures): typical, int32, boolean, enum, ...
tag      free text describing the vector; for class `distinct` it is
         "fields:<member>=<rendering>;..." : the scalar members in described order with
         pairwise different values and how Rust's Debug renders them, so that the
         monitor can see that each value arrived in the member of that name

With --shard/--nshards only the V records with index % N == I are written
(C records are always complete).
"""

import json
import os
import re
import sys
import uuid

I32_MIN = -(2 ** 31)
I32_MAX = 2 ** 31 - 1
# doc/teehistorian.md: "Teeworlds namespace e05ddaaa-c4e6-4cfb-b642-5d48e80c0029"
TEEWORLDS_NAMESPACE = uuid.UUID("e05ddaaa-c4e6-4cfb-b642-5d48e80c0029")

INT_KINDS = ("int32", "boolean", "enum", "flags", "tick", "tune_param")
REST_KINDS = ("rest", "serverinfo_client", "packed_addresses")
RAW_SIZES = {"sha256": 32, "uuid": 16, "be_uint16": 2, "uint8": 1}


def varint(v):
    """doc/int.md: ESDD_DDDD EDDD_DDDD ... little-endian groups, sign bit inverts all bits."""
    assert I32_MIN <= v <= I32_MAX, v
    neg = v < 0
    m = ~v if neg else v
    first = m & 0x3F
    m >>= 6
    out = [first | (0x40 if neg else 0) | (0x80 if m else 0)]
    while m:
        d = m & 0x7F
        m >>= 7
        out.append(d | (0x80 if m else 0))
    assert len(out) <= 5
    return bytes(out)


def pattern(n, salt=0):
    """Deterministic pseudo-random bytes (LCG), never used for anything but filler."""
    x = (0x2545F491 + salt * 0x9E3779B1) & 0xFFFFFFFF
    out = bytearray()
    for _ in range(n):
        x = (x * 1664525 + 1013904223) & 0xFFFFFFFF
        out.append((x >> 24) & 0xFF)
    return bytes(out)


def uniq(pairs):
    seen = set()
    out = []
    for tag, v in pairs:
        key = repr(v)
        if key not in seen:
            seen.add(key)
            out.append((tag, v))
    return out


def title(name):
    return "".join(p[:1].upper() + p[1:] for part in name for p in part.split("_"))


def snake(name):
    return "_".join(name)


class Spec:
    def __init__(self, path):
        with open(path, "rb") as f:
            self.json = json.load(f)
        self.file = os.path.basename(path)
        stem = self.file[:-5] if self.file.endswith(".json") else self.file
        m = re.match(r"^(teeworlds-\d+\.\d+)", stem)
        if m:
            self.crate = m.group(1)
        else:
            self.crate = re.sub(r"-[0-9.]+$", "", stem)
        self.enums = {tuple(e["name"]): sorted(v["value"] for v in e["values"]) for e in self.json.get("game_enumerations", [])}
        self.flags = {tuple(e["name"]): sorted(v["value"] for v in e["values"]) for e in self.json.get("game_flags", [])}
        self.objects = {tuple(o["name"]): o for o in self.json.get("snapshot_objects", [])}
        self.records = []
        self.codecs = []
        self.index = 0

    # ------------------------------------------------------------ ids
    def resolve_id(self, item):
        """Returns ('o', int) or ('u', 16 bytes)."""
        ident = item["id"]
        if isinstance(ident, int):
            return ("o", ident)
        if isinstance(ident, str):
            given = uuid.UUID(ident)
            src = item.get("id_from")
            if src is not None:
                if src.get("algorithm") != "uuid_v3":
                    raise SystemExit("unknown id algorithm %r" % (src,))
                ns = uuid.UUID(src["namespace"])
                if ns != TEEWORLDS_NAMESPACE:
                    raise SystemExit("unexpected UUID namespace %s" % ns)
                computed = uuid.uuid3(ns, src["name"])
                if computed != given:
                    raise SystemExit("id %s of %s is not uuid3(%s, %r) = %s" % (given, item["name"], ns, src["name"], computed))
            return ("u", given.bytes)
        raise SystemExit("unknown id form %r" % (ident,))

    # ------------------------------------------------------------ object layout
    def object_members(self, obj):
        """Members including those of the super object(s), in wire order."""
        members = []
        if "super" in obj:
            members.extend(self.object_members(self.objects[tuple(obj["super"])]))
        members.extend(obj["members"])
        return members

    def type_has_bool(self, t):
        if t["kind"] == "boolean":
            return True
        if t["kind"] == "array":
            return self.type_has_bool(t["member_type"])
        if t["kind"] == "optional":
            return self.type_has_bool(t["inner"])
        return False

    # ------------------------------------------------------------ word-like types
    def nwords(self, t):
        k = t["kind"]
        if k in INT_KINDS:
            return 1
        if k == "int32_twstring":
            return t["count"]
        if k == "array":
            return t["count"] * self.nwords(t["member_type"])
        if k == "snapshot_object":
            return sum(self.nwords(m["type"]) for m in self.object_members(self.objects[tuple(t["name"])]))
        raise SystemExit("member kind %r has no word encoding" % k)

    def is_wordlike(self, t):
        k = t["kind"]
        if k in INT_KINDS or k == "int32_twstring" or k == "snapshot_object":
            return True
        if k == "array":
            return self.is_wordlike(t["member_type"])
        return False

    def int_ok(self, t):
        k = t["kind"]
        if k == "int32" or k in ("tick", "tune_param"):
            lo = t.get("min", I32_MIN)
            hi = t.get("max", I32_MAX)
            cands = [("min", lo), ("min+1", lo + 1), ("max-1", hi - 1), ("max", hi), ("0", 0), ("1", 1), ("-1", -1)]
            # boundaries of the 1..5 byte encodings of doc/int.md
            for bits in (6, 13, 20, 27):
                cands += [("2^%d-1" % bits, 2 ** bits - 1), ("2^%d" % bits, 2 ** bits), ("-2^%d" % bits, -(2 ** bits)), ("-2^%d-1" % bits, -(2 ** bits) - 1)]
            cands += [("i32min", I32_MIN), ("i32max", I32_MAX)]
            return uniq([(tag, v) for tag, v in cands if lo <= v <= hi])
        if k == "boolean":
            return [("false", 0), ("true", 1)]
        if k == "enum":
            return [("value%d" % v, v) for v in self.enums[tuple(t["enum"])]]
        if k == "flags":
            cands = [("none", 0)]
            for bit in range(32):
                v = 1 << bit
                if v > I32_MAX:
                    v -= 2 ** 32
                cands.append(("bit%d" % bit, v))
            listed = 0
            for v in self.flags[tuple(t["flags"])]:
                listed |= v
            if listed > I32_MAX:
                listed -= 2 ** 32
            cands += [("all-listed", listed), ("all-bits", -1), ("i32max", I32_MAX)]
            return uniq(cands)
        raise SystemExit("not an int kind %r" % k)

    def int_bad(self, t):
        k = t["kind"]
        if k == "int32":
            out = []
            if "min" in t:
                out.append(("min-1", t["min"] - 1))
                out.append(("i32min", I32_MIN))
            if "max" in t:
                out.append(("max+1", t["max"] + 1))
                out.append(("i32max", I32_MAX))
            lo = t.get("min", I32_MIN)
            hi = t.get("max", I32_MAX)
            return uniq([(tag, v) for tag, v in out if I32_MIN <= v <= I32_MAX and not lo <= v <= hi])
        if k == "boolean":
            return [("-1", -1), ("2", 2), ("i32min", I32_MIN), ("i32max", I32_MAX)]
        if k == "enum":
            vals = self.enums[tuple(t["enum"])]
            out = [("below", vals[0] - 1), ("above", vals[-1] + 1), ("i32min", I32_MIN), ("i32max", I32_MAX)]
            out += [("gap%d" % v, v) for v in range(vals[0], vals[-1]) if v not in vals]
            return uniq([(tag, v) for tag, v in out if v not in vals])
        # flags, tick, tune_param: unconstrained
        return []

    def int_typical(self, t):
        k = t["kind"]
        if k == "enum":
            vals = self.enums[tuple(t["enum"])]
            return vals[len(vals) // 2]
        if k == "boolean":
            return 1
        if k == "flags":
            return 5
        lo = t.get("min", I32_MIN)
        hi = t.get("max", I32_MAX)
        for v in (3, 1, 0, lo, hi):
            if lo <= v <= hi:
                return v
        raise SystemExit("empty range %r" % (t,))

    def words_typical(self, t):
        k = t["kind"]
        if k in INT_KINDS:
            return [self.int_typical(t)]
        if k == "int32_twstring":
            return twstring(b"tee", t["count"])
        if k == "array":
            out = []
            for _ in range(t["count"]):
                out += self.words_typical(t["member_type"])
            return out
        if k == "snapshot_object":
            out = []
            for m in self.object_members(self.objects[tuple(t["name"])]):
                out += self.words_typical(m["type"])
            return out
        raise SystemExit("no words for %r" % k)

    def words_sweep(self, t, bad):
        """[(class, tag, words)] for the whole member, one element varied at a time."""
        k = t["kind"]
        if k in INT_KINDS:
            vals = self.int_bad(t) if bad else self.int_ok(t)
            return [(k, "%s(%d)" % (tag, v), [v]) for tag, v in vals]
        if k == "int32_twstring":
            if bad:
                return []
            n = t["count"]
            return [
                (k, "zeros", [0] * n),
                (k, "ones", [-1] * n),
                (k, "i32min", [I32_MIN] * n),
                (k, "i32max", [I32_MAX] * n),
                (k, "empty-string", twstring(b"", n)),
                (k, "full-string", twstring(b"x" * (4 * n - 1), n)),
            ]
        if k == "array":
            inner = t["member_type"]
            n = t["count"]
            per = self.nwords(inner)
            base = self.words_typical(t)
            elems = range(n)
            if bad and n > 8:
                elems = sorted(set([0, 1, n // 2, n - 2, n - 1]))
            out = []
            for j in elems:
                for cls, tag, words in self.words_sweep(inner, bad):
                    w = list(base)
                    w[j * per:(j + 1) * per] = words
                    out.append((cls, "[%d]=%s" % (j, tag), w))
            return out
        if k == "snapshot_object":
            members = self.object_members(self.objects[tuple(t["name"])])
            base = []
            spans = []
            for m in members:
                w = self.words_typical(m["type"])
                spans.append((len(base), len(base) + len(w)))
                base += w
            out = []
            for m, (a, b) in zip(members, spans):
                for cls, tag, words in self.words_sweep(m["type"], bad):
                    w = list(base)
                    w[a:b] = words
                    out.append((cls, "%s.%s=%s" % (snake(t["name"]), snake(m["name"]), tag), w))
            return out
        raise SystemExit("no word sweep for %r" % k)

    # ------------------------------------------------------------ message member encodings
    def msg_typical(self, t):
        k = t["kind"]
        if self.is_wordlike(t):
            return b"".join(varint(w) for w in self.words_typical(t))
        if k == "string":
            return b"x1\x00"
        if k == "int32_string":
            return b"12\x00"
        if k == "data":
            return varint(3) + b"\x01\x02\x03"
        if k == "rest":
            return b"\x05\x06\x00\x07"
        if k == "serverinfo_client":
            return b"n\x00c\x001\x002\x003\x00"
        if k == "packed_addresses":
            return bytes(range(1, 19))
        if k in RAW_SIZES:
            return bytes(range(0x21, 0x21 + RAW_SIZES[k]))
        if k == "optional":
            return self.msg_typical(t["inner"])
        if k == "array":
            return b"".join(self.msg_typical(t["member_type"]) for _ in range(t["count"]))
        raise SystemExit("unknown member kind %r" % k)

    def msg_sweep(self, t, bad):
        """[(class, tag, bytes)] replacement encodings of the whole member."""
        k = t["kind"]
        if self.is_wordlike(t):
            return [(cls, tag, b"".join(varint(w) for w in words)) for cls, tag, words in self.words_sweep(t, bad)]
        if k == "string":
            cc = t.get("disallow_cc", False)
            if not bad:
                vals = [
                    ("empty", b""),
                    ("one", b"a"),
                    ("space", b" "),
                    ("long", b"The quick brown fox " * 15),
                    ("high-bytes", bytes(range(0x80, 0x100))),
                    ("utf8", "üñï 世界".encode("utf-8")),
                    ("printable", bytes(range(0x20, 0x7F))),
                ]
                if not cc:
                    vals += [("cc-01", b"\x01"), ("cc-1f", b"\x1f"), ("cc-newline-tab", b"a\nb\tc\r"), ("cc-all", bytes(range(1, 0x20)))]
                return [("string", tag, v + b"\x00") for tag, v in vals]
            if cc:
                vals = [("cc-01", b"\x01"), ("cc-1f", b"\x1f"), ("cc-newline", b"a\nb"), ("cc-tab", b"\t"), ("cc-cr-last", b"ab\r"), ("cc-bell-first", b"\x07ab")]
                return [("string-cc", tag, v + b"\x00") for tag, v in vals]
            return []
        if k == "int32_string":
            if not bad:
                vals = [0, 1, -1, 9, 10, 12, -12, 65535, I32_MIN, I32_MAX]
                return [("int32_string", "%d" % v, ("%d" % v).encode("ascii") + b"\x00") for v in vals]
            vals = [("empty", b""), ("letters", b"abc"), ("trailing-letter", b"12a"), ("overflow", b"2147483648"), ("underflow", b"-2147483649"),
                    ("leading-space", b" 1"), ("trailing-space", b"1 "), ("hex", b"0x10"), ("decimal-point", b"1.0"), ("double-minus", b"--1"),
                    ("minus-only", b"-"), ("huge", b"99999999999999999999")]
            return [("int32_string", tag, v + b"\x00") for tag, v in vals]
        if k == "data":
            if not bad:
                vals = [("len0", b""), ("len1-nul", b"\x00"), ("len1", b"\xff"), ("len63", pattern(63, 1)), ("len64", pattern(64, 2)), ("len900", pattern(900, 3))]
                return [("data", tag, varint(len(v)) + v) for tag, v in vals]
            return [
                ("data", "negative-length", varint(-1) + b"\x01\x02\x03"),
                ("data", "i32min-length", varint(I32_MIN) + b"\x01\x02\x03"),
                ("data", "length-beyond-end", varint(100000) + b"\x01\x02\x03"),
                ("data", "i32max-length", varint(I32_MAX) + b"\x01\x02\x03"),
            ]
        if k in ("rest", "serverinfo_client"):
            if bad:
                return []
            vals = [("empty", b""), ("nul", b"\x00"), ("some", b"abc\x00\xff\x80"), ("long", pattern(700, 4))]
            if k == "serverinfo_client":
                vals.append(("two-clients", b"alice\x00clan\x0049\x0010\x001\x00bob\x00\x00-1\x00-5\x000\x00"))
            return [(k, tag, v) for tag, v in vals]
        if k == "packed_addresses":
            if bad:
                return []
            return [(k, "none", b""), (k, "one", pattern(18, 5)), (k, "two", pattern(36, 6)), (k, "seventy-five", pattern(18 * 75, 7)), (k, "ones", b"\xff" * 18)]
        if k in RAW_SIZES:
            if bad:
                return []
            n = RAW_SIZES[k]
            vals = [("zeros", bytes(n)), ("ones", b"\xff" * n), ("pattern", pattern(n, 8)), ("low-one", bytes(n - 1) + b"\x01"), ("high-one", b"\x01" + bytes(n - 1)), ("7f80", (b"\x7f\x80" * n)[:n])]
            return [(k, tag, v) for tag, v in uniq(vals)]
        if k == "optional":
            if bad:
                # what a malformed optional means is not described
                return []
            return [(cls, "present:" + tag, b) for cls, tag, b in self.msg_sweep(t["inner"], False)]
        if k == "array":
            inner = t["member_type"]
            n = t["count"]
            base = [self.msg_typical(inner) for _ in range(n)]
            elems = range(n)
            if bad and n > 8:
                elems = sorted(set([0, 1, n // 2, n - 2, n - 1]))
            out = []
            for j in elems:
                for cls, tag, b in self.msg_sweep(inner, bad):
                    e = list(base)
                    e[j] = b
                    out.append((cls, "[%d]=%s" % (j, tag), b"".join(e)))
            return out
        raise SystemExit("unknown member kind %r" % k)

    def msg_min_size(self, t):
        """Least number of bytes the member occupies (0: may legitimately be empty)."""
        k = t["kind"]
        if k in REST_KINDS or k == "optional":
            return 0
        if k == "array":
            return t["count"] * self.msg_min_size(t["member_type"])
        if k in RAW_SIZES:
            return RAW_SIZES[k]
        if self.is_wordlike(t):
            return self.nwords(t)
        return 1  # string (NUL), int32_string, data (length)


    # ------------------------------------------------------------ distinct values per member
    def distinct_value(self, t, i):
        """(value, Debug rendering) of scalar member number i, or None if the
        member is not a scalar whose rendering is known."""
        k = t["kind"]
        opt = False
        if k == "optional":
            t = t["inner"]
            k = t["kind"]
            opt = True
        if k not in ("int32", "boolean", "flags", "tick", "tune_param"):
            return None
        if k == "boolean":
            v = i % 2
            text = "true" if v else "false"
        else:
            lo = t.get("min", I32_MIN)
            hi = t.get("max", I32_MAX)
            v = self.int_typical(t)
            for cand in (10 + i, 1 + i, v + i, lo + i, hi - i):
                if lo <= cand <= hi:
                    v = cand
                    break
            text = "%d" % v
            if k == "tick":
                text = "Tick(%d)" % v
            elif k == "tune_param":
                text = "TuneParam(%d)" % v
        if opt:
            text = "Some(%s)" % text
        return v, text

    # ------------------------------------------------------------ output
    def emit(self, kind, name, expect, cls, ident, payload, tag):
        self.records.append((self.index, kind, name, expect, cls, ident, payload, tag))
        self.index += 1

    def codec(self, kind, name, ident, nwords, flags, prefix, base):
        self.codecs.append((kind, name, ident, "-" if nwords is None else str(nwords), ",".join(flags) if flags else "-", prefix, base))

    # ------------------------------------------------------------ messages
    def gen_message(self, kind, msg, prefix, ident):
        name = title(msg["name"])
        members = msg["members"]
        types = [m["type"] for m in members]
        base = [self.msg_typical(t) for t in types]
        flags = []
        if any(self.type_has_bool(t) for t in types):
            flags.append("bool")
        if any("default" in m for m in members):
            flags.append("default")
        whole = prefix + b"".join(base)
        self.codec(kind, name, ident, None, flags, prefix.hex(), whole.hex())

        def put(expect, cls, tag, body):
            self.emit(kind, name, expect, cls, ident, (prefix + body).hex(), tag)

        put("ok", "typical", "typical", b"".join(base))
        e = list(base)
        fields = []
        for i, (m, t) in enumerate(zip(members, types)):
            dv = self.distinct_value(t, i)
            if dv is not None:
                e[i] = varint(dv[0])
                fields.append("%s=%s" % (snake(m["name"]), dv[1]))
        if fields:
            put("ok", "distinct", "fields:" + ";".join(fields), b"".join(e))
        for i, (m, t) in enumerate(zip(members, types)):
            mname = snake(m["name"])
            for cls, tag, b in self.msg_sweep(t, False):
                e = list(base)
                e[i] = b
                put("ok", cls, "%s=%s" % (mname, tag), b"".join(e))
            for cls, tag, b in self.msg_sweep(t, True):
                e = list(base)
                e[i] = b
                put("err", cls, "%s=%s" % (mname, tag), b"".join(e))

        # what is still required after a cut in front of member i
        def need_after(i):
            hard = False
            soft = False
            for m, t in zip(members[i:], types[i:]):
                if self.msg_min_size(t) == 0:
                    continue
                if "default" in m:
                    soft = True
                else:
                    hard = True
            return hard, soft

        for i, (m, t) in enumerate(zip(members, types)):
            mname = snake(m["name"])
            hard, soft = need_after(i)
            body = b"".join(base[:i])
            if hard:
                put("err", "truncation", "cut-before=%s" % mname, body)
            elif soft:
                put("any", "truncation-default", "cut-before=%s" % mname, body)
            elif any(x["kind"] == "optional" for x in types[i:]):
                put("okd", "optional-absent", "absent-from=%s" % mname, body)
            else:
                put("ok", "rest-empty", "cut-before=%s" % mname, body)
            # a cut inside the member: the member cannot be completed
            if self.msg_min_size(t) > 0 and "default" not in m:
                enc = base[i]
                if t["kind"] in INT_KINDS:
                    wide = [v for _, v in self.int_ok(t) if len(varint(v)) >= 2]
                    enc = varint(wide[-1]) if wide else enc
                if len(enc) >= 2:
                    put("err", "truncation", "cut-inside=%s" % mname, body + enc[:-1])
        if not types or types[-1]["kind"] not in REST_KINDS:
            put("warn", "excess", "one-trailing-byte", b"".join(base) + b"\x00")
            put("warn", "excess", "trailing-bytes", b"".join(base) + b"\x80\x01xyz")
        else:
            if types[-1]["kind"] == "packed_addresses":
                put("warn", "excess", "address-list-17-bytes", b"".join(base[:-1]) + pattern(17, 9))
                put("warn", "excess", "address-list-19-bytes", b"".join(base[:-1]) + pattern(19, 10))

    def gen_sysgame(self, kind, section):
        sysflag = 1 if kind == "system" else 0
        ordinals = []
        for msg in self.json.get(section, []):
            form, val = self.resolve_id(msg)
            if form == "o":
                ordinals.append(val)
                prefix = varint((val << 1) | sysflag)
                ident = "o:%d" % val
            else:
                prefix = varint(sysflag) + val
                ident = "u:" + val.hex()
            self.gen_message(kind, msg, prefix, ident)
        # ids that are not described
        name = "<undescribed-id>"
        ident = "-"
        described = set(ordinals)
        top = max(ordinals) if ordinals else 0
        cands = [top + 1, top + 2, 0x7FFF, 2 ** 30 - 1] + [i for i in range(1, top) if i not in described]
        for i in sorted(set(cands)):
            self.emit(kind, name, "err", "id", ident, varint((i << 1) | sysflag).hex(), "ordinal=%d" % i)
        self.emit(kind, name, "err", "id", ident, varint(-2 | sysflag).hex(), "ordinal=-1")
        unknown = uuid.uuid3(TEEWORLDS_NAMESPACE, "undescribed@verif.invalid").bytes
        self.emit(kind, name, "err", "id", ident, (varint(sysflag) + unknown).hex(), "uuid=undescribed")
        self.emit(kind, name, "err", "id", ident, (varint(sysflag) + bytes(16)).hex(), "uuid=nil")
        self.emit(kind, name, "err", "id", ident, (varint(sysflag) + unknown[:15]).hex(), "uuid=truncated")
        self.emit(kind, name, "err", "id", ident, varint(sysflag).hex(), "uuid=missing")
        self.emit(kind, name, "err", "id", ident, "", "empty-input")
        self.emit(kind, name, "err", "id", ident, "80", "id-varint-cut")

    def gen_connless(self):
        ids = []
        for msg in self.json.get("connless_messages", []):
            prefix = bytes(msg["id"])
            if len(prefix) != 8:
                raise SystemExit("connless id of %r is not 8 bytes" % (msg["name"],))
            ids.append(prefix)
            self.gen_message("connless", msg, prefix, "c:" + prefix.hex())
        name = "<undescribed-id>"
        for tag, b in [("unknown", b"\xff\xff\xff\xffzzzz"), ("zeros", bytes(8)), ("short7", b"\xff\xff\xff\xffzzz"), ("empty", b""), ("ff-only", b"\xff\xff\xff\xff")]:
            if b not in ids:
                self.emit("connless", name, "err", "id", "-", b.hex(), tag)
        if ids:
            first = ids[0]
            self.emit("connless", name, "err", "id", "-", first[:7].hex(), "described-id-cut")
            flipped = first[:7] + bytes([first[7] ^ 0x20])
            if flipped not in ids:
                self.emit("connless", name, "err", "id", "-", flipped.hex(), "described-id-case-flipped")

    # ------------------------------------------------------------ objects
    def gen_objects(self):
        ordinals = []
        for obj in self.json.get("snapshot_objects", []):
            name = title(obj["name"])
            form, val = self.resolve_id(obj)
            if form == "o":
                ordinals.append(val)
                ident = "o:%d" % val
            else:
                ident = "u:" + val.hex()
            members = self.object_members(obj)
            base = []
            spans = []
            for m in members:
                w = self.words_typical(m["type"])
                spans.append((len(base), len(base) + len(w)))
                base += w
            attrs = obj.get("attributes", [])
            flags = []
            if any(self.type_has_bool(m["type"]) for m in members):
                flags.append("bool")
            dvs = "dont_validate_size" in attrs
            if dvs:
                flags.append("dvs")
            if any("default" in m for m in members):
                flags.append("default")
            self.codec("object", name, ident, len(base), flags, "-", words_str(base))

            def put(expect, cls, tag, words):
                self.emit("object", name, expect, cls, ident, words_str(words), tag)

            put("ok", "typical", "typical", base)
            w = list(base)
            fields = []
            for i, (m, (a, b)) in enumerate(zip(members, spans)):
                dv = self.distinct_value(m["type"], i)
                if dv is not None:
                    w[a:b] = [dv[0]]
                    fields.append("%s=%s" % (snake(m["name"]), dv[1]))
            if fields:
                put("ok", "distinct", "fields:" + ";".join(fields), w)
            for m, (a, b) in zip(members, spans):
                mname = snake(m["name"])
                for cls, tag, words in self.words_sweep(m["type"], False):
                    w = list(base)
                    w[a:b] = words
                    put("ok", cls, "%s=%s" % (mname, tag), w)
                for cls, tag, words in self.words_sweep(m["type"], True):
                    w = list(base)
                    w[a:b] = words
                    put("err", cls, "%s=%s" % (mname, tag), w)
            for i, (m, (a, b)) in enumerate(zip(members, spans)):
                mname = snake(m["name"])
                soft = dvs or all("default" in x for x in members[i:])
                put("any" if soft else "err", "truncation-default" if soft else "truncation", "cut-before=%s" % mname, base[:a])
                if b - a >= 2:
                    put("any" if soft else "err", "truncation-default" if soft else "truncation", "cut-inside=%s" % mname, base[:b - 1])
            put("any" if dvs else "warn", "excess-unvalidated" if dvs else "excess", "one-trailing-word", base + [0])
            put("any" if dvs else "warn", "excess-unvalidated" if dvs else "excess", "trailing-words", base + [I32_MIN, 7, -1])
        name = "<undescribed-id>"
        top = max(ordinals) if ordinals else 0
        described = set(ordinals)
        cands = [0, top + 1, top + 2, 0x7FFF, 0xFFFF] + [i for i in range(1, top) if i not in described]
        for i in sorted(set(cands)):
            self.emit("object", name, "err", "id", "o:%d" % i, words_str([1, 1, 1, 1]), "ordinal=%d" % i)
        unknown = uuid.uuid3(TEEWORLDS_NAMESPACE, "undescribed@verif.invalid").bytes
        self.emit("object", name, "err", "id", "u:" + unknown.hex(), words_str([1, 1, 1, 1]), "uuid=undescribed")
        self.emit("object", name, "err", "id", "u:" + bytes(16).hex(), words_str([]), "uuid=nil")

    def generate(self):
        self.gen_sysgame("system", "system_messages")
        self.gen_sysgame("game", "game_messages")
        self.gen_connless()
        self.gen_objects()


def twstring(s, nwords):
    """Teeworlds' string-in-ints packing: bytes biased by 0x80, big-endian in each
    word, zero padded, the very last byte is the terminator (stored as 0)."""
    assert len(s) < 4 * nwords
    raw = bytearray((b + 0x80) & 0xFF for b in s)
    raw += bytes([0x80]) * (4 * nwords - len(raw))
    raw[-1] = 0x00
    words = []
    for i in range(nwords):
        v = int.from_bytes(raw[4 * i:4 * i + 4], "big")
        if v > I32_MAX:
            v -= 2 ** 32
        words.append(v)
    return words


def words_str(words):
    return ",".join("%d" % w for w in words) if words else "-"


def write_spec(spec_path, out_path, shard, nshards):
    spec = Spec(spec_path)
    spec.generate()
    lines = ["S\t%s\t%s\t%d\t%d" % (spec.crate, spec.file, len(spec.codecs), len(spec.records))]
    for c in spec.codecs:
        lines.append("C\t" + "\t".join(c))
    for r in spec.records:
        if nshards is not None and r[0] % nshards != shard:
            continue
        lines.append("V\t%d\t%s" % (r[0], "\t".join(r[1:])))
    if out_path is None:
        return spec.crate, lines
    tmp = out_path + ".tmp.%d" % os.getpid()
    with open(tmp, "w", encoding="ascii", newline="\n") as f:
        f.write("\n".join(lines))
        f.write("\n")
    os.replace(tmp, out_path)
    return spec.crate, lines


def main(argv):
    args = argv[1:]
    shard = None
    nshards = None
    outdir = None
    pos = []
    i = 0
    while i < len(args):
        if args[i] == "--outdir":
            outdir = args[i + 1]
            i += 2
        elif args[i] == "--shard":
            shard = int(args[i + 1])
            i += 2
        elif args[i] == "--nshards":
            nshards = int(args[i + 1])
            i += 2
        else:
            pos.append(args[i])
            i += 1
    if (shard is None) != (nshards is None):
        sys.stderr.write(__doc__)
        return 2
    if outdir is not None:
        if not pos:
            sys.stderr.write(__doc__)
            return 2
        os.makedirs(outdir, exist_ok=True)
        for spec_path in pos:
            crate = Spec(spec_path).crate
            write_spec(spec_path, os.path.join(outdir, crate + ".vec"), shard, nshards)
        return 0
    if len(pos) != 2:
        sys.stderr.write(__doc__)
        return 2
    write_spec(pos[0], pos[1], shard, nshards)
    return 0


if __name__ == "__main__":
    sys.exit(main(sys.argv))
