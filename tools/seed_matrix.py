#!/usr/bin/env python3
"""Rebuilds the seeded-change table in DESIGN.md (between the seed-matrix
markers) from seeded/*/meta.json + detect.json."""
import glob
import json
import os
import re

VERIF = os.path.dirname(os.path.dirname(os.path.abspath(__file__)))


def first_violation(run):
    lines = run.get("lines", [])
    for i, l in enumerate(lines):
        if l.startswith("VIOLATION"):
            for m in lines[i + 1:i + 2]:
                if m.strip().startswith("signature:"):
                    return m.strip()[len("signature:"):].strip()
            return "(violation)"
    return None


def row(name):
    d = os.path.join(VERIF, "seeded", name)
    meta = json.load(open(os.path.join(d, "meta.json")))
    hist = json.load(open(os.path.join(d, "detect.json")))["history"]
    own = meta["property"]
    summary = re.sub(r"\s+", " ", meta["summary"]).replace("|", "/")
    if len(summary) > 170:
        summary = summary[:167] + "..."
    runs = [r for h in hist for r in h["runs"]]
    own_runs = [r for r in runs if r["check"] == own]
    verdict, sig = "not reported", ""
    for i, r in enumerate(own_runs):
        s = first_violation(r)
        if r["exit"] == 1 and s:
            earlier_miss = any(first_violation(q) is None for q in own_runs[:i])
            verdict = "%s %s%s" % (own, r["tier"], ", after strengthening" if earlier_miss else "")
            sig = s
    others = sorted(set(r["check"] for r in runs if r["check"] != own and r["exit"] == 1 and first_violation(r)))
    if others:
        verdict += " (also %s)" % ", ".join(others)
    sig = sig.replace("|", " / ")
    if len(sig) > 120:
        sig = sig[:117] + "..."
    return "| %s | %s | %s | %s |" % (name, summary, verdict, ("`" + sig.replace("`", "'") + "`") if sig else "")


def main():
    names = sorted(os.path.basename(p) for p in glob.glob(os.path.join(VERIF, "seeded", "C*")))
    r1 = [n for n in names if "b-" not in n and "c-" not in n and "d-" not in n]
    r2 = [n for n in names if "b-" in n]
    r3 = [n for n in names if "c-" in n]
    r4 = [n for n in names if "d-" in n]
    out = []
    for title, ns in (("Round 1", r1), ("Round 2", r2), ("Round 3", r3), ("Round 4", r4)):
        out.append("**%s** (%d changes)\n" % (title, len(ns)))
        out.append("| seed | change | reported by | first signature |")
        out.append("|---|---|---|---|")
        out += [row(n) for n in ns]
        out.append("")
    text = "\n".join(out)
    p = os.path.join(VERIF, "DESIGN.md")
    s = open(p).read()
    b, e = "<!-- seed-matrix:begin -->", "<!-- seed-matrix:end -->"
    i, j = s.index(b), s.index(e)
    s = s[:i + len(b)] + "\n" + text + s[j:]
    open(p, "w").write(s)
    print("rows:", len(r1), len(r2), len(r3), len(r4))


if __name__ == "__main__":
    main()
