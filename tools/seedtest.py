#!/usr/bin/env python3
"""Seeded-change workflow.

  seedtest.py confirm <seed-dir> <scratch-worktree>
      Independently confirms a proposed change: applies patch.diff in the scratch
      worktree (never /repo), builds, runs the existing suite (must stay green),
      runs the demonstration (must fail), reverts, runs the demonstration again
      (must pass). Writes <seed-dir>/confirm.json.

  seedtest.py detect <seed-dir> <ID> [tier] [more IDs...]
      Applies patch.diff to /repo (git apply), runs ./check <ID> <tier> for every
      given property, and reverts (git checkout -- .) straight afterwards.
      Writes <seed-dir>/detect.json.

  seedtest.py keep <seed-dir> <name>
      Copies patch.diff, the demonstration and meta.json (+confirm/detect results)
      to /verif/seeded/<name>/.
"""
import json
import os
import shutil
import subprocess
import sys
import time

VERIF = os.path.dirname(os.path.dirname(os.path.abspath(__file__)))


def run(cmd, cwd, timeout=3600):
    p = subprocess.run(cmd, cwd=cwd, shell=isinstance(cmd, str), stdout=subprocess.PIPE, stderr=subprocess.STDOUT, text=True, timeout=timeout)
    return p.returncode, p.stdout


def clean(wt):
    run("git checkout -- . && git clean -fdq -e target", wt)


def confirm(seed, wt):
    meta = json.load(open(os.path.join(seed, "meta.json")))
    patch = os.path.join(seed, "patch.diff")
    res = {"worktree": wt, "at": time.strftime("%Y-%m-%dT%H:%M:%S")}
    clean(wt)
    rc, out = run(["git", "apply", "--check", patch], wt)
    if rc != 0:
        res["error"] = "patch does not apply: " + out[-400:]
        json.dump(res, open(os.path.join(seed, "confirm.json"), "w"), indent=1)
        return res
    run(["git", "apply", patch], wt)
    rc, out = run("cargo build --workspace --offline 2>&1 | tail -3", wt)
    res["builds"] = "error" not in out.lower().split("warning")[0] and rc == 0
    rc, out = run("cargo nextest run --workspace --no-fail-fast --offline 2>&1 | tail -4", wt)
    res["suite_tail"] = out.strip().splitlines()[-2:]
    res["suite_green"] = rc == 0 and "passed" in out and " failed" not in out.split("Summary")[-1]
    # demonstration
    demo_root = os.path.join(seed, "demo")
    copied = []
    for d, _, files in os.walk(demo_root):
        for f in files:
            src = os.path.join(d, f)
            rel = os.path.relpath(src, demo_root)
            dst = os.path.join(wt, rel)
            os.makedirs(os.path.dirname(dst), exist_ok=True)
            shutil.copy(src, dst)
            copied.append(rel)
    res["demo_files"] = copied
    cmd = meta["demo_cmd"]
    rc1, out1 = run(cmd + " 2>&1 | tail -15", wt)
    rc1b, _ = run(cmd + " >/dev/null 2>&1", wt)
    res["demo_with_change"] = {"exit": rc1b, "tail": out1[-600:]}
    # revert the library change only
    run(["git", "apply", "-R", patch], wt)
    rc2, out2 = run(cmd + " >/dev/null 2>&1", wt)
    res["demo_without_change"] = {"exit": rc2}
    res["confirmed"] = bool(res["builds"] and res["suite_green"] and rc1b != 0 and rc2 == 0)
    clean(wt)
    json.dump(res, open(os.path.join(seed, "confirm.json"), "w"), indent=1)
    return res


def detect(seed, checks):
    patch = os.path.join(seed, "patch.diff")
    rc, out = run("git status --porcelain", "/repo")
    if out.strip():
        print("refusing: /repo has uncommitted changes")
        return None
    rc, out = run(["git", "apply", patch], "/repo")
    if rc != 0:
        print("patch does not apply to /repo: " + out[-300:])
        return None
    res = {"at": time.strftime("%Y-%m-%dT%H:%M:%S"), "runs": []}
    try:
        for pid, tier in checks:
            t0 = time.time()
            rc, out = run(["./check", pid, tier], VERIF, timeout=4 * 3600)
            lines = [l for l in out.splitlines() if l.startswith(("VIOLATION", "OK ", "INCONCLUSIVE", "KNOWN-FINDING", "  signature"))]
            res["runs"].append({"check": pid, "tier": tier, "exit": rc, "wall_s": round(time.time() - t0, 1), "lines": [l[:300] for l in lines[:12]]})
            print(pid, tier, "exit", rc, "|", " ; ".join(l[:160] for l in lines[:4]))
    finally:
        run("git checkout -- .", "/repo")
    rc, out = run("git status --porcelain", "/repo")
    res["repo_clean_after"] = not out.strip()
    prev = []
    path = os.path.join(seed, "detect.json")
    if os.path.exists(path):
        prev = json.load(open(path)).get("history", [])
    json.dump({"history": prev + [res]}, open(path, "w"), indent=1)
    return res


def keep(seed, name):
    dst = os.path.join(VERIF, "seeded", name)
    if os.path.exists(dst):
        shutil.rmtree(dst)
    shutil.copytree(seed, dst)
    print("kept", dst)


def main():
    a = sys.argv[1:]
    if a[0] == "confirm":
        r = confirm(a[1], a[2])
        print(json.dumps({k: r.get(k) for k in ("builds", "suite_green", "confirmed", "error")}), r.get("demo_with_change", {}).get("exit"), r.get("demo_without_change", {}).get("exit"))
    elif a[0] == "detect":
        seed = a[1]
        rest = a[2:]
        checks = []
        tier = "quick"
        for x in rest:
            if x in ("quick", "thorough"):
                tier = x
        for x in rest:
            if x not in ("quick", "thorough"):
                checks.append((x, tier))
        detect(seed, checks)
    elif a[0] == "keep":
        keep(a[1], a[2])


if __name__ == "__main__":
    main()
