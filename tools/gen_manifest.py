#!/usr/bin/env python3
"""Generates /verif/MANIFEST.json from tools/checks_config.py and tools/manifest_text.py."""
import json
import os
import subprocess
import sys

HERE = os.path.dirname(os.path.abspath(__file__))
VERIF = os.path.dirname(HERE)
sys.path.insert(0, HERE)
from checks_config import CHECKS  # noqa
from manifest_text import TEXT, NOT_APPLICABLE, HOOK_COMMITS  # noqa

props = [json.loads(l)["id"] for l in open(os.path.join(VERIF, "properties.jsonl"))]
checks = []
for pid in props:
    if pid not in CHECKS or pid in NOT_APPLICABLE:
        continue
    t = TEXT.get(pid) or {"technique": "runtime monitor (see DESIGN.md)", "level_text": "generated workloads on the real code under an oracle; see DESIGN.md", "level_note": "see DESIGN.md"}
    checks.append({
        "property_id": pid,
        "quick_cmd": "./check %s quick" % pid,
        "thorough_cmd": "./check %s thorough" % pid,
        "evidence_file": "/verif/evidence/%s.json" % pid,
        "replay_cmd_template": "./check %s --replay {path}" % pid,
        "engine": "runtime-monitors",
        "level_claimed": {"category": CHECKS[pid]["level"], "text": t["level_text"], "design_ref": "DESIGN.md §5/" + pid},
        "level_note": t["level_note"],
        "technique": t["technique"],
    })
na = []
for pid in props:
    if pid in NOT_APPLICABLE:
        na.append({"property_id": pid, "reason": NOT_APPLICABLE[pid]})
    elif pid not in CHECKS:
        na.append({"property_id": pid, "reason": "not claimed yet: the runtime monitor for this property is not built at this commit (work in progress, see DESIGN.md §5/%s)" % pid})
manifest = {
    "version": 1,
    "setup_cmd": "./check --setup",
    "hooks": {
        "guard": "cargo feature `verif` (crates libtw2-net, libtw2-teehistorian, libtw2-snapshot); off by default, never enabled by the workspace",
        "enable": "the harness crate /verif/harness depends on the /repo crates by path with features=[\"verif\"]; every check runs `cargo build` there, which rebuilds from /repo's working tree",
        "baseline_off_cmd": "cd /repo && cargo nextest run --workspace --no-fail-fast --offline --test-threads 8 || cargo test --workspace --no-fail-fast --offline",
        "source_commits": HOOK_COMMITS,
        "add_only": True,
    },
    "engines": [{
        "name": "runtime-monitors",
        "path": "/verif/harness",
        "serves_properties": [c["property_id"] for c in checks],
        "kind_free_text": "Rust monitor binaries (one per property) that drive the real library code with generated hostile workloads and check oracles over the observed events; sharded over 16 processes by /verif/check; selected monitors re-run under Miri and AddressSanitizer",
    }],
    "checks": checks,
    "not_applicable": na,
    "notes": "Exit codes: 0 held / 1 violated (VIOLATION lines) / 3 inconclusive (INCONCLUSIVE line: build failure, watchdog, observation minima unmet). Known findings: /verif/known_findings.json.",
}
json.dump(manifest, open(os.path.join(VERIF, "MANIFEST.json"), "w"), indent=1)
print("claimed:", [c["property_id"] for c in checks])
