"""Texts for MANIFEST.json, per property."""

HOOK_COMMITS = ["e4221b4", "d0c69f8"]
NOT_APPLICABLE = {}

TEXT = {
    "C08": {
        "technique": "runtime monitor: exhaustive/strided sweep through the real codec against an independent doc/int.md reference codec; model-based packer sequences into canary-guarded buffers; Miri on a sample",
        "level_text": "Every one of the 2^32 integers (thorough) is encoded and decoded by the real packer and compared with an independent codec written from doc/int.md; all byte strings up to 3 bytes and boundary-pattern 4-6 byte strings are decoded and compared (value, consumed length, error iff truncated, warning iff non-canonical); random packer sequences are checked against a byte-string model in every capacity. The integer and short-string sub-spaces are enumerated completely; the packer sequences are sampled.",
        "level_note": "Trusts the harness's reading of doc/int.md (refmodel/varint.rs) and the canary/pointer-range checks; packer op sequences are PRNG samples, not enumerated.",
    },
    "C01": {
        "technique": "runtime monitor: online exactly-once/in-order delivery oracle over recorded send/deliver events of two real endpoints on a simulated lossy, duplicating, reordering network with virtual time; Miri on short histories",
        "level_text": "Thousands of generated histories per run (three protocol variants, per-history fault personalities, bursts, boundary chunk sizes, sequence wrap-around) are executed on the real Connection code; at the return of every feed the delivered vital chunks must be exactly the next submissions of the peer, non-vital and connless deliveries must have been submitted, and ready is checked against the acceptor's emitted answer (classified by the harness's own header parser). The explored dimension is the fault/schedule pattern; nothing is enumerated exhaustively.",
        "level_note": "Assumes the quantifier's preconditions, which the harness enforces through the verif hooks (unacked < 500, datagrams dropped after 500 further sequence numbers). Datagram corruption is out of scope here. Only generated interleavings are covered.",
    },
    "C04": {
        "technique": "runtime monitor: every datagram handed to Callback::send is re-parsed by the library's own reader (zero warnings, chunk count and contents checked against the submissions); API calls run under catch_unwind; callback-count budget for non-termination; monitor and release profiles; Miri sample",
        "level_text": "Generated histories of valid API calls (chaos with payloads 0..2000 and disconnects, bursts of up to 1000 tiny chunks without flush, multi-datagram resends, contiguous length sweeps 0..1503 for vital/non-vital/connless in all three variants, disconnect from every state with every reason length 0..127) on the real endpoints; each emitted datagram is checked for size, parseability without warnings with the true token mode, chunk count and bit-identical chunks; refusals must leave the state fingerprint unchanged and the history continues.",
        "level_note": "Validity of a call is taken from the API's own assertions; a TooLongData refusal is accepted for payloads >= 1024 bytes. Coverage is what the generators produce; counters in the evidence show which branches (compressed/uncompressed, refusals, resends) were seen.",
    },
    "C02": {
        "technique": "runtime monitor: liveness restated as bounded progress and decided on virtual time and logical counters (chaos prefix, then fair suffix with a settle predicate; per-call callback budget for non-termination; finite-deadline assertion at every step); monitor and release profiles",
        "level_text": "From thousands of states reached by generated fault prefixes (incl. total loss and the largest accepted chunk sizes 1023 / 1390 with multi-datagram resends) the fair suffix is executed on the real endpoints: FIFO loss-free delivery, ticks exactly at the reported deadline. The oracle demands ready, full delivery, nothing unacknowledged or queued within 10 s virtual time and 200 ticks per side; every API call must return within 100000 callback invocations; needs_tick must be finite while a retransmission is owed. No unbounded 'eventually' is claimed, only this bounded restatement.",
        "level_note": "The bound (10 s / 200 ticks) is an assumption with >3x slack over protocol timers. PendingConnect (0.7 acceptor waiting passively) is exempt from the finite-deadline clause. Only generated prefixes are covered.",
    },
    "C03": {
        "technique": "runtime monitor: fork-and-compare on the real endpoint (clone hook): foreign datagrams fed to a clone must yield no event, no send, no random draw and an identical full-state fingerprint; sampled 50-step shadow-twin differential; reserved-token assertion on every acceptor token seen on the wire",
        "level_text": "At ~40 fork points per generated history (client and server role, every state that has fixed a token in 0.6+token and 0.7) some 30-60 foreign datagrams of every kind (wrong/rotated/peer/reserved/random/no token, real datagrams re-tokened incl. through recompression, truncations, random bytes) are fed to a clone of the real endpoint and the complete observable effect is compared with 'nothing'. The 0.7 unauthenticated token-request exception is checked separately (only a Token reply, state unchanged).",
        "level_note": "What counts as the carried token is decided by the harness's own parser; fork points with >40 unacked chunks are skipped for cost; 0.6 without token extension fixes no token and is out of scope.",
    },
    "C20": {
        "technique": "runtime monitor: differential execution of the real Net against per-address reference Connections driven by the projected sub-history (same clock, same random bytes); per-call comparison of events and datagrams, quiescent-point comparison of full peer state (hook), needs_tick, id/address uniqueness and peer removal",
        "level_text": "Generated histories with 2-6 addresses on accepting and non-accepting endpoints: real remote connections as traffic sources over lossy wires, garbage, connless and cross-talk datagrams, all application calls, ticks. After every move the hooked peer table must match the references exactly (state fingerprint per peer, set of live addresses, distinct ids, minimum deadline) and no datagram may go to an address other than the one the call concerned.",
        "level_note": "The projection rule (reference created with the peer; canned connect at accept) is the harness's reading of the Net API; a panic on both sides counts as equivalent (belongs to C04).",
    },
    "C05": {
        "technique": "runtime monitor: generated packet values written and re-read by the real codec (round-trip oracle, empty warning sink, compression branch read off the header bit); exhaustive sweeps of the header bit-field pack/unpack pairs",
        "level_text": "Hundreds of thousands of packet values per run (connless, every control message with/without token, close reasons 0..127 bytes, chunk packets with both flags, ack 0..1023, chunk count 0..255, payloads 0..max from all-zero to noise) are written and read back field by field in both protocol versions, with both writer branches (compressed / uncompressed) counted; chunk sequences through write_chunk / ChunksIter; in the thorough tier all 2^24 0.6 packet headers, all vital (2^24) and non-vital (2^16) chunk headers of both versions and all first-three-byte patterns of the 0.7 header are enumerated.",
        "level_note": "Values stay inside the writer's documented preconditions. Header sub-spaces are exhaustive in thorough (stride 7 in quick); packet values are PRNG samples.",
    },
    "C06": {
        "technique": "runtime monitor: hostile inputs through the real reader under catch_unwind and a CPU watchdog; pointer-range (provenance) checks of every returned slice against the input and a canary-guarded scratch buffer; closure oracle (accepted value is re-written and re-read equal); Miri sample",
        "level_text": "All byte strings up to 3 bytes (thorough; <=2 plus spread 3-byte strings in quick) with every token hint and both versions, millions of single/double corruptions, truncations and extensions (to 3000 bytes) of valid packets of every kind, decompression bombs expanding to 1390..8000 bytes, truncated and garbage Huffman streams go through Packet::read, read_panic_on_decompression, decompress_if_needed, is_initial and the chunk iterator. The oracles observe panics, CPU time, the address ranges of returned slices, the guard bytes around the scratch buffer, and whether accepted values survive write+read.",
        "level_note": "A clean run is not memory safety: provenance and canaries see out-of-range slices and adjacent overwrites only; Miri/ASan runs cover samples. Two closure findings (connless payloads of 1391..1394 bytes) are listed in known_findings.json.",
    },
    "C07": {
        "technique": "runtime monitor: round-trip, exact-length and capacity oracles on the real codec with canary-guarded output windows for every capacity; differential comparison with the bundled C++ reference implementation (compressor byte-identical, decoder one-directional); Miri on the unsafe uninitialized_mut/advance pair",
        "level_text": "All compressor inputs of length <= 2 are enumerated; structured and random strings up to 8 KiB are compressed in both output forms into buffers of every capacity (short outputs) or boundary capacities; valid, truncated, extended, garbage and recorded streams are decompressed against every output capacity 0..needed+2; the same is repeated for generated frequency tables. The C++ reference is linked in and compared on every input it handles.",
        "level_note": "Generated tables keep frequency sums < 2^31 and depth <= 24 (vectors the constructor rejects by panicking are counted and skipped; the property does not claim them). Only inputs of length <= 2 are exhaustive.",
    },
    "C09": {
        "technique": "runtime monitor: model-based oracle (a BTreeMap model of each snapshot) over delta create/apply in memory, through the byte and integer wire forms; differential comparison with the bundled DDNet reference CreateDelta and snapshot builder; exhaustive enumeration of tiny universes",
        "level_text": "All ordered pairs over 39 tiny universes (<= 3 keys, <= 3 words, six boundary values per word, keys on both sides of 0x8000, pre-agreed and explicit sizes) are enumerated in the thorough tier (a slice in quick); random pairs up to 1024 items / 64 KiB with items added, removed, changed with wrapping differences and untouched. For each pair the delta is applied in memory, via bytes and via ints and the result compared with the model of B (items, data, checksum, empty warning sink); the reference's delta for the same pair is read and applied here; the snapshot's integer serialisation is compared with the reference builder's.",
        "level_note": "Item size is a function of the key inside one universe (documented precondition of Delta::create). Reference comparison only inside the reference's own limits.",
    },
    "C10": {
        "technique": "runtime monitor: model-based indistinguishability oracle through the public API (items(), item() for every original key, crc, recycle) after byte and integer serialisation and after delta application",
        "level_text": "Tens of thousands of builder-made snapshots per run (0..1024 items, 0..40 UUID types interleaved with ordinal ones, ids over the whole range, lengths up to the 64 KiB limit) are serialised both ways, read back, rebuilt from deltas (from empty and from a predecessor via a recycled builder) and recycled; after each step every original (type, id) is looked up and the enumeration, data and checksum compared with the model.",
        "level_note": "Snapshots are PRNG samples; the predecessor/successor pair for the delta path is built through recycle, as Storage::new_builder does.",
    },
    "C15": {
        "technique": "runtime monitor: write-then-read round-trip oracle over generated recordings at the chunk level and at the typed object level (model = the per-tick object sets), coverage read off the written bytes as doc/demo.md lays them out; refusal probes for non-increasing ticks and duplicate keys",
        "level_text": "Thousands of recordings per run: low-level chunk sequences with tick gaps on both sides of the inline limit, key frames, payloads built to exact compressed sizes (29/30, 255/256, 65534/65535), empty payloads, every message length residue, headers up to capacity-1; high-level world histories of 18 typed DDNet object kinds (incl. UUID types) over several key-frame intervals with objects appearing, changing and vanishing, interleaved messages, and same-tick / smaller-tick / duplicate-key probes after which the rest of the recording must still round-trip.",
        "level_note": "Payloads the low-level writer cannot carry (compressed form over its buffer or over 16 bits) count as not accepted. Object types with boolean members are left out (C14 finding). Two low-level findings are listed in known_findings.json.",
    },
}
