"""Texts for MANIFEST.json, per property."""

HOOK_COMMITS = []
NOT_APPLICABLE = {}

TEXT = {
    "C08": {
        "technique": "runtime monitor: exhaustive/strided sweep through the real codec against an independent doc/int.md reference codec; model-based packer sequences into canary-guarded buffers; Miri on a sample",
        "level_text": "Every one of the 2^32 integers (thorough) is encoded and decoded by the real packer and compared with an independent codec written from doc/int.md; all byte strings up to 3 bytes and boundary-pattern 4-6 byte strings are decoded and compared (value, consumed length, error iff truncated, warning iff non-canonical); random packer sequences are checked against a byte-string model in every capacity. The integer and short-string sub-spaces are enumerated completely; the packer sequences are sampled.",
        "level_note": "Trusts the harness's reading of doc/int.md (refmodel/varint.rs) and the canary/pointer-range checks; packer op sequences are PRNG samples, not enumerated.",
    },
}
