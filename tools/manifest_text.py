"""Texts for MANIFEST.json, per property."""

HOOK_COMMITS = ["e4221b4", "d0c69f8"]
NOT_APPLICABLE = {}

TEXT = {
    "C08": {
        "technique": "runtime monitor: exhaustive/strided sweep through the real codec against an independent doc/int.md reference codec; model-based packer sequences into canary-guarded buffers; Miri on a sample",
        "level_text": "Every one of the 2^32 integers (thorough) is encoded and decoded by the real packer and compared with an independent codec written from doc/int.md; all byte strings up to 3 bytes and boundary-pattern 4-6 byte strings are decoded and compared (value, consumed length, error iff truncated, warning iff non-canonical); random packer sequences are checked against a byte-string model in every capacity. The integer and short-string sub-spaces are enumerated completely; the packer sequences are sampled.",
        "level_note": "Trusts the harness's reading of doc/int.md (refmodel/varint.rs) and the canary/pointer-range checks; packer op sequences are PRNG samples, not enumerated.",
    },
    "C01": {
        "technique": "runtime monitor: online exactly-once/in-order delivery oracle over recorded send/deliver events of two real endpoints on a simulated lossy, duplicating, reordering network with virtual time; Miri on short histories",
        "level_text": "Thousands of generated histories per run (three protocol variants, per-history fault personalities, bursts, boundary chunk sizes, sequence wrap-around) are executed on the real Connection code; at the return of every feed the delivered vital chunks must be exactly the next submissions of the peer, non-vital and connless deliveries must have been submitted, and ready is checked against the acceptor's emitted answer (classified by the harness's own header parser). The explored dimension is the fault/schedule pattern; nothing is enumerated exhaustively.",
        "level_note": "Assumes the quantifier's preconditions, which the harness enforces through the verif hooks (unacked < 500, datagrams dropped after 500 further sequence numbers). Datagram corruption is out of scope here. Only generated interleavings are covered.",
    },
    "C04": {
        "technique": "runtime monitor: every datagram handed to Callback::send is re-parsed by the library's own reader (zero warnings, chunk count and contents checked against the submissions); API calls run under catch_unwind; callback-count budget for non-termination; monitor and release profiles; Miri sample",
        "level_text": "Generated histories of valid API calls (chaos with payloads 0..2000 and disconnects, bursts of up to 1000 tiny chunks without flush, multi-datagram resends, contiguous length sweeps 0..1503 for vital/non-vital/connless in all three variants, disconnect from every state with every reason length 0..127) on the real endpoints; each emitted datagram is checked for size, parseability without warnings with the true token mode, chunk count and bit-identical chunks; refusals must leave the state fingerprint unchanged and the history continues.",
        "level_note": "Validity of a call is taken from the API's own assertions; a TooLongData refusal is accepted for payloads >= 1024 bytes. Coverage is what the generators produce; counters in the evidence show which branches (compressed/uncompressed, refusals, resends) were seen.",
    },
    "C02": {
        "technique": "runtime monitor: liveness restated as bounded progress and decided on virtual time and logical counters (chaos prefix, then fair suffix with a settle predicate; per-call callback budget for non-termination; finite-deadline assertion at every step); monitor and release profiles",
        "level_text": "From thousands of states reached by generated fault prefixes (incl. total loss and the largest accepted chunk sizes 1023 / 1390 with multi-datagram resends) the fair suffix is executed on the real endpoints: FIFO loss-free delivery, ticks exactly at the reported deadline. The oracle demands ready, full delivery, nothing unacknowledged or queued within 10 s virtual time and 200 ticks per side; every API call must return within 100000 callback invocations; needs_tick must be finite while a retransmission is owed. No unbounded 'eventually' is claimed, only this bounded restatement.",
        "level_note": "The bound (10 s / 200 ticks) is an assumption with >3x slack over protocol timers. PendingConnect (0.7 acceptor waiting passively) is exempt from the finite-deadline clause. Only generated prefixes are covered.",
    },
    "C03": {
        "technique": "runtime monitor: fork-and-compare on the real endpoint (clone hook): foreign datagrams fed to a clone must yield no event, no send, no random draw and an identical full-state fingerprint; sampled 50-step shadow-twin differential; reserved-token assertion on every acceptor token seen on the wire",
        "level_text": "At ~40 fork points per generated history (client and server role, every state that has fixed a token in 0.6+token and 0.7) some 30-60 foreign datagrams of every kind (wrong/rotated/peer/reserved/random/no token, real datagrams re-tokened incl. through recompression, truncations, random bytes) are fed to a clone of the real endpoint and the complete observable effect is compared with 'nothing'. The 0.7 unauthenticated token-request exception is checked separately (only a Token reply, state unchanged).",
        "level_note": "What counts as the carried token is decided by the harness's own parser; fork points with >40 unacked chunks are skipped for cost; 0.6 without token extension fixes no token and is out of scope.",
    },
    "C20": {
        "technique": "runtime monitor: differential execution of the real Net against per-address reference Connections driven by the projected sub-history (same clock, same random bytes); per-call comparison of events and datagrams, quiescent-point comparison of full peer state (hook), needs_tick, id/address uniqueness and peer removal",
        "level_text": "Generated histories with 2-6 addresses on accepting and non-accepting endpoints: real remote connections as traffic sources over lossy wires, garbage, connless and cross-talk datagrams, all application calls, ticks. After every move the hooked peer table must match the references exactly (state fingerprint per peer, set of live addresses, distinct ids, minimum deadline) and no datagram may go to an address other than the one the call concerned.",
        "level_note": "The projection rule (reference created with the peer; canned connect at accept) is the harness's reading of the Net API; a panic on both sides counts as equivalent (belongs to C04).",
    },
}
