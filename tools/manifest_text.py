"""Texts for MANIFEST.json, per property."""

HOOK_COMMITS = ["e4221b4", "d0c69f8"]
NOT_APPLICABLE = {}

TEXT = {
    "C08": {
        "technique": "runtime monitor: exhaustive/strided sweep through the real codec against an independent doc/int.md reference codec; model-based packer sequences into canary-guarded buffers; Miri on a sample",
        "level_text": "Every one of the 2^32 integers (thorough) is encoded and decoded by the real packer and compared with an independent codec written from doc/int.md; all byte strings up to 3 bytes and boundary-pattern 4-6 byte strings are decoded and compared (value, consumed length, error iff truncated, warning iff non-canonical); random packer sequences are checked against a byte-string model in every capacity. The integer and short-string sub-spaces are enumerated completely; the packer sequences are sampled.",
        "level_note": "Trusts the harness's reading of doc/int.md (refmodel/varint.rs) and the canary/pointer-range checks; packer op sequences are PRNG samples, not enumerated.",
    },
    "C01": {
        "technique": "runtime monitor: online exactly-once/in-order delivery oracle over recorded send/deliver events of two real endpoints on a simulated lossy, duplicating, reordering network with virtual time; Miri on short histories",
        "level_text": "Thousands of generated histories per run (three protocol variants, per-history fault personalities, bursts, boundary chunk sizes, sequence wrap-around) are executed on the real Connection code; at the return of every feed the delivered vital chunks must be exactly the next submissions of the peer, non-vital and connless deliveries must have been submitted, and ready is checked against the acceptor's emitted answer (classified by the harness's own header parser). The explored dimension is the fault/schedule pattern; nothing is enumerated exhaustively.",
        "level_note": "Assumes the quantifier's preconditions, which the harness enforces through the verif hooks (unacked < 500, datagrams dropped after 500 further sequence numbers). Datagram corruption is out of scope here. Only generated interleavings are covered.",
    },
    "C04": {
        "technique": "runtime monitor: every datagram handed to Callback::send is re-parsed by the library's own reader (zero warnings, chunk count and contents checked against the submissions); API calls run under catch_unwind; callback-count budget for non-termination; monitor and release profiles; Miri sample",
        "level_text": "Generated histories of valid API calls (chaos with payloads 0..2000 and disconnects, bursts of up to 1000 tiny chunks without flush, multi-datagram resends, contiguous length sweeps 0..1503 for vital/non-vital/connless in all three variants, disconnect from every state with every reason length 0..127) on the real endpoints; each emitted datagram is checked for size, parseability without warnings with the true token mode, chunk count and bit-identical chunks; refusals must leave the state fingerprint unchanged and the history continues.",
        "level_note": "Validity of a call is taken from the API's own assertions; a TooLongData refusal is accepted for payloads >= 1024 bytes. Coverage is what the generators produce; counters in the evidence show which branches (compressed/uncompressed, refusals, resends) were seen.",
    },
}
