"""Per-property configuration of the driver: monitor binary, stages per tier,
observation minima, claimed level."""


def native(tier, shards=16, profile="monitor", timeout=10800, name=None):
    return {"name": name or ("native-" + profile), "kind": "native", "profile": profile, "tier": tier,
            "shards": shards, "wall_timeout_s": timeout}


# Miri gates on out-of-bounds, dangling and uninitialised accesses only: the buffer
# crate deliberately holds two unique references (DESIGN.md C19), which the
# aliasing models reject although no property speaks about it.
MIRI_DEFAULT_FLAGS = "-Zmiri-disable-stacked-borrows"


def miri(shards=16, timeout=10800, flags=MIRI_DEFAULT_FLAGS, name="miri"):
    return {"name": name, "kind": "miri", "profile": "miri", "tier": "miri", "shards": shards,
            "wall_timeout_s": timeout, "miriflags": flags}


def asan(shards=16, timeout=10800, name="asan"):
    return {"name": name, "kind": "asan", "profile": "monitor", "tier": "asan", "shards": shards,
            "wall_timeout_s": timeout}


def asan_all(shards=2, timeout=10800):
    return {"name": "asan-all-monitors", "kind": "asan-all", "profile": "monitor", "tier": "asan", "shards": shards,
            "wall_timeout_s": timeout}


CHECKS = {}


def check(pid, level, stages_quick, stages_thorough, minima=None):
    CHECKS[pid] = {
        "bin": "mon_" + pid.lower(),
        "level": level,
        "stages": {"quick": stages_quick, "thorough": stages_thorough},
        "minima": minima or {},
    }


check("C08", "exploration",
      [native("quick")],
      [native("thorough"), miri(shards=8)],
      minima={"int_roundtrip": {"quick": 1 << 20, "thorough": 1 << 32}})

NET_MINIMA = {"resend_chunks_on_wire": 100, "duplicate_deliveries": 100, "request_resend_on_wire": 100, "ready_events": 30}

check("C01", "fault_enumeration",
      [native("quick")],
      [native("thorough"), miri(shards=4)],
      minima=dict(NET_MINIMA, seq_wraps={"quick": 1, "thorough": 16}))

check("C04", "exploration",
      [native("quick")],
      [native("thorough"), native("thorough", profile="release", name="native-release"), miri(shards=4)],
      minima=dict(NET_MINIMA, too_long_refused=100, compressed_on_wire=100, uncompressed_chunk_packets=100))

check("C02", "fault_enumeration",
      [native("quick")],
      [native("thorough"), native("thorough", profile="release", name="native-release"), miri(shards=4)],
      minima={"settled_histories": 100, "resend_chunks_on_wire": 100, "suffix_ticks": 100})

check("C03", "exploration",
      [native("quick")],
      [native("thorough"), miri(shards=4)],
      minima={"foreign_datagrams_fed": 10000, "fork_points": 500, "twin_differentials": 200,
              "token_request_exceptions": 10, "acceptor_tokens_checked": 100, "scripted_reserved_draws": 10, "fork_states": 8})

check("C20", "fault_enumeration",
      [native("quick")],
      [native("thorough"), miri(shards=4)],
      minima={"feeds_known_peer": 5000, "pending_peers_created": 200, "accepts": 100, "rejects": 20, "remote_closes": 50,
              "net_disconnects": 50, "garbage_fed": 500, "outgoing_connects": 100, "histories_non_accepting": 50, "net_ticks": 500})

check("C05", "exploration",
      [native("quick")],
      [native("thorough"), miri(shards=4)],
      minima={"v6_chunks_compressed": 100, "v6_chunks_uncompressed": 100, "v7_chunks_compressed": 100, "v7_chunks_uncompressed": 100,
              "header_patterns": {"quick": 1 << 20, "thorough": 1 << 26}})

check("C06", "exploration",
      [native("quick")],
      [native("thorough"), miri(shards=8)],
      minima={"exhaustive_strings": {"quick": 1 << 20, "thorough": 1 << 24}, "mutants_accepted": 1000, "errors_v6": 7, "errors_v7": 8,
              "bomb[huffman-bomb]": 100, "chunks_iterated": 10000})

check("C07", "exploration",
      [native("quick")],
      [native("thorough"), miri(shards=8)],
      minima={"exhaustive_inputs": 65793, "reference_compress_compared": 10000, "reference_decoded_ok": 10000, "decompress_runaway": 1000,
              "decompress_capacity_probes": 100000, "compress_capacity_probes": 100000, "tables[ties]": 10, "tables[uniform]": 10})

check("C09", "exploration",
      [native("quick")],
      [native("thorough"), miri(shards=4)],
      minima={"pairs_checked": 10000, "reference_pairs": 2000, "pairs_with_deletions": 1000, "pairs_with_additions": 1000,
              "exhaustive_universes": 39, "max_items": 1000})

check("C10", "exploration",
      [native("quick")],
      [native("thorough"), miri(shards=4)],
      minima={"snapshots[uuid-types=>=2]": 1000, "snapshots[uuid-types=1]": 500, "snapshots[uuid-types=0]": 500, "max_items": 1000})

check("C15", "exploration",
      [native("quick")],
      [native("thorough"), miri(shards=4)],
      minima={"low_recordings": 1500, "high_recordings": 800, "tick_marker_inline": 1000, "tick_marker_absolute": 1000,
              "tick_gap_31": 100, "tick_gap_32": 100, "tick_keyframe": 1000, "size_enc_5bit": 1000, "size_enc_1byte": 1000,
              "size_enc_2bytes": 1000, "compressed_len_29": 100, "compressed_len_30": 100, "compressed_len_255": 100,
              "compressed_len_256": 100, "payload_empty": 500, "message_len_not_multiple_of_4": 1000,
              "recordings_over_more_than_one_interval": 200, "objects_appeared": 1000, "objects_changed": 1000,
              "objects_vanished": 1000, "dup_key_probe": 50, "tick_probe_refused:same-tick": 50,
              "tick_probe_refused:smaller-tick": 50})

check("C11", "exploration",
      [native("quick")],
      [native("thorough"), miri(shards=4)],
      minima={"snapshot_inputs": 100000, "delta_inputs": 100000, "corrupted_snapshots_accepted": 10000, "applications_accepted": 50000,
              "snapshot_errors": 8, "delta_errors": 7, "apply_errors": 4})

check("C14", "exploration",
      [native("quick")],
      [native("thorough"), miri(shards=16)],
      minima={"codecs_teeworlds-0.5": 61, "codecs_teeworlds-0.6": 76, "codecs_teeworlds-0.7": 98, "codecs_ddnet": 144,
              "vectors_ok": 30000, "vectors_err": 4000, "vectors_warn": 700, "roundtrip_identical": 28000,
              "member_order_checked": 200, "random_decode_ok": 50000, "random_decode_err": 50000})

check("C17", "exploration",
      [native("quick")],
      [native("thorough"), miri(shards=8)],
      minima={"streams": 1000, "valid_streams_read_to_finish": 1000, "schedules_run": 500000, "two_piece_splits": 100000,
              "cb_zero_reads": 100000, "implicit_tick_advances": 10000, "explicit_tick_skips": 10000,
              "pattern_player_after_skip_cid_not_above": 5000, "buffer_compactions": 10000, "buffer_growths": 1000,
              "truncations": 100000, "corruptions": 10000, "cb_error_injections": 1000})

check("C12", "exploration",
      [native("quick")],
      [native("thorough"), miri(shards=4)],
      minima={"completed_transfers": 100000, "duplicate_messages": 50000, "stale_messages": 50000, "exhaustive_schedules": 10000,
              "split_by_library": 10000, "split_independently": 10000, "library_splitter_not_applicable": 1000, "max_parts": 32,
              "interleave_mode_1": 1000, "interleave_mode_2": 1000})

check("C13", "fault_enumeration",
      [native("quick")],
      [native("thorough"), miri(shards=4)],
      minima={"accepted_snapshots": 100000, "multi_part_snapshots": 10000, "resyncs_after_unknown_base": 1000,
              "acks_for_unknown_or_dropped_snapshots": 10000, "deltas_vs_acked_base": 100000, "deltas_vs_empty": 10000,
              "receiver_errors": 3, "max_uuid_types_live": 3})

check("C16", "exploration",
      [native("quick")],
      [native("thorough"), native("thorough", profile="release", name="native-release"), miri(shards=8)],
      minima={"wellformed_compared": 5000, "items_compared": 20000, "data_blocks_compared": 10000, "corruptions_field": 1000000,
              "truncations": 1000000, "corruptions_zblock": 100000, "corruptions_consistent": 100000, "callback_failures": 50000,
              "files_random": 1000000, "accepted_corrupted": 100000, "files_disk": 2000, "maps_disk": 2000,
              "maps_wellformed_compared": 500, "map_values_compared": 10000, "map_accessor_calls_ok": 100000,
              "map_accessor_calls_err": 50000, "map_accessors": 30, "errors": 10})

check("C19", "exploration",
      [native("quick")],
      [native("thorough"), miri(shards=16), asan_all()],
      minima={"programs[vec]": 10000, "programs[arrayvec16]": 10000, "programs[arrayvec64]": 10000, "programs[slice]": 10000,
              "programs[slice-ref]": 10000, "programs[slice-capped]": 10000, "nested_views": 50000, "capped_views": 20000,
              "reader_fills": 20000, "early_exits": 5000, "prefix_commits_on_failure": 10000})

check("C18", "exploration",
      [native("quick")],
      [native("thorough"), native("thorough", profile="release", name="native-release"), miri(shards=4)],
      minima={"kinds": 13, "wellformed_accepted": 10000, "parse_calls": 6000000, "info_parse_some": 1500000, "info_parse_none": 1500000,
              "truncations": 1500000, "prng_after_header": 150000, "numeric_fields_swept": 100000, "offset_packetno_sweeps": 150000,
              "merge_schedules": 1000000, "merge_duplicates_injected": 1500000, "complete_infos_compared": 600000,
              "merge_cases_exhaustive": 6000, "merge_cases_prng": 3000, "merge_cases_64_clients_legacy": 1500,
              "merge_parts_max_v6ex": 64, "merge_parts_max_v664": 64})
