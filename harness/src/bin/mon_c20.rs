//! C20 — the multi-peer endpoint keeps peers isolated.
//!
//! Differential monitor: one real `Net<u8>` against one reference `Connection`
//! per address, each driven by the projected sub-history (that address's
//! datagrams and API calls, same clock, the same secure_random bytes). Traffic
//! comes from real remote `Connection`s (one per address) over lossy wires, plus
//! garbage and cross-talk (address b replaying address a's datagrams).

use libtw2_net::connection as c6;
use libtw2_net::net;
use libtw2_net::net::ChunkOrEvent;
use libtw2_net::net::PeerId;
use libtw2_net::Net;
use libtw2_net::Timestamp;
use serde_json::json;
use serde_json::Value;
use std::collections::BTreeMap;
use verif_harness::catch;
use verif_harness::hex_short;
use verif_harness::netsim::classify;
use verif_harness::netsim::payload;
use verif_harness::netsim::Cb;
use verif_harness::netsim::Conn;
use verif_harness::netsim::Event;
use verif_harness::netsim::Kind;
use verif_harness::netsim::BUDGET_PANIC;
use verif_harness::netsim::START_US;
use verif_harness::Ctx;
use verif_harness::Rng;
use verif_harness::Tier;
use verif_harness::Warnings;

const CONNECT_TOKEN: &[u8; 12] = b"\x10\x00\x00\x01TKEN\xff\xff\xff\xff";
const CONNECT_PLAIN: &[u8; 4] = b"\x10\x00\x00\x01";

/// Injected send failure (the socket refused the datagram).
#[derive(Debug)]
struct SendFail;

struct NetCb {
    /// fault injection: every `send` during the current call fails
    fail_sends: bool,
    failed_sends: u32,
    now_us: u64,
    sent: Vec<(u8, Vec<u8>)>,
    rng: Rng,
    randoms: Vec<Vec<u8>>,
    calls: u64,
}

impl net::Callback<u8> for NetCb {
    type Error = SendFail;
    fn secure_random(&mut self, buffer: &mut [u8]) {
        self.calls += 1;
        self.rng.fill(buffer);
        self.randoms.push(buffer.to_vec());
    }
    fn send(&mut self, addr: u8, data: &[u8]) -> Result<(), SendFail> {
        self.calls += 1;
        if self.fail_sends {
            self.failed_sends += 1;
            return Err(SendFail);
        }
        if self.calls > 100_000 {
            panic!("{}", BUDGET_PANIC);
        }
        self.sent.push((addr, data.to_vec()));
        Ok(())
    }
    fn time(&mut self) -> Timestamp {
        self.calls += 1;
        if self.calls > 100_000 {
            panic!("{}", BUDGET_PANIC);
        }
        Timestamp::from_usecs_since_epoch(self.now_us)
    }
}

#[derive(Clone, Debug, PartialEq, Eq)]
enum NEvent {
    Peer(u32, Event),
    ConnlessUnknown(u8, Vec<u8>),
    Connect(u32),
}

fn drain_net(it: net::ReceivePacket<u8>) -> Vec<NEvent> {
    it.map(|e| match e {
        ChunkOrEvent::Chunk(c) => NEvent::Peer(c.pid.0, Event::Chunk(c.data.to_vec(), c.vital)),
        ChunkOrEvent::Connless(c) => match c.pid {
            Some(pid) => NEvent::Peer(pid.0, Event::Connless(c.data.to_vec())),
            None => NEvent::ConnlessUnknown(c.addr, c.data.to_vec()),
        },
        ChunkOrEvent::Connect(pid) => NEvent::Connect(pid.0),
        ChunkOrEvent::Ready(pid) => NEvent::Peer(pid.0, Event::Ready),
        ChunkOrEvent::Disconnect(pid, r) => NEvent::Peer(pid.0, Event::Disconnect(r.to_vec())),
    })
    .collect()
}

struct Addr {
    remote: c6::Connection,
    remote_cb: Cb,
    reference: Option<c6::Connection>,
    ref_cb: Cb,
    pid: Option<u32>,
    /// incoming peer not yet accepted by the application
    pending: bool,
    to_net: Vec<Vec<u8>>,
    to_remote: Vec<Vec<u8>>,
    counter: u32,
    generation: u32,
}

struct World {
    net: Net<u8>,
    accepting: bool,
    cb: NetCb,
    addrs: Vec<Addr>,
    log: Vec<Value>,
    findings: Vec<(String, String, String, Value)>,
    ended: bool,
    pids_ever: Vec<u32>,
    stats: BTreeMap<&'static str, u64>,
    inject_send_failures: bool,
    fault_rng: Rng,
}

impl World {
    fn new(rng: &mut Rng, naddr: usize, accepting: bool) -> World {
        let seed = rng.u64();
        World {
            net: if accepting { Net::server() } else { Net::client() },
            accepting,
            cb: NetCb { fail_sends: false, failed_sends: 0, now_us: START_US, sent: Vec::new(), rng: Rng::new(seed), randoms: Vec::new(), calls: 0 },
            addrs: (0..naddr)
                .map(|i| Addr {
                    remote: c6::Connection::new(),
                    remote_cb: Cb::new(verif_harness::mix(seed, i as u64 + 1)),
                    reference: None,
                    ref_cb: Cb::new(0),
                    pid: None,
                    pending: false,
                    to_net: Vec::new(),
                    to_remote: Vec::new(),
                    counter: 0,
                    generation: 0,
                })
                .collect(),
            log: Vec::new(),
            findings: Vec::new(),
            ended: false,
            pids_ever: Vec::new(),
            stats: BTreeMap::new(),
            inject_send_failures: rng.chance(1, 2),
            fault_rng: Rng::new(verif_harness::mix(seed, 0xfa17)),
        }
    }
    fn stat(&mut self, k: &'static str) {
        *self.stats.entry(k).or_insert(0) += 1;
    }
    fn finding(&mut self, clause: &str, site: &str, class: &str, detail: Value) {
        if self.findings.len() < 16 {
            self.findings.push((clause.into(), site.into(), class.into(), detail));
        }
    }
    fn set_now(&mut self, t: u64) {
        self.cb.now_us = t;
        for a in &mut self.addrs {
            a.remote_cb.now_us = t;
            a.ref_cb.now_us = t;
        }
    }

    /// Distributes what Net sent during the last call; returns the datagrams
    /// addressed to `a` and reports datagrams addressed to anyone else.
    fn take_sent(&mut self, a: Option<usize>, site: &str) -> Vec<Vec<u8>> {
        let sent = std::mem::take(&mut self.cb.sent);
        let mut mine = Vec::new();
        for (addr, d) in sent {
            if (addr as usize) < self.addrs.len() {
                self.addrs[addr as usize].to_remote.push(d.clone());
            }
            if Some(addr as usize) == a {
                mine.push(d);
            } else if a.is_some() {
                self.finding("cross-talk", site, "datagram-to-other-address", json!({"call_for": a, "sent_to": addr, "datagram": hex_short(&d)}));
            }
        }
        mine
    }

    /// Compares the outcome of a Net call for address `a` with the reference's.
    #[allow(clippy::too_many_arguments)]
    fn compare(&mut self, a: usize, site: &str, net_out: Result<(Vec<Event>, Vec<Vec<u8>>), String>, ref_out: Result<(Vec<Event>, Vec<Vec<u8>>), String>) {
        match (net_out, ref_out) {
            (Ok((ne, ns)), Ok((re, rs))) => {
                if ne != re {
                    self.finding("divergence", site, "events", json!({"addr": a, "net": format!("{:?}", ne), "reference": format!("{:?}", re)}));
                } else if ns != rs {
                    self.finding("divergence", site, "datagrams", json!({"addr": a, "net": ns.iter().map(|d| hex_short(d)).collect::<Vec<_>>(), "reference": rs.iter().map(|d| hex_short(d)).collect::<Vec<_>>()}));
                }
            }
            (Err(pn), Err(_)) => {
                // both panic alike: the defect belongs to the connection layer (C04)
                self.stat("both_panicked");
                self.ended = true;
                let _ = pn;
            }
            (Err(pn), Ok(_)) => {
                self.ended = true;
                self.finding("divergence", site, &format!("net-panics-reference-does-not|msg={}", pn), json!({"addr": a}));
            }
            (Ok(_), Err(pr)) => {
                self.ended = true;
                self.finding("divergence", site, &format!("reference-panics-net-does-not|msg={}", pr), json!({"addr": a}));
            }
        }
    }

    fn ref_call<R, F: FnOnce(&mut c6::Connection, &mut Cb) -> R>(&mut self, a: usize, script: Vec<Vec<u8>>, f: F) -> Result<(R, Vec<Vec<u8>>), String> {
        let ad = &mut self.addrs[a];
        let conn = ad.reference.as_mut().expect("reference exists");
        ad.ref_cb.script = script.iter().filter(|r| r.len() == 4).map(|r| [r[0], r[1], r[2], r[3]]).collect();
        ad.ref_cb.calls = 0;
        ad.ref_cb.sent.clear();
        let cb = &mut ad.ref_cb;
        let r = catch(|| f(conn, cb));
        match r {
            Ok(v) => {
                let leftover = !ad.ref_cb.script.is_empty();
                let sent = std::mem::take(&mut ad.ref_cb.sent);
                if leftover {
                    ad.ref_cb.script.clear();
                    self.finding("divergence", "secure_random", "net-drew-more-random-than-reference", json!({"addr": a}));
                }
                Ok((v, sent))
            }
            Err(p) => Err(p.msg_sig),
        }
    }

    /// Net::feed of `data` from address `a`.
    fn feed(&mut self, a: usize, data: &[u8], what: &str) {
        self.log.push(json!({"feed": a, "what": what, "data": hex_short(data)}));
        let had_peer = self.addrs[a].pid;
        self.cb.calls = 0;
        self.cb.randoms.clear();
        let net = &mut self.net;
        let cb = &mut self.cb;
        let r = catch(|| {
            let mut buf = [0u8; 2048];
            let mut warn = Warnings::new();
            let (it, res) = net.feed(cb, &mut warn, a as u8, data, &mut buf[..]);
            match res {
                Ok(()) => {}
                Err(SendFail) => {}
            }
            drain_net(it)
        });
        let site = "Net::feed";
        let randoms = self.cb.randoms.clone();
        let sent = self.take_sent(Some(a), site);
        match had_peer {
            Some(pid) => {
                self.stat("feeds_known_peer");
                let net_out = r.map_err(|p| p.msg_sig).map(|evs| {
                    let mut out = Vec::new();
                    let mut bad = None;
                    for e in evs {
                        match e {
                            NEvent::Peer(p, ev) if p == pid => out.push(ev),
                            other => bad = Some(format!("{:?}", other)),
                        }
                    }
                    (out, bad)
                });
                let (net_out, bad) = match net_out {
                    Ok((o, bad)) => (Ok((o, sent)), bad),
                    Err(e) => (Err(e), None),
                };
                if let Some(b) = bad {
                    self.finding("divergence", site, "event-for-wrong-peer", json!({"addr": a, "pid": pid, "event": b}));
                }
                let d = data.to_vec();
                let ref_out = self.ref_call(a, randoms, |c, cb| Conn::feed(c, cb, &d).0);
                let disconnected = matches!(&net_out, Ok((evs, _)) if evs.iter().any(|e| matches!(e, Event::Disconnect(_))));
                self.compare(a, site, net_out, ref_out);
                if disconnected {
                    // remote close: the peer is gone
                    self.stat("remote_closes");
                    self.addrs[a].pid = None;
                    self.addrs[a].pending = false;
                    self.addrs[a].reference = None;
                }
            }
            None => {
                self.stat("feeds_unknown_addr");
                if !sent.is_empty() {
                    self.finding("divergence", site, "answer-to-unknown-address", json!({"addr": a, "n": sent.len()}));
                }
                match r {
                    Err(p) => {
                        self.ended = true;
                        self.finding("panic", &format!("{}|msg={}|in={}", site, p.msg_sig, p.file), "unknown-address", json!({"data": hex_short(data), "message": p.msg}));
                    }
                    Ok(evs) => {
                        let is_connect = classify(false, data) == Kind::Control(1);
                        let canonical = data == CONNECT_TOKEN || data == CONNECT_PLAIN;
                        let mut created = None;
                        for e in &evs {
                            match e {
                                NEvent::Connect(pid) => created = Some(*pid),
                                NEvent::ConnlessUnknown(addr, d) => {
                                    self.stat("connless_from_unknown");
                                    if *addr as usize != a || classify(false, data) != Kind::Connless || data.len() < 6 || d[..] != data[6..] {
                                        self.finding("divergence", site, "connless-from-unknown-differs", json!({"addr": a}));
                                    }
                                }
                                other => self.finding("divergence", site, "peer-event-for-unknown-address", json!({"addr": a, "event": format!("{:?}", other)})),
                            }
                        }
                        if let Some(pid) = created {
                            self.stat("pending_peers_created");
                            if !self.accepting || !is_connect {
                                self.finding("pending-peer", site, if !self.accepting { "created-on-non-accepting-endpoint" } else { "created-for-non-connect" }, json!({"addr": a, "data": hex_short(data)}));
                            }
                            if self.pids_ever.iter().any(|p| *p == pid) && self.addrs.iter().any(|x| x.pid == Some(pid)) {
                                self.finding("peer-ids", site, "id-of-live-peer-reused", json!({"pid": pid}));
                            }
                            self.pids_ever.push(pid);
                            let ad = &mut self.addrs[a];
                            ad.pid = Some(pid);
                            ad.pending = true;
                            ad.reference = Some(c6::Connection::new());
                            ad.ref_cb = Cb::new(1);
                            ad.ref_cb.now_us = self.cb.now_us;
                        } else if self.accepting && canonical {
                            self.finding("pending-peer", site, "connect-request-did-not-create-peer", json!({"addr": a}));
                        }
                    }
                }
            }
        }
    }

    /// An application call on Net for the peer of address `a`, mirrored on the reference.
    #[allow(clippy::too_many_arguments)]
    fn app<FN, FR>(&mut self, a: usize, site: &'static str, desc: Value, fnet: FN, fref: FR, removes_peer: bool)
    where
        FN: FnOnce(&mut Net<u8>, &mut NetCb, PeerId),
        FR: FnOnce(&mut c6::Connection, &mut Cb),
    {
        self.log.push(json!({"app": site, "addr": a, "args": desc}));
        let pid = PeerId(self.addrs[a].pid.expect("live peer"));
        self.cb.calls = 0;
        self.cb.randoms.clear();
        // fault injection: the socket refuses the close datagram of a disconnect/reject
        let inject = removes_peer && self.inject_send_failures && self.fault_rng.chance(1, 4);
        self.cb.fail_sends = inject;
        let net = &mut self.net;
        let cb = &mut self.cb;
        let r = catch(|| fnet(net, cb, pid));
        self.cb.fail_sends = false;
        let randoms = self.cb.randoms.clone();
        let sent = self.take_sent(Some(a), site);
        let net_out = r.map(|()| (Vec::new(), sent)).map_err(|p| p.msg_sig);
        let ref_out = self.ref_call(a, randoms, |c, cb| {
            fref(c, cb);
            Vec::new()
        });
        if inject {
            self.stat("send_failures_injected");
            // the datagram is lost with the failing socket; what must still hold is that the peer is gone
            match (&net_out, &ref_out) {
                (Ok((_, s)), Ok(_)) if s.is_empty() => {}
                (Ok(_), Ok(_)) => self.finding("divergence", site, "datagram-although-send-failed", json!({"addr": a})),
                _ => self.compare(a, site, net_out, ref_out),
            }
        } else {
            self.compare(a, site, net_out, ref_out);
        }
        if removes_peer && !self.ended {
            self.addrs[a].pid = None;
            self.addrs[a].pending = false;
            self.addrs[a].reference = None;
        }
    }

    fn tick(&mut self) {
        self.log.push(json!("tick"));
        self.cb.calls = 0;
        let net = &mut self.net;
        let cb = &mut self.cb;
        let r = catch(|| {
            for e in net.tick(cb) {
                let SendFail = e;
            }
        });
        let sent = std::mem::take(&mut self.cb.sent);
        let mut by_addr: BTreeMap<usize, Vec<Vec<u8>>> = BTreeMap::new();
        for (addr, d) in sent {
            if (addr as usize) < self.addrs.len() {
                self.addrs[addr as usize].to_remote.push(d.clone());
            }
            by_addr.entry(addr as usize).or_default().push(d);
        }
        if let Err(p) = &r {
            self.ended = true;
            // would every reference panic too? decided per address below
            let _ = p;
        }
        for a in 0..self.addrs.len() {
            if self.addrs[a].reference.is_none() {
                if by_addr.contains_key(&a) {
                    self.finding("cross-talk", "Net::tick", "datagram-to-address-without-peer", json!({"addr": a}));
                }
                continue;
            }
            let ref_out = self.ref_call(a, Vec::new(), |c, cb| {
                Conn::tick(c, cb);
                Vec::new()
            });
            let net_out = match &r {
                Ok(()) => Ok((Vec::new(), by_addr.remove(&a).unwrap_or_default())),
                Err(p) => Err(p.msg_sig.clone()),
            };
            if r.is_err() && ref_out.is_ok() {
                continue; // another peer's tick may have panicked; decided when that one is compared
            }
            self.compare(a, "Net::tick", net_out, ref_out);
        }
    }

    /// Quiescent-point invariants through the hooks.
    fn invariants(&mut self) {
        if self.ended {
            return;
        }
        let peers = self.net.verif_peers();
        // ids pairwise distinct, addresses pairwise distinct
        for i in 0..peers.len() {
            for j in 0..i {
                if peers[i].0 == peers[j].0 {
                    self.finding("peer-ids", "quiescent", "duplicate-id", json!({"pid": peers[i].0 .0}));
                }
                if peers[i].1 == peers[j].1 {
                    self.finding("peer-ids", "quiescent", "two-peers-for-one-address", json!({"addr": peers[i].1}));
                }
            }
        }
        let mut deadlines = Vec::new();
        for a in 0..self.addrs.len() {
            let live = peers.iter().find(|p| p.1 as usize == a);
            let refinfo = self.addrs[a].reference.as_ref().map(|r| (r.verif_fingerprint(), Conn::needs_tick(r)));
            match (live, refinfo) {
                (Some(p), Some((fp, deadline))) => {
                    if Some(p.0 .0) != self.addrs[a].pid {
                        self.finding("peer-ids", "quiescent", "peer-id-changed", json!({"addr": a}));
                    }
                    if fp != p.3 {
                        let (n, rr) = (p.3.clone(), fp);
                        let cut = n.bytes().zip(rr.bytes()).position(|(x, y)| x != y).unwrap_or(0);
                        let from = cut.saturating_sub(40);
                        self.finding("divergence", "quiescent", "peer-state-differs-from-reference", json!({"addr": a, "net": n[from..(cut + 80).min(n.len())].to_string(), "reference": rr[from..(cut + 80).min(rr.len())].to_string()}));
                    }
                    deadlines.push(deadline);
                }
                (Some(_), None) => self.finding("peer-gone", "quiescent", "peer-exists-after-it-should-be-gone", json!({"addr": a})),
                (None, Some(_)) => self.finding("peer-gone", "quiescent", "peer-missing", json!({"addr": a})),
                (None, None) => {}
            }
        }
        let want = deadlines.iter().flatten().min().copied();
        let got = verif_harness::netsim::timeout_us(self.net.needs_tick());
        if want != got {
            self.finding("divergence", "Net::needs_tick", "not-the-minimum-of-the-peers", json!({"net": got, "references_min": want}));
        }
    }
}

fn remote_step(w: &mut World, a: usize, rng: &mut Rng) {
    let ad = &mut w.addrs[a];
    let st = ad.remote.verif_state_name();
    ad.remote_cb.calls = 0;
    let what;
    let r = {
        let remote = &mut ad.remote;
        let cb = &mut ad.remote_cb;
        let counter = ad.counter;
        match (st, rng.below(10)) {
            ("Disconnected", _) => {
                what = "reset";
                *remote = c6::Connection::new();
                ad.generation += 1;
                Ok(())
            }
            ("Unconnected", 0..=5) => {
                what = "connect";
                catch(|| Conn::connect(remote, cb))
            }
            ("Online", 0..=4) => {
                what = "send";
                let len = *rng.pick(&[0usize, 1, 6, 20, 100, 400, 1000]);
                let vital = rng.chance(2, 3);
                let d = payload(a, vital, counter, len, rng.u8());
                catch(|| {
                    let _ = Conn::send(remote, cb, &d, vital);
                })
            }
            ("Online", 5..=6) => {
                what = "flush";
                catch(|| Conn::flush(remote, cb))
            }
            ("Online", 7) if rng.chance(1, 6) => {
                what = "disconnect";
                catch(|| Conn::disconnect(remote, cb, b"remote quits"))
            }
            ("Online", 8) => {
                what = "connless";
                let d = rng.bytes(10);
                catch(|| {
                    let _ = Conn::send_connless(remote, cb, &d);
                })
            }
            _ => {
                what = "tick";
                catch(|| Conn::tick(remote, cb))
            }
        }
    };
    ad.counter += 1;
    let sent = std::mem::take(&mut ad.remote_cb.sent);
    ad.to_net.extend(sent);
    w.log.push(json!({"remote": a, "does": what}));
    if r.is_err() {
        // a panic of the traffic generator belongs to C04; replace it
        w.addrs[a].remote = c6::Connection::new();
        w.stat("remote_generator_panics");
    }
}

fn garbage(rng: &mut Rng, w: &World, a: usize) -> (Vec<u8>, &'static str) {
    match rng.below(7) {
        0 => (CONNECT_TOKEN.to_vec(), "connect-token"),
        1 => (CONNECT_PLAIN.to_vec(), "connect-plain"),
        2 => {
            let l = rng.range(0, 40) as usize;
            (rng.bytes(l), "random")
        }
        3 => {
            // connless
            let mut d = vec![0xff; 6];
            let l = rng.range(0, 30) as usize;
            d.extend(rng.bytes(l));
            (d, "connless")
        }
        4 => {
            // a control packet of some kind without token
            let c = rng.below(6) as u8;
            (vec![0x10, 0, 0, c], "control")
        }
        5 => {
            // close with reason
            let mut d = vec![0x10, 0, 0, 4];
            d.extend(b"bye\0");
            (d, "close")
        }
        _ => {
            // another address's real datagram (cross-talk)
            let others: Vec<usize> = (0..w.addrs.len()).filter(|b| *b != a && !w.addrs[*b].to_net.is_empty()).collect();
            if others.is_empty() {
                (CONNECT_TOKEN.to_vec(), "connect-token")
            } else {
                let b = *rng.pick(&others);
                let i = rng.usize_below(w.addrs[b].to_net.len());
                (w.addrs[b].to_net[i].clone(), "replayed-from-other-address")
            }
        }
    }
}

fn one_history(ctx: &mut Ctx, rng: &mut Rng, moves: usize) {
    let naddr = rng.range(2, 6) as usize;
    let accepting = rng.chance(3, 4);
    let mut w = World::new(rng, naddr, accepting);
    let loss = *rng.pick(&[0u64, 0, 5, 20, 40]);
    let p_garbage = *rng.pick(&[0u64, 2, 10]);
    for _ in 0..moves {
        if w.ended {
            break;
        }
        let a = rng.usize_below(naddr);
        let has_peer = w.addrs[a].pid.is_some();
        let pending = w.addrs[a].pending;
        let state = w.addrs[a].pid.and_then(|p| w.net.verif_peer_state(PeerId(p)));
        match rng.below(100) {
            0..=24 => remote_step(&mut w, a, rng),
            25..=49 => {
                // deliver / drop / duplicate towards Net
                if !w.addrs[a].to_net.is_empty() {
                    let idx = rng.usize_below(w.addrs[a].to_net.len().min(4));
                    if rng.below(100) < loss {
                        w.addrs[a].to_net.remove(idx);
                        w.stat("dropped");
                    } else if rng.chance(1, 10) {
                        let d = w.addrs[a].to_net[idx].clone();
                        w.stat("duplicated");
                        w.feed(a, &d, "duplicate");
                    } else {
                        let d = w.addrs[a].to_net.remove(idx);
                        w.feed(a, &d, "real");
                    }
                }
            }
            50..=64 => {
                // towards the remote
                if !w.addrs[a].to_remote.is_empty() {
                    let idx = rng.usize_below(w.addrs[a].to_remote.len().min(4));
                    let d = w.addrs[a].to_remote.remove(idx);
                    if rng.below(100) >= loss {
                        let ad = &mut w.addrs[a];
                        ad.remote_cb.calls = 0;
                        let (remote, cb) = (&mut ad.remote, &mut ad.remote_cb);
                        let _ = catch(|| Conn::feed(remote, cb, &d));
                        let sent = std::mem::take(&mut ad.remote_cb.sent);
                        ad.to_net.extend(sent);
                    }
                }
            }
            65..=69 => {
                if rng.below(10) < p_garbage {
                    let (d, what) = garbage(rng, &w, a);
                    w.stat("garbage_fed");
                    w.feed(a, &d, what);
                }
            }
            70..=89 => {
                // application calls
                if !has_peer {
                    if rng.chance(1, 3) {
                        // outgoing connection
                        w.log.push(json!({"app": "Net::connect", "addr": a}));
                        w.cb.calls = 0;
                        w.cb.randoms.clear();
                        let (net, cb) = (&mut w.net, &mut w.cb);
                        let r = catch(|| {
                            let (pid, res) = net.connect(cb, a as u8);
                            match res {
                                Ok(()) => {}
                                Err(SendFail) => {}
                            }
                            pid
                        });
                        let sent = w.take_sent(Some(a), "Net::connect");
                        match r {
                            Ok(pid) => {
                                if w.addrs.iter().any(|x| x.pid == Some(pid.0)) {
                                    w.finding("peer-ids", "Net::connect", "id-of-live-peer-reused", json!({"pid": pid.0}));
                                }
                                w.pids_ever.push(pid.0);
                                w.stat("outgoing_connects");
                                let now = w.cb.now_us;
                                let ad = &mut w.addrs[a];
                                ad.pid = Some(pid.0);
                                ad.pending = false;
                                ad.reference = Some(c6::Connection::new());
                                ad.ref_cb = Cb::new(1);
                                ad.ref_cb.now_us = now;
                                let ref_out = w.ref_call(a, Vec::new(), |c, cb| {
                                    Conn::connect(c, cb);
                                    Vec::new()
                                });
                                w.compare(a, "Net::connect", Ok((Vec::new(), sent)), ref_out);
                            }
                            Err(p) => {
                                w.ended = true;
                                w.finding("panic", &format!("Net::connect|msg={}|in={}", p.msg_sig, p.file), "", json!({"message": p.msg}));
                            }
                        }
                    }
                } else if pending {
                    match rng.below(10) {
                        0..=6 => {
                            let token = w.net.verif_peers().iter().find(|p| p.1 as usize == a).map(|p| p.2).unwrap_or(false);
                            w.stat("accepts");
                            w.app(a, "Net::accept", json!({"token": token}), |n, cb, pid| { let _ = n.accept(cb, pid); }, move |c, cb| {
                                let pkt: &[u8] = if token { CONNECT_TOKEN } else { CONNECT_PLAIN };
                                let _ = Conn::feed(c, cb, pkt);
                            }, false);
                            w.addrs[a].pending = false;
                        }
                        7..=8 => {
                            w.stat("rejects");
                            w.app(a, "Net::reject", json!({}), |n, cb, pid| { let _ = n.reject(cb, pid, b"no thanks"); }, |c, cb| Conn::disconnect(c, cb, b"no thanks"), true);
                        }
                        _ => {
                            w.stat("ignores");
                            w.log.push(json!({"app": "Net::ignore", "addr": a}));
                            let pid = PeerId(w.addrs[a].pid.unwrap());
                            let net = &mut w.net;
                            let r = catch(|| net.ignore(pid));
                            if let Err(p) = r {
                                w.ended = true;
                                w.finding("panic", &format!("Net::ignore|msg={}", p.msg_sig), "", json!({}));
                            }
                            let sent = w.take_sent(Some(a), "Net::ignore");
                            if !sent.is_empty() {
                                w.finding("divergence", "Net::ignore", "ignore-sends", json!({}));
                            }
                            w.addrs[a].pid = None;
                            w.addrs[a].pending = false;
                            w.addrs[a].reference = None;
                        }
                    }
                } else {
                    match (state, rng.below(10)) {
                        (Some("Online"), 0..=5) => {
                            let len = *rng.pick(&[0usize, 1, 6, 50, 300, 1000, 1023]);
                            let vital = rng.chance(2, 3);
                            let d = payload(9, vital, w.addrs[a].counter, len, rng.u8());
                            w.addrs[a].counter += 1;
                            let d2 = d.clone();
                            w.stat("net_sends");
                            w.app(a, "Net::send", json!({"len": len, "vital": vital}), move |n, cb, pid| { let _ = n.send(cb, net::Chunk { pid, vital, data: &d }); }, move |c, cb| { let _ = Conn::send(c, cb, &d2, vital); }, false);
                        }
                        (Some("Online"), 6..=7) => {
                            w.app(a, "Net::flush", json!({}), |n, cb, pid| { let _ = n.flush(cb, pid); }, |c, cb| Conn::flush(c, cb), false);
                        }
                        (Some(s), 8) if s != "Unconnected" && s != "Disconnected" && rng.chance(1, 4) => {
                            w.stat("net_disconnects");
                            w.app(a, "Net::disconnect", json!({"state": s}), |n, cb, pid| { let _ = n.disconnect(cb, pid, b"server quits"); }, |c, cb| Conn::disconnect(c, cb, b"server quits"), true);
                        }
                        (_, 9) if rng.chance(1, 10) => {
                            w.stat("ignores");
                            let pid = PeerId(w.addrs[a].pid.unwrap());
                            w.log.push(json!({"app": "Net::ignore", "addr": a}));
                            let net = &mut w.net;
                            let _ = catch(|| net.ignore(pid));
                            w.addrs[a].pid = None;
                            w.addrs[a].reference = None;
                        }
                        _ => {}
                    }
                }
            }
            90..=94 => {
                w.stat("net_ticks");
                w.tick();
            }
            _ => {
                let dt = *rng.pick(&[0u64, 1_000, 100_000, 500_000, 1_000_000]);
                w.log.push(json!({"advance_us": dt}));
                let t = w.cb.now_us + dt;
                w.set_now(t);
            }
        }
        w.invariants();
    }
    // fold
    ctx.count("histories", 1);
    ctx.count(if accepting { "histories_accepting" } else { "histories_non_accepting" }, 1);
    ctx.count("moves", w.log.len() as u64);
    for (k, v) in &w.stats {
        ctx.count(k, *v);
    }
    ctx.max("max_peer_id", w.pids_ever.iter().copied().max().unwrap_or(0) as u64);
    let case_data = json!({"addresses": naddr, "accepting": accepting, "loss": loss, "log_tail": w.log[w.log.len().saturating_sub(120)..].to_vec(), "log_len": w.log.len()});
    for (clause, site, class, detail) in &w.findings {
        ctx.violation(clause, site, class, detail.clone(), case_data.clone());
    }
    let known_feeds = w.stats.get("feeds_known_peer").copied().unwrap_or(0);
    let nontrivial = known_feeds >= 5 && w.pids_ever.len() >= 2;
    let h = verif_harness::fnv1a(format!("{:?}|{:?}", w.pids_ever, w.stats).as_bytes());
    ctx.case(if nontrivial { Some(h) } else { None });
    if ctx.want_sample() && nontrivial {
        ctx.sample(json!({"addresses": naddr, "accepting": accepting, "loss": loss, "stats": w.stats, "first_moves": w.log[..w.log.len().min(25)].to_vec()}));
    }
}

fn main() {
    let mut ctx = Ctx::from_args("C20");
    ctx.rule = "each case = one history of a real Net<u8> (accepting 3 in 4, non-accepting 1 in 4) serving 2-6 addresses; traffic from one real remote Connection per address over lossy/duplicating/reordering wires plus garbage, connless and cross-talk datagrams; application calls connect/accept/reject/ignore/send/flush/disconnect, ticks, clock advances; every call is mirrored on a per-address reference Connection and events, datagrams, secure_random consumption, full state fingerprint and needs_tick are compared; non-trivial = at least 2 peers created and 5 datagrams fed to known peers; distinct = hash of peer ids handed out and move statistics".into();
    ctx.assumptions = vec![
        "projection: the reference for an address is created when Net creates the peer; it is fed every later datagram from that address, the canned connect packet at accept, disconnect at reject/disconnect".into(),
        "application calls are only issued where the API permits them (live peer id; send/flush need an online peer; accept/reject for not-yet-accepted peers; disconnect for accepted ones)".into(),
        "a panic on both sides of a projected call counts as 'behaves alike' (the defect then belongs to the connection layer, C04)".into(),
    ];
    ctx.arm("c20", 1800.0);
    let n = ctx.volume(200, 5_000, 4, 10);
    ctx.run_cases("net", n, |ctx, _idx, rng| {
        let moves = match ctx.tier {
            Tier::Miri => 60,
            _ => *rng.pick(&[50usize, 200, 600, 1500]),
        };
        one_history(ctx, rng, moves);
    });
    ctx.disarm();
    ctx.finish();
}
