//! C18 — server-info parsing is total; merging parts is order-free and idempotent.
//!
//! Two phases (DESIGN.md §5/C18):
//!
//! * `parse`: for each of the thirteen response kinds a well-formed datagram is
//!   produced by an independent builder (header bytes and NUL-terminated
//!   decimal / string fields written from doc/serverinfo_extended.md and the
//!   field orders of the legacy formats, varints from the harness's own codec
//!   for 0.7), then every numeric field is swept over its boundaries, strings
//!   are made hostile, the datagram is truncated at every position and PRNG
//!   bytes are appended to every known header. Oracle: value or `None`, never a
//!   panic, returned slices stay inside the datagram, bounded CPU.
//! * `merge`: a complete server (N clients with unique names) is split into the
//!   parts a server would send (64-player legacy: 24 per packet with offsets;
//!   extended: main + "more" packets) and the parts are merged in every
//!   permutation x duplication pattern (few parts) or in PRNG schedules (many
//!   parts). Oracle: a model that only knows which distinct parts have arrived.

use libtw2_serverbrowse::protocol as sb;
use sb::PartialServerInfo;
use sb::Response;
use sb::ServerInfo;
use sb::ServerInfoVersion;
use serde_json::json;
use serde_json::Value;
use verif_harness::catch;
use verif_harness::fnv1a;
use verif_harness::hex;
use verif_harness::hex_short;
use verif_harness::refmodel::varint;
use verif_harness::Ctx;
use verif_harness::Rng;
use verif_harness::Tier;

// ------------------------------------------------------------------ kinds

#[derive(Clone, Copy, PartialEq, Eq, Debug)]
enum Kind {
    List5,
    List6,
    List7,
    Count,
    Count7,
    Info5,
    Info6,
    Info6Ddper,
    Info664,
    Info6Ex,
    Info6ExMore,
    Info7,
    Token7,
}

const KINDS: [Kind; 13] = [
    Kind::List5,
    Kind::List6,
    Kind::List7,
    Kind::Count,
    Kind::Count7,
    Kind::Info5,
    Kind::Info6,
    Kind::Info6Ddper,
    Kind::Info664,
    Kind::Info6Ex,
    Kind::Info6ExMore,
    Kind::Info7,
    Kind::Token7,
];

impl Kind {
    fn idx(self) -> usize {
        KINDS.iter().position(|&k| k == self).unwrap()
    }
    fn name(self) -> &'static str {
        match self {
            Kind::List5 => "List5",
            Kind::List6 => "List6",
            Kind::List7 => "List7",
            Kind::Count => "Count",
            Kind::Count7 => "Count7",
            Kind::Info5 => "Info5",
            Kind::Info6 => "Info6",
            Kind::Info6Ddper => "Info6Ddper",
            Kind::Info664 => "Info664",
            Kind::Info6Ex => "Info6Ex",
            Kind::Info6ExMore => "Info6ExMore",
            Kind::Info7 => "Info7",
            Kind::Token7 => "Token7",
        }
    }
    fn is_info(self) -> bool {
        matches!(
            self,
            Kind::Info5 | Kind::Info6 | Kind::Info6Ddper | Kind::Info664 | Kind::Info6Ex | Kind::Info6ExMore | Kind::Info7
        )
    }
    /// Maximum number of clients of the format (none for the extended info; 64 is
    /// used as the interesting boundary there because of the 64-bit mask).
    fn max_clients(self) -> i64 {
        match self {
            Kind::Info5 | Kind::Info6 | Kind::Info6Ddper => 16,
            _ => 64,
        }
    }
    fn header_len(self) -> usize {
        match self {
            Kind::Token7 => 8,
            Kind::List7 | Kind::Count7 | Kind::Info7 => 17,
            _ => 14,
        }
    }
}

/// Header bytes, written out here (not taken from the crate's constants).
/// `vary`: fill the bytes the receiver must ignore with PRNG bytes.
fn header(kind: Kind, vary: Option<&mut Rng>) -> Vec<u8> {
    let legacy = |ty: &[u8; 4]| {
        let mut h = vec![0xffu8; 10];
        h.extend_from_slice(ty);
        h
    };
    let seven = |ty: &[u8; 4]| {
        let mut h = vec![0x21u8];
        h.extend_from_slice(&[0xff; 12]);
        h.extend_from_slice(ty);
        h
    };
    let mut h = match kind {
        Kind::List5 => legacy(b"list"),
        Kind::List6 => legacy(b"lis2"),
        Kind::Count => legacy(b"siz2"),
        Kind::Info5 => legacy(b"inf2"),
        Kind::Info6 => legacy(b"inf3"),
        Kind::Info664 => legacy(b"dtsf"),
        Kind::Info6Ex => legacy(b"iext"),
        Kind::Info6ExMore => legacy(b"iex+"),
        Kind::Info6Ddper => {
            let mut h = b"dp\0\0\0\0".to_vec();
            h.extend_from_slice(&[0xff; 4]);
            h.extend_from_slice(b"inf3");
            h
        }
        Kind::List7 => seven(b"lis2"),
        Kind::Count7 => seven(b"siz2"),
        Kind::Info7 => seven(b"inf3"),
        Kind::Token7 => vec![0x04, 0, 0, 0xff, 0xff, 0xff, 0xff, 0x05],
    };
    if let Some(rng) = vary {
        match kind {
            Kind::Token7 => rng.fill(&mut h[3..7]),
            Kind::List7 | Kind::Count7 | Kind::Info7 => rng.fill(&mut h[1..9]),
            Kind::Info6Ddper => rng.fill(&mut h[2..6]),
            _ => {
                // connless packet header: flag bit 6 of byte 0 must be set.
                rng.fill(&mut h[..6]);
                h[0] |= 0x40;
                if &h[..2] == b"dp" {
                    h[1] = b'q';
                }
            }
        }
    }
    h
}

// ------------------------------------------------------------------ server model

#[derive(Clone, Debug)]
struct Client {
    name: String,
    clan: String,
    country: i32,
    score: i32,
    /// 0.6: is_player (0/1); 0.7: flags.
    last: i32,
}

#[derive(Clone, Debug)]
struct Server {
    token: i32,
    version: String,
    name: String,
    hostname: String,
    map: String,
    map_crc: i32,
    map_size: i32,
    game_type: String,
    flags: i32,
    progression: i32,
    skill: i32,
    num_players: i32,
    max_players: i32,
    num_clients: i32,
    max_clients: i32,
    clients: Vec<Client>,
}

const ALPHA: &[&str] = &[
    "a", "b", "c", "x", "y", "z", "A", "Z", "0", "7", "9", " ", "-", "_", ".", "[", "]", "\u{e9}", "\u{df}", "\u{65e5}", "\u{1f600}",
];

/// A string of at most `max` bytes (valid UTF-8, no NUL) starting with `prefix`.
fn gen_str(rng: &mut Rng, prefix: &str, max: usize) -> String {
    let mut s = String::from(prefix);
    assert!(s.len() <= max);
    let want = match rng.below(4) {
        0 => max,
        1 => s.len(),
        _ => rng.range(s.len() as i64, max as i64) as usize,
    };
    for _ in 0..40 {
        if s.len() >= want {
            break;
        }
        let c = *rng.pick(ALPHA);
        if s.len() + c.len() <= want {
            s.push_str(c);
        }
    }
    s
}

fn gen_clients(rng: &mut Rng, n: usize, seven: bool) -> Vec<Client> {
    // In a quarter of the servers several clients share a name (real servers are
    // full of "nameless tee"s); they still differ in clan / country / score.
    let shared_names = rng.chance(1, 4);
    let shared: Vec<String> = (0..3).map(|k| gen_str(rng, &format!("same{}~", k), 15)).collect();
    (0..n)
        .map(|i| Client {
            // otherwise unique by construction: decimal index and a separator that no suffix starts with
            name: if shared_names && rng.chance(1, 2) { rng.pick(&shared).clone() } else { gen_str(rng, &format!("{}~", i), 15) },
            clan: gen_str(rng, "", 11),
            country: match rng.below(3) {
                0 => -1,
                1 => rng.range(0, 900) as i32,
                _ => rng.edgy_i32(),
            },
            score: rng.edgy_i32(),
            last: if seven { rng.range(0, 3) as i32 } else { rng.range(0, 1) as i32 },
        })
        .collect()
}

fn gen_server(rng: &mut Rng, n: usize, max_limit: Option<i32>, seven: bool) -> Server {
    let clients = gen_clients(rng, n, seven);
    let n = n as i32;
    let max_clients = match max_limit {
        Some(m) => {
            assert!(n <= m);
            if rng.bool() {
                m
            } else {
                rng.range(n as i64, m as i64) as i32
            }
        }
        None => n + rng.range(0, 40) as i32,
    };
    let num_players = if seven {
        rng.range(0, n as i64) as i32
    } else {
        clients.iter().filter(|c| c.last != 0).count() as i32
    };
    let max_players = rng.range(num_players as i64, max_clients as i64) as i32;
    Server {
        token: match rng.below(4) {
            0 => rng.range(0, 0xff_ffff) as i32,
            1 => -1,
            2 => rng.range(0, 255) as i32,
            _ => rng.i32(),
        },
        version: gen_str(rng, "0.6.4, ", 31),
        name: gen_str(rng, "srv ", 63),
        hostname: gen_str(rng, "host", 63),
        map: gen_str(rng, "m", 31),
        map_crc: rng.i32(),
        map_size: rng.range(0, i32::MAX as i64) as i32,
        game_type: gen_str(rng, "DM", 31),
        flags: rng.range(0, 3) as i32,
        progression: rng.range(-1, 100) as i32,
        skill: rng.range(0, 2) as i32,
        num_players,
        max_players,
        num_clients: n,
        max_clients,
        clients,
    }
}

// ------------------------------------------------------------------ datagram builder

#[derive(Clone, Debug)]
enum Val {
    Int(i64),
    /// Bytes put where an integer belongs (text: followed by NUL; varint: as is).
    Raw(Vec<u8>),
    Str(Vec<u8>),
}

#[derive(Clone, Debug)]
struct Field {
    name: &'static str,
    val: Val,
}

fn fi(name: &'static str, v: i32) -> Field {
    Field { name, val: Val::Int(v as i64) }
}
fn fs(name: &'static str, s: &str) -> Field {
    Field { name, val: Val::Str(s.as_bytes().to_vec()) }
}

fn client_fields(kind: Kind, c: &Client, out: &mut Vec<Field>) {
    out.push(fs("client_name", &c.name));
    if kind == Kind::Info5 {
        out.push(fi("client_score", c.score));
        return;
    }
    out.push(fs("client_clan", &c.clan));
    out.push(fi("client_country", c.country));
    out.push(fi("client_score", c.score));
    out.push(fi(if kind == Kind::Info7 { "client_flags" } else { "client_is_player" }, c.last));
    if matches!(kind, Kind::Info6Ex | Kind::Info6ExMore) {
        out.push(fs("client_reserved", ""));
    }
}

/// Field list of one info datagram carrying `clients`.
fn info_fields(kind: Kind, s: &Server, clients: &[Client], offset: i32, packet_no: i32) -> Vec<Field> {
    let mut f = vec![fi("token", s.token)];
    if kind == Kind::Info6ExMore {
        f.push(fi("packet_no", packet_no));
        f.push(fs("reserved", ""));
    } else {
        f.push(fs("version", &s.version));
        f.push(fs("name", &s.name));
        if kind == Kind::Info7 {
            f.push(fs("hostname", &s.hostname));
        }
        f.push(fs("map", &s.map));
        if kind == Kind::Info6Ex {
            f.push(fi("map_crc", s.map_crc));
            f.push(fi("map_size", s.map_size));
        }
        f.push(fs("game_type", &s.game_type));
        f.push(fi("flags", s.flags));
        if kind == Kind::Info5 {
            f.push(fi("progression", s.progression));
        }
        if kind == Kind::Info7 {
            f.push(fi("skill_level", s.skill));
        }
        if kind == Kind::Info5 {
            // 0.5 knows only players
            f.push(fi("num_players", s.num_clients));
            f.push(fi("max_players", s.max_clients));
        } else {
            f.push(fi("num_players", s.num_players));
            f.push(fi("max_players", s.max_players));
            f.push(fi("num_clients", s.num_clients));
            f.push(fi("max_clients", s.max_clients));
        }
        if kind == Kind::Info664 {
            f.push(fi("offset", offset));
        }
        if kind == Kind::Info6Ex {
            f.push(fs("reserved", ""));
        }
    }
    for c in clients {
        client_fields(kind, c, &mut f);
    }
    f
}

fn serialize(kind: Kind, hdr: &[u8], fields: &[Field]) -> Vec<u8> {
    let mut out = hdr.to_vec();
    let varints = kind == Kind::Info7;
    for f in fields {
        match &f.val {
            Val::Int(v) => {
                if varints {
                    out.extend(varint::encode(*v as i32));
                } else {
                    out.extend_from_slice(v.to_string().as_bytes());
                    out.push(0);
                }
            }
            Val::Raw(b) => {
                out.extend_from_slice(b);
                if !varints {
                    out.push(0);
                }
            }
            Val::Str(s) => {
                out.extend_from_slice(s);
                out.push(0);
            }
        }
    }
    out
}

fn is_int(f: &Field) -> bool {
    !matches!(f.val, Val::Str(_))
}

fn sweep_values(max: i64) -> Vec<i64> {
    let mut v = vec![
        i32::MIN as i64,
        -1,
        0,
        1,
        max - 1,
        max,
        max + 1,
        63,
        64,
        65,
        i32::MAX as i64,
        15,
        16,
        17,
        23,
        24,
        25,
        i32::MIN as i64 + 1,
        i32::MAX as i64 - 1,
    ];
    v.sort_unstable();
    v.dedup();
    v
}

const RAW_TEXT_INTS: &[&[u8]] = &[
    b"",
    b"abc",
    b"1x",
    b"+5",
    b"-",
    b"--1",
    b" 1",
    b"1 ",
    b"2147483648",
    b"-2147483649",
    b"99999999999999999999",
    b"0x10",
    b"-0",
    b"007",
    b"1.0",
    b"\xff\xfe",
    b"\xe6\x97",
];

const RAW_VARINTS: &[&[u8]] = &[
    b"",
    b"\x80",
    b"\x80\x80\x80\x80\x0f",
    b"\xff\xff\xff\xff\xff",
    b"\xff\xff\xff\xff\x7f",
    b"\xc0\x00",
    b"\x80\x80\x80\x80\x80\x80",
    b"\x40",
];

const HOSTILE_STRS: &[&[u8]] = &[
    b"",
    b"\xff",
    b"\xc3",
    b"\xe6\x97",
    b"\xed\xa0\x80",
    b"aaaaaaaaaaaaaa\xc3\xa9",
    b"aaaaaaaaaa\xe6\x97\xa5",
    b"aaaaaaaaaaaaa\xf0\x9f\x98\x80",
    b"aaaaaaaaaaaaaaa",
    b"aaaaaaaaaaaaaaaa",
    b"\x01\x02\x1f\x7f",
    b"1",
    b"-1",
];

// ------------------------------------------------------------------ running the parser

enum InfoRes {
    NotInfo,
    Rejected,
    #[allow(dead_code)]
    Full(ServerInfo),
    Partial(PartialServerInfo),
}

struct Outcome {
    kind: Option<Kind>,
    info: InfoRes,
    /// The slices handed out lie inside the datagram and have the length the format implies.
    provenance_ok: bool,
    entries: usize,
}

#[derive(Default)]
struct Stats {
    by_kind: [u64; 13],
    parses: u64,
    resp_none: u64,
    info_some: u64,
    info_none: u64,
    list_entries: u64,
    panics: u64,
}

impl Stats {
    fn flush(&self, ctx: &mut Ctx) {
        for (i, &n) in self.by_kind.iter().enumerate() {
            if n > 0 {
                ctx.count(&format!("parse_kind.{}", KINDS[i].name()), n);
                ctx.seen("kinds", KINDS[i].name());
            }
        }
        ctx.count("parse_calls", self.parses);
        ctx.count("parse_response_none", self.resp_none);
        ctx.count("info_parse_some", self.info_some);
        ctx.count("info_parse_none", self.info_none);
        ctx.count("list_entries_unpacked", self.list_entries);
        ctx.count("parse_panics", self.panics);
    }
}

/// Everything a receiver does with one datagram. Panics propagate to `catch`.
fn exercise(data: &[u8]) -> Outcome {
    let base = data.as_ptr() as usize;
    let end = base + data.len();
    let inside = |p: usize, n: usize| n == 0 || (p >= base && p + n <= end);
    let tail = |s: &[u8], hdr: usize| s.len() == data.len() - hdr && (s.is_empty() || s.as_ptr() as usize == base + hdr);
    let mut o = Outcome { kind: None, info: InfoRes::NotInfo, provenance_ok: true, entries: 0 };
    let resp = match sb::parse_response(data) {
        None => return o,
        Some(r) => r,
    };
    let mut sink = 0u32;
    let info_full = |r: Option<ServerInfo>| match r {
        Some(i) => InfoRes::Full(i),
        None => InfoRes::Rejected,
    };
    let info_partial = |r: Option<PartialServerInfo>| match r {
        Some(i) => InfoRes::Partial(i),
        None => InfoRes::Rejected,
    };
    match resp {
        Response::List5(l) => {
            o.kind = Some(Kind::List5);
            let s = l.0;
            o.entries = s.len();
            o.provenance_ok = inside(s.as_ptr() as usize, s.len() * 6) && s.len() == (data.len() - 14) / 6;
            for a in s {
                sink = sink.wrapping_add(a.unpack().port as u32);
            }
        }
        Response::List6(l) => {
            o.kind = Some(Kind::List6);
            let s = l.0;
            o.entries = s.len();
            o.provenance_ok = inside(s.as_ptr() as usize, s.len() * 18) && s.len() == (data.len() - 14) / 18;
            for a in s {
                sink = sink.wrapping_add(a.unpack().port as u32);
            }
        }
        Response::List7(l) => {
            o.kind = Some(Kind::List7);
            let s = l.2;
            o.entries = s.len();
            o.provenance_ok = inside(s.as_ptr() as usize, s.len() * 18) && s.len() == (data.len() - 17) / 18;
            for a in s {
                sink = sink.wrapping_add(a.unpack().port as u32);
            }
        }
        Response::Count(c) => {
            o.kind = Some(Kind::Count);
            sink = sink.wrapping_add(c.0 as u32);
        }
        Response::Count7(c) => {
            o.kind = Some(Kind::Count7);
            sink = sink.wrapping_add(c.2 as u32);
        }
        Response::Token7(t) => {
            o.kind = Some(Kind::Token7);
            sink = sink.wrapping_add((t.0).0[0] as u32 + (t.1).0[3] as u32);
        }
        Response::Info5(r) => {
            o.kind = Some(Kind::Info5);
            o.provenance_ok = tail(r.0, 14);
            o.info = info_full(r.parse());
        }
        Response::Info6(r) => {
            o.kind = Some(Kind::Info6);
            o.provenance_ok = tail(r.0, 14);
            o.info = info_full(r.parse());
        }
        Response::Info6Ddper(r) => {
            o.kind = Some(Kind::Info6Ddper);
            o.provenance_ok = tail(r.0, 14);
            o.info = info_full(r.parse());
        }
        Response::Info664(r) => {
            o.kind = Some(Kind::Info664);
            o.provenance_ok = tail(r.0, 14);
            o.info = info_partial(r.parse());
        }
        Response::Info6Ex(r) => {
            o.kind = Some(Kind::Info6Ex);
            o.provenance_ok = tail(r.0, 14);
            o.info = info_partial(r.parse());
        }
        Response::Info6ExMore(r) => {
            o.kind = Some(Kind::Info6ExMore);
            o.provenance_ok = tail(r.0, 14);
            o.info = info_partial(r.parse());
        }
        Response::Info7(r) => {
            o.kind = Some(Kind::Info7);
            o.provenance_ok = tail(r.2, 17);
            o.info = info_full(r.parse());
        }
    }
    std::hint::black_box(sink);
    o
}

/// `ctx.violation` with lazily built JSON: a signature that is already recorded
/// only has its count increased (the unfixed tree fails in a large share of the
/// merge schedules; hex-dumping all parts each time would dominate the run).
fn report(ctx: &mut Ctx, clause: &str, site: &str, class: &str, detail: &dyn Fn() -> Value, case_data: &dyn Fn() -> Value) {
    let sig = format!("{}|{}|{}|{}", ctx.property, clause, site, class);
    if let Some(v) = ctx.violations.get_mut(&sig) {
        v.count += 1;
        return;
    }
    ctx.violation(clause, site, class, detail(), case_data());
}

fn report_panic(ctx: &mut Ctx, site: &str, class: &str, p: &verif_harness::Panicked, case_data: &dyn Fn() -> Value) {
    // same signature layout as Ctx::panic_violation
    let sig = format!("{}|panic|{}|msg={}|in={}|{}", ctx.property, site, p.msg_sig, p.file, class);
    if let Some(v) = ctx.violations.get_mut(&sig) {
        v.count += 1;
        return;
    }
    ctx.panic_violation(site, class, p, case_data());
}

/// Parses one datagram under `catch`; panics and slices outside the datagram are
/// reported here. `expect` is the kind whose header the datagram starts with
/// (used for the coarse signature only).
fn try_parse(ctx: &mut Ctx, st: &mut Stats, data: &[u8], expect: Kind, how: &dyn Fn() -> String) -> Option<Outcome> {
    st.parses += 1;
    match catch(|| exercise(data)) {
        Err(p) => {
            st.panics += 1;
            st.by_kind[expect.idx()] += 1;
            report_panic(ctx, "parse", expect.name(), &p, &|| json!({"datagram": hex(data), "how": how()}));
            None
        }
        Ok(o) => {
            match o.kind {
                None => st.resp_none += 1,
                Some(k) => st.by_kind[k.idx()] += 1,
            }
            match &o.info {
                InfoRes::NotInfo => {}
                InfoRes::Rejected => st.info_none += 1,
                _ => st.info_some += 1,
            }
            st.list_entries += o.entries as u64;
            if !o.provenance_ok {
                ctx.violation(
                    "provenance",
                    "parse_response",
                    expect.name(),
                    json!({"datagram": hex(data), "entries": o.entries}),
                    json!({"datagram": hex(data), "how": how()}),
                );
            }
            Some(o)
        }
    }
}

// ------------------------------------------------------------------ phase: parse

struct Budget {
    /// Truncate at every `trunc_step`-th position.
    trunc_step: usize,
    prng_datagrams: usize,
    /// Sweep the numeric fields of every client (otherwise first and last client only).
    all_clients: bool,
    pair_sweep: bool,
    max_base_clients: usize,
    mutations: usize,
}

fn budget(tier: Tier) -> Budget {
    match tier {
        Tier::Miri => Budget { trunc_step: 23, prng_datagrams: 2, all_clients: false, pair_sweep: false, max_base_clients: 1, mutations: 2 },
        Tier::Asan => Budget { trunc_step: 1, prng_datagrams: 8, all_clients: false, pair_sweep: true, max_base_clients: 24, mutations: 8 },
        _ => Budget { trunc_step: 1, prng_datagrams: 24, all_clients: true, pair_sweep: true, max_base_clients: 24, mutations: 24 },
    }
}

/// PRNG payload: uniform bytes, or "field-like" bytes (digits, sign, NUL, letters).
fn prng_payload(rng: &mut Rng, kind: Kind) -> Vec<u8> {
    let len = match rng.below(5) {
        0 => rng.range(0, 8) as usize,
        1 => rng.range(0, 40) as usize,
        2 => rng.range(0, 200) as usize,
        3 => rng.range(0, 1400) as usize,
        _ => rng.range(30, 120) as usize,
    };
    let mode = rng.below(4);
    let mut v = rng.bytes(len);
    if mode >= 1 {
        const FIELDISH: &[u8] = b"0123456789-\0\0\0\0ab 64\xff\xc3";
        for b in &mut v {
            *b = FIELDISH[*b as usize % FIELDISH.len()];
        }
    }
    if mode == 3 && kind.is_info() {
        // a plausible numeric prologue: token (and packet number) in front
        let mut p = Vec::new();
        if kind == Kind::Info7 {
            p.extend(varint::encode(rng.edgy_i32()));
        } else {
            p.extend_from_slice(rng.edgy_i32().to_string().as_bytes());
            p.push(0);
            if kind == Kind::Info6ExMore {
                p.extend_from_slice(rng.range(-1, 66).to_string().as_bytes());
                p.push(0);
                p.push(0);
            }
        }
        p.extend(v);
        v = p;
    }
    v
}

fn non_info_payload(rng: &mut Rng, kind: Kind, small: bool) -> Vec<u8> {
    match kind {
        Kind::List5 => {
            let n = if small { rng.range(0, 3) as usize } else { *rng.pick(&[0usize, 1, 2, 74, 75, 76]) };
            rng.bytes(n * 6)
        }
        Kind::List6 | Kind::List7 => {
            let n = if small { rng.range(0, 3) as usize } else { *rng.pick(&[0usize, 1, 2, 74, 75, 76]) };
            let mut v = Vec::new();
            for _ in 0..n {
                let mut e = rng.bytes(18);
                if rng.bool() {
                    // IPv4-mapped
                    e[..10].copy_from_slice(&[0; 10]);
                    e[10] = 0xff;
                    e[11] = 0xff;
                }
                v.extend(e);
            }
            v
        }
        Kind::Count | Kind::Count7 => rng.bytes(2),
        Kind::Token7 => {
            let mut v = rng.bytes(4);
            if rng.bool() && !small {
                v.extend(vec![0u8; 508]);
            }
            v
        }
        _ => unreachable!(),
    }
}

fn parse_case(ctx: &mut Ctx, idx: u64, rng: &mut Rng) {
    let kind = KINDS[(idx % 13) as usize];
    let b = budget(ctx.tier);
    let mut st = Stats::default();
    let vary = rng.chance(1, 3);
    let hdr = header(kind, if vary { Some(rng) } else { None });

    // ---- the well-formed base datagram
    let mut fields: Vec<Field> = Vec::new();
    let base: Vec<u8>;
    if kind.is_info() {
        let seven = kind == Kind::Info7;
        let room = (kind.max_clients() as usize).min(b.max_base_clients);
        let n = match rng.below(5) {
            0 => 0,
            1 => 1,
            2 => room,
            _ => rng.range(0, room as i64) as usize,
        };
        let limit = if matches!(kind, Kind::Info6Ex | Kind::Info6ExMore) { None } else { Some(kind.max_clients() as i32) };
        let mut s = gen_server(rng, n, limit, seven);
        let mut offset = 0;
        if kind == Kind::Info664 {
            // a later packet of a fuller server: more clients announced than carried
            offset = *rng.pick(&[0, 0, 24, 40]);
            let total = (offset + n as i32).min(64);
            offset = total - n as i32;
            s.num_clients = total;
            s.max_clients = s.max_clients.max(total);
            s.max_players = s.max_players.min(s.max_clients);
        }
        let packet_no = rng.range(1, 63) as i32;
        fields = info_fields(kind, &s, &s.clients, offset, packet_no);
        base = serialize(kind, &hdr, &fields);
    } else {
        let mut d = hdr.clone();
        d.extend(non_info_payload(rng, kind, ctx.tier == Tier::Miri));
        base = d;
    }
    let case_hash = fnv1a(&base) ^ (kind.idx() as u64) << 56;

    // ---- base: must be recognised as its kind, and a well-formed info must parse
    if let Some(o) = try_parse(ctx, &mut st, &base, kind, &|| "well-formed base".to_string()) {
        let rejected = matches!(o.info, InfoRes::Rejected);
        if o.kind != Some(kind) || rejected {
            ctx.violation(
                "wellformed-rejected",
                "parse",
                kind.name(),
                json!({"datagram": hex(&base), "recognised_as": o.kind.map(|k| k.name()), "info_rejected": rejected}),
                json!({"datagram": hex(&base)}),
            );
        } else {
            ctx.count("wellformed_accepted", 1);
        }
    }

    // ---- numeric fields over their boundaries
    if kind.is_info() {
        let mut sweep = sweep_values(kind.max_clients());
        let mut raws: &[&[u8]] = if kind == Kind::Info7 { RAW_VARINTS } else { RAW_TEXT_INTS };
        let mut hostile: &[&[u8]] = HOSTILE_STRS;
        if ctx.tier == Tier::Miri {
            // the Miri tier only has room for the named boundaries
            let m = kind.max_clients();
            sweep = vec![-1, m + 1, 64, i32::MAX as i64];
            sweep.dedup();
            raws = &raws[1..2];
            hostile = &hostile[5..7];
        }
        let nfields = fields.len();
        let first_client = fields.iter().position(|f| f.name == "client_name").unwrap_or(nfields);
        let per_client = match kind {
            Kind::Info5 => 2,
            Kind::Info6Ex | Kind::Info6ExMore => 6,
            _ => 5,
        };
        let last_client = if nfields > first_client { nfields - per_client } else { nfields };
        let mut swept_fields = 0u64;
        for i in 0..nfields {
            if !b.all_clients && i >= first_client + per_client && i < last_client {
                continue;
            }
            let name = fields[i].name;
            if is_int(&fields[i]) {
                swept_fields += 1;
                let mut fs2 = fields.clone();
                for &v in &sweep {
                    fs2[i].val = Val::Int(v);
                    let d = serialize(kind, &hdr, &fs2);
                    try_parse(ctx, &mut st, &d, kind, &|| format!("field {} (#{}) = {}", name, i, v));
                }
                for raw in raws {
                    fs2[i].val = Val::Raw(raw.to_vec());
                    let d = serialize(kind, &hdr, &fs2);
                    try_parse(ctx, &mut st, &d, kind, &|| format!("field {} (#{}) = raw {}", name, i, hex(raw)));
                }
            } else if i < first_client + per_client || i >= last_client {
                let mut fs2 = fields.clone();
                let long = vec![b'L'; 300];
                for s in hostile.iter().copied().chain(std::iter::once(&long[..])) {
                    fs2[i].val = Val::Str(s.to_vec());
                    let d = serialize(kind, &hdr, &fs2);
                    try_parse(ctx, &mut st, &d, kind, &|| format!("string field {} (#{}) = {}", name, i, hex_short(s)));
                }
            }
        }
        ctx.count("numeric_fields_swept", swept_fields);

        // ---- joint sweeps: the four counts together, offset x clients carried, packet number
        let pos = |n: &str| fields.iter().position(|f| f.name == n);
        if b.pair_sweep {
            if let (Some(np), Some(mp)) = (pos("num_players"), pos("max_players")) {
                let nc = pos("num_clients");
                let mc = pos("max_clients");
                let mut fs2 = fields.clone();
                for &a in &sweep {
                    for &m in &sweep {
                        // num = a, max = m for clients (and players where separate)
                        for players_follow in [false, true] {
                            match (nc, mc) {
                                (Some(nc), Some(mc)) => {
                                    fs2[nc].val = Val::Int(a);
                                    fs2[mc].val = Val::Int(m);
                                    fs2[np].val = Val::Int(if players_follow { a } else { 0 });
                                    fs2[mp].val = Val::Int(if players_follow { m } else { 0 });
                                }
                                _ => {
                                    if players_follow {
                                        continue;
                                    }
                                    fs2[np].val = Val::Int(a);
                                    fs2[mp].val = Val::Int(m);
                                }
                            }
                            let d = serialize(kind, &hdr, &fs2);
                            try_parse(ctx, &mut st, &d, kind, &|| format!("counts num={} max={} players_follow={}", a, m, players_follow));
                            ctx.count("joint_count_sweeps", 1);
                        }
                    }
                }
            }
        }
        if kind == Kind::Info664 || kind == Kind::Info6ExMore || kind == Kind::Info6Ex {
            // Datagrams whose counts are valid so that the client loop is reached with
            // every offset / packet number, carrying 0, 1, 2 and 24 clients.
            let carried: &[usize] = if ctx.tier == Tier::Miri { &[1] } else { &[0, 1, 2, 24, 30] };
            let mut extra = sweep.clone();
            extra.extend([40, 41, 42, 62]);
            for &n in carried {
                let mut s = gen_server(rng, n, None, false);
                s.max_clients = 64;
                s.num_clients = 64.min(s.max_clients);
                s.max_players = s.max_players.min(64);
                s.num_players = s.num_players.min(s.max_players);
                for &v in &extra {
                    let v32 = v.clamp(i32::MIN as i64, i32::MAX as i64) as i32;
                    let f = info_fields(kind, &s, &s.clients, v32, v32);
                    let d = serialize(kind, &hdr, &f);
                    try_parse(ctx, &mut st, &d, kind, &|| format!("valid counts, offset/packet_no = {}, {} clients carried", v, n));
                    ctx.count("offset_packetno_sweeps", 1);
                }
            }
        }
    }

    // ---- truncation at every position
    let mut cut = 0;
    while cut < base.len() {
        try_parse(ctx, &mut st, &base[..cut], kind, &|| format!("well-formed base truncated to {} bytes", cut));
        ctx.count("truncations", 1);
        cut += b.trunc_step;
    }
    // ---- a few extra bytes behind a well-formed datagram (overlong lists/counts, trailing garbage)
    for extra in [1usize, 2, 5, 6, 17, 18, 19] {
        let mut d = base.clone();
        d.extend(rng.bytes(extra));
        try_parse(ctx, &mut st, &d, kind, &|| format!("well-formed base + {} PRNG bytes", extra));
    }
    // ---- PRNG bytes after the known header
    for _ in 0..b.prng_datagrams {
        let mut d = hdr.clone();
        d.extend(prng_payload(rng, kind));
        try_parse(ctx, &mut st, &d, kind, &|| "header + PRNG bytes".to_string());
        ctx.count("prng_after_header", 1);
    }
    // ---- byte-level mutations of the base (header bytes included)
    for _ in 0..b.mutations {
        let mut d = base.clone();
        let edits = rng.range(1, 4);
        for _ in 0..edits {
            if d.is_empty() {
                break;
            }
            let p = if rng.chance(1, 4) { rng.usize_below(d.len().min(kind.header_len())) } else { rng.usize_below(d.len()) };
            match rng.below(5) {
                0 => d[p] = rng.u8(),
                1 => d[p] = 0,
                2 => {
                    d.remove(p);
                }
                3 => d.insert(p, *rng.pick(b"0123456789-\0\xff")),
                _ => d[p] ^= 1 << rng.below(8),
            }
        }
        try_parse(ctx, &mut st, &d, kind, &|| "byte-mutated base".to_string());
        ctx.count("byte_mutations", 1);
    }

    if ctx.samples.len() < 3 && idx % 13 >= 5 && idx >= 13 && idx % 4 == 0 {
        ctx.sample(json!({"phase": "parse", "kind": kind.name(), "base": hex_short(&base), "base_len": base.len(), "fields": fields.len(), "parses_in_case": st.parses}));
    }
    let parses = st.parses;
    st.flush(ctx);
    ctx.case(Some(case_hash));
    ctx.cases_bulk(parses.saturating_sub(1), 0);
}

// ------------------------------------------------------------------ phase: merge

#[derive(Clone, Copy, PartialEq, Eq, Debug)]
enum Variant {
    /// 64-player legacy info, 24 clients per packet, offsets 0/24/48.
    L64Std,
    /// 64-player legacy info split into smaller contiguous packets (up to 64).
    L64Split,
    /// extended info, packet numbers 0..k-1 (k <= 64, as the document allows).
    Ex,
    /// extended info whose last "more" packet carries number 64: the document says
    /// "less than 64", the parser's check lets 64 through. Out of domain (skipped)
    /// when the parser refuses that datagram.
    ExPno64,
}

impl Variant {
    fn name(self) -> &'static str {
        match self {
            Variant::L64Std => "V664",
            Variant::L64Split => "V664-split",
            Variant::Ex => "V6Ex",
            Variant::ExPno64 => "V6Ex-pno64",
        }
    }
    /// Coarse class for signatures: the code path, not the way the server split.
    fn class(self) -> &'static str {
        match self {
            Variant::L64Std | Variant::L64Split => "V664",
            Variant::Ex => "V6Ex",
            Variant::ExPno64 => "V6Ex-pno64",
        }
    }
}

struct Part {
    kind: Kind,
    /// offset (legacy) or packet number (extended)
    tag: i32,
    clients: std::ops::Range<usize>,
    datagram: Vec<u8>,
}

/// n = sum of k positive parts, each <= cap.
fn composition(rng: &mut Rng, n: usize, k: usize, cap: usize) -> Vec<usize> {
    assert!(k >= 1 && n >= k && n <= k * cap);
    let mut v = vec![1usize; k];
    let mut left = n - k;
    while left > 0 {
        let i = rng.usize_below(k);
        if v[i] < cap {
            let add = rng.range(1, left.min(cap - v[i]) as i64) as usize;
            v[i] += add;
            left -= add;
        }
    }
    v
}

fn build_parts(rng: &mut Rng, variant: Variant, target_k: usize) -> (Server, Vec<Part>) {
    match variant {
        Variant::L64Std | Variant::L64Split => {
            let (n, sizes): (usize, Vec<usize>) = if variant == Variant::L64Std {
                let (lo, hi) = match target_k {
                    1 => (0i64, 24i64),
                    2 => (25, 48),
                    _ => (49, 64),
                };
                let any = rng.range(lo, hi) as usize;
                let n = match target_k {
                    1 => *rng.pick(&[0usize, 1, 2, 23, 24, any]),
                    2 => *rng.pick(&[25usize, 26, 47, 48, any]),
                    _ => *rng.pick(&[49usize, 50, 63, 64, 64, 64, any]),
                };
                let mut sizes = Vec::new();
                let mut left = n;
                loop {
                    sizes.push(left.min(24));
                    left -= left.min(24);
                    if left == 0 {
                        break;
                    }
                }
                (n, sizes)
            } else {
                let k = target_k.min(64);
                let n = if k <= 4 { rng.range(k as i64, (k * 3).min(64) as i64) as usize } else { rng.range(k as i64, 64) as usize };
                (n, composition(rng, n, k, 24))
            };
            let s = gen_server(rng, n, Some(64), false);
            let hdr = header(Kind::Info664, None);
            let mut parts = Vec::new();
            let mut off = 0usize;
            for sz in sizes {
                let r = off..off + sz;
                let f = info_fields(Kind::Info664, &s, &s.clients[r.clone()], off as i32, 0);
                parts.push(Part { kind: Kind::Info664, tag: off as i32, clients: r, datagram: serialize(Kind::Info664, &hdr, &f) });
                off += sz;
            }
            (s, parts)
        }
        Variant::Ex | Variant::ExPno64 => {
            let kmax = if variant == Variant::Ex { 64 } else { 65 };
            let k = target_k.clamp(if variant == Variant::Ex { 1 } else { 2 }, kmax);
            let more = k - 1;
            // clients in the main packet
            let m0 = match rng.below(4) {
                0 => 0,
                1 => rng.range(0, 30) as usize,
                _ => rng.range(0, 4) as usize,
            };
            let in_more = if more == 0 {
                0
            } else if k <= 4 {
                rng.range(more as i64, (more * 3) as i64) as usize
            } else {
                rng.range(more as i64, (more + 60) as i64) as usize
            };
            let n = m0 + in_more;
            let s = gen_server(rng, n, None, false);
            let mut parts = Vec::new();
            let f = info_fields(Kind::Info6Ex, &s, &s.clients[..m0], 0, 0);
            parts.push(Part { kind: Kind::Info6Ex, tag: 0, clients: 0..m0, datagram: serialize(Kind::Info6Ex, &header(Kind::Info6Ex, None), &f) });
            if more > 0 {
                let sizes = composition(rng, in_more, more, 30);
                let mut off = m0;
                for (i, sz) in sizes.into_iter().enumerate() {
                    let pno = if variant == Variant::ExPno64 && i + 1 == more { 64 } else { i as i32 + 1 };
                    let r = off..off + sz;
                    let f = info_fields(Kind::Info6ExMore, &s, &s.clients[r.clone()], 0, pno);
                    parts.push(Part {
                        kind: Kind::Info6ExMore,
                        tag: pno,
                        clients: r,
                        datagram: serialize(Kind::Info6ExMore, &header(Kind::Info6ExMore, None), &f),
                    });
                    off += sz;
                }
            }
            (s, parts)
        }
    }
}

type ClientTuple = (String, String, i32, i32, i32);

fn expected_clients(s: &Server) -> Vec<ClientTuple> {
    let mut v: Vec<ClientTuple> = s
        .clients
        .iter()
        // 0.6: is_player == 0 -> spectator flag (1), else 0
        .map(|c| (c.name.clone(), c.clan.clone(), c.country, c.score, if c.last == 0 { 1 } else { 0 }))
        .collect();
    v.sort();
    v
}

/// Compares a complete info with the generated server. `None` = equal.
fn info_differs(info: &ServerInfo, s: &Server, version: ServerInfoVersion, want: &[ClientTuple]) -> Option<String> {
    let ex = version == ServerInfoVersion::V6Ex;
    let header_ok = info.info_version == version
        && info.token == s.token
        && &info.version[..] == s.version
        && &info.name[..] == s.name
        && info.hostname.is_none()
        && &info.map[..] == s.map
        && info.map_crc == if ex { Some(s.map_crc as u32) } else { None }
        && info.map_size == if ex { Some(s.map_size as u32) } else { None }
        && &info.game_type[..] == s.game_type
        && info.flags == s.flags
        && info.progression.is_none()
        && info.skill_level.is_none()
        && info.num_players == s.num_players
        && info.max_players == s.max_players
        && info.num_clients == s.num_clients
        && info.max_clients == s.max_clients;
    if !header_ok {
        return Some("header fields differ from the main packet".into());
    }
    // Fast path: element-wise equal to the sorted expectation => equal multisets
    // (whatever order the library chose); anything else goes through the sort below.
    if info.clients.len() == want.len()
        && info
            .clients
            .iter()
            .zip(want)
            .all(|(c, w)| &c.name[..] == w.0 && &c.clan[..] == w.1 && c.country == w.2 && c.score == w.3 && c.flags == w.4)
    {
        return None;
    }
    let mut got: Vec<ClientTuple> = info
        .clients
        .iter()
        .map(|c| (c.name.to_string(), c.clan.to_string(), c.country, c.score, c.flags))
        .collect();
    got.sort();
    if got[..] == want[..] {
        return None;
    }
    let mut dedup = got.clone();
    dedup.dedup();
    if dedup.len() < got.len() {
        return Some(format!("{} clients listed, {} distinct, {} announced: a client is listed more than once", got.len(), dedup.len(), want.len()));
    }
    Some(format!("{} clients listed, {} announced: client multiset differs", got.len(), want.len()))
}

#[derive(Clone, Debug)]
struct Fail {
    clause: &'static str,
    dup_before: bool,
    step: usize,
    detail: String,
}

struct SchedResult {
    final_info: Option<ServerInfo>,
    fail: Option<Fail>,
    merge_ok: u32,
    merge_err: Vec<String>,
    compared: u32,
}

/// Feeds the parts in the order of `sched` the way the repo's users do (first
/// part becomes the accumulator, later ones are merged into it, completeness is
/// probed after every datagram), and checks after every step:
/// complete (Some) <=> every distinct part has arrived; Some => equals the server.
fn run_schedule(parsed: &[PartialServerInfo], sched: &[usize], s: &Server, version: ServerInfoVersion, want: &[ClientTuple]) -> SchedResult {
    let k = parsed.len();
    let mut seen = vec![false; k];
    let mut nseen = 0;
    let mut dup = false;
    let mut r = SchedResult { final_info: None, fail: None, merge_ok: 0, merge_err: Vec::new(), compared: 0 };
    let mut acc: Option<PartialServerInfo> = None;
    for (step, &pi) in sched.iter().enumerate() {
        if seen[pi] {
            dup = true;
        } else {
            seen[pi] = true;
            nseen += 1;
        }
        match &mut acc {
            None => acc = Some(parsed[pi].clone()),
            Some(a) => match a.merge(parsed[pi].clone()) {
                Ok(()) => r.merge_ok += 1,
                Err(e) => r.merge_err.push(format!("{:?}", e)),
            },
        }
        let a = acc.as_mut().unwrap();
        let observed = a.get_info();
        let expect_complete = nseen == k;
        if r.fail.is_none() {
            match (observed, expect_complete) {
                (Some(_), false) => {
                    r.fail = Some(Fail {
                        clause: "completeness",
                        dup_before: dup,
                        step,
                        detail: format!("complete info reported after {} of {} distinct parts", nseen, k),
                    })
                }
                (None, true) => {
                    r.fail = Some(Fail {
                        clause: "completeness",
                        dup_before: dup,
                        step,
                        detail: format!("no complete info although all {} parts have arrived", k),
                    })
                }
                (Some(info), true) => {
                    r.compared += 1;
                    if let Some(d) = info_differs(info, s, version, want) {
                        r.fail = Some(Fail { clause: "complete-info-differs", dup_before: dup, step, detail: d });
                    }
                }
                (None, false) => {}
            }
        }
    }
    let a = acc.as_mut().unwrap();
    let by_get = a.get_info().cloned();
    let by_take = a.take_info();
    if by_get != by_take && r.fail.is_none() {
        r.fail = Some(Fail { clause: "get-take-differ", dup_before: dup, step: sched.len(), detail: "get_info() and take_info() disagree".into() });
    }
    r.final_info = by_take;
    r
}

/// All distinct orderings of the multiset with `counts[i]` copies of part i.
fn multiset_perms(counts: &mut [u8], cur: &mut Vec<usize>, total: usize, f: &mut dyn FnMut(&[usize])) {
    if cur.len() == total {
        f(cur);
        return;
    }
    for i in 0..counts.len() {
        if counts[i] > 0 {
            counts[i] -= 1;
            cur.push(i);
            multiset_perms(counts, cur, total, f);
            cur.pop();
            counts[i] += 1;
        }
    }
}

/// Every multiplicity vector in {1..=maxmult}^k, every ordering of each.
fn all_schedules(k: usize, maxmult: u8) -> Vec<Vec<usize>> {
    let mut out = Vec::new();
    let mut mult = vec![1u8; k];
    loop {
        let total: usize = mult.iter().map(|&m| m as usize).sum();
        let mut counts = mult.clone();
        multiset_perms(&mut counts, &mut Vec::new(), total, &mut |s| out.push(s.to_vec()));
        // next vector
        let mut i = 0;
        loop {
            if i == k {
                return out;
            }
            if mult[i] < maxmult {
                mult[i] += 1;
                break;
            }
            mult[i] = 1;
            i += 1;
        }
    }
}

fn prng_schedule(rng: &mut Rng, k: usize) -> Vec<usize> {
    let mut s: Vec<usize> = (0..k).collect();
    let style = rng.below(4);
    for i in 0..k {
        let extra = match style {
            0 => 0,
            1 => (rng.chance(1, 3)) as usize,
            2 => rng.range(0, 2) as usize,
            _ => (rng.chance(1, 8) as usize) * rng.range(1, 3) as usize,
        };
        for _ in 0..extra {
            s.push(i);
        }
    }
    if style == 0 && k > 1 {
        // at least one repeat somewhere in most schedules
        if rng.chance(3, 4) {
            s.push(rng.usize_below(k));
        }
    }
    rng.shuffle(&mut s);
    s
}

fn merge_case(ctx: &mut Ctx, idx: u64, rng: &mut Rng) {
    let variant = if ctx.tier == Tier::Miri {
        // six small cases per shard: both code paths, two and three parts
        [Variant::L64Split, Variant::Ex, Variant::L64Split, Variant::Ex, Variant::ExPno64, Variant::L64Std][(idx % 6) as usize]
    } else {
        [Variant::L64Std, Variant::Ex, Variant::L64Split, Variant::ExPno64][((idx / 8) % 4) as usize]
    };
    let exhaustive_k = match ctx.tier {
        Tier::Thorough => 4,
        Tier::Miri => 2,
        _ => 3,
    };
    let target_k = match (ctx.tier, idx % 8) {
        (Tier::Miri, i) => [2, 2, 3, 3, 2, 1][(i % 6) as usize],
        (_, 0) => 1,
        (_, 1) => 2,
        (_, 2) => 3,
        (_, 3) => 4,
        (_, 4) => rng.range(5, 8) as usize,
        (_, 5) => rng.range(9, 40) as usize,
        (_, 6) => 65,
        _ => rng.range(2, 4) as usize,
    };
    let (server, parts) = build_parts(rng, variant, target_k);
    let k = parts.len();
    let version = if parts[0].kind == Kind::Info664 { ServerInfoVersion::V664 } else { ServerInfoVersion::V6Ex };
    let parts_json = |parts: &[Part]| -> Value {
        json!(parts
            .iter()
            .map(|p| json!({"kind": p.kind.name(), "offset_or_packet_no": p.tag, "clients": [p.clients.start, p.clients.end], "datagram": hex(&p.datagram)}))
            .collect::<Vec<_>>())
    };

    // ---- parse every part through the public entry point
    let mut st = Stats::default();
    let mut parsed: Vec<PartialServerInfo> = Vec::new();
    for p in &parts {
        let o = try_parse(ctx, &mut st, &p.datagram, p.kind, &|| {
            format!("part of a {} info: offset/packet_no {} carrying clients {:?}", variant.name(), p.tag, p.clients)
        });
        let o = match o {
            Some(o) => o,
            None => {
                // panicked (reported): nothing to merge
                st.flush(ctx);
                ctx.count("merge_cases_aborted_by_parse_panic", 1);
                ctx.case(None);
                return;
            }
        };
        match o.info {
            InfoRes::Partial(pi) if o.kind == Some(p.kind) => parsed.push(pi),
            _ => {
                st.flush(ctx);
                if variant == Variant::ExPno64 && p.tag == 64 {
                    // The document forbids packet number 64; a parser that refuses it is right.
                    ctx.count("merge_pno64_refused_by_parser", 1);
                    ctx.case(None);
                    return;
                }
                ctx.violation(
                    "wellformed-rejected",
                    "parse",
                    p.kind.name(),
                    json!({"datagram": hex(&p.datagram), "recognised_as": o.kind.map(|k| k.name())}),
                    json!({"datagram": hex(&p.datagram), "variant": variant.name()}),
                );
                ctx.case(None);
                return;
            }
        }
    }
    st.flush(ctx);

    // ---- schedules
    let mut schedules: Vec<Vec<usize>> = Vec::new();
    let exhaustive = k <= exhaustive_k;
    if exhaustive {
        let maxmult = match (ctx.tier, k) {
            (Tier::Miri, _) => 2,
            // {1,2,3}^3 has 5052 orderings: one group of cases in four
            (Tier::Thorough, 3) => {
                if (idx / 32) % 4 == 0 {
                    3
                } else {
                    2
                }
            }
            (_, 1..=2) => 3,
            _ => 2,
        };
        schedules = all_schedules(k, maxmult);
        ctx.count("merge_cases_exhaustive", 1);
    } else {
        schedules.push((0..k).collect());
        schedules.push((0..k).rev().collect());
        // every part repeated immediately / the whole transfer sent twice
        schedules.push((0..k).flat_map(|i| [i, i]).collect());
        schedules.push((0..k).chain(0..k).collect());
        let n = match ctx.tier {
            Tier::Thorough => 160,
            Tier::Quick => 40,
            Tier::Asan => 10,
            Tier::Miri => 2,
        };
        for _ in 0..n {
            schedules.push(prng_schedule(rng, k));
        }
        ctx.count("merge_cases_prng", 1);
    }

    let want = expected_clients(&server);
    let class_of = |dup: bool| format!("{}|{}", variant.class(), if dup { "with-repeats" } else { "no-repeats" });
    let mut reference: Option<(Vec<usize>, Option<ServerInfo>)> = None;
    let mut any_fail = false;
    let mut dup_steps = 0u64;
    let mut compared = 0u64;
    let mut merges_ok = 0u64;
    let mut merges_err = 0u64;
    for sched in &schedules {
        dup_steps += (sched.len() - k) as u64;
        let res = catch(|| run_schedule(&parsed, sched, &server, version, &want));
        let case_data = || json!({"variant": variant.name(), "clients": server.clients.len(), "parts": parts_json(&parts), "schedule": sched});
        let r = match res {
            Err(p) => {
                any_fail = true;
                report_panic(ctx, "merge", variant.class(), &p, &case_data);
                continue;
            }
            Ok(r) => r,
        };
        compared += r.compared as u64;
        merges_ok += r.merge_ok as u64;
        merges_err += r.merge_err.len() as u64;
        for e in &r.merge_err {
            ctx.seen("merge_errors", e);
        }
        if let Some(f) = &r.fail {
            any_fail = true;
            report(
                ctx,
                f.clause,
                "PartialServerInfo::merge",
                &class_of(f.dup_before),
                &|| json!({"what": f.detail, "at_step": f.step, "schedule": sched, "parts": k, "merge_errors": r.merge_err}),
                &case_data,
            );
            continue;
        }
        match &reference {
            None => reference = Some((sched.clone(), r.final_info)),
            Some((ref_sched, ref_info)) => {
                if *ref_info != r.final_info {
                    any_fail = true;
                    report(
                        ctx,
                        "schedule-dependent",
                        "PartialServerInfo::take_info",
                        &class_of(sched.len() > k),
                        &|| json!({"schedule": sched, "reference_schedule": ref_sched, "final": format!("{:?}", r.final_info), "reference_final": format!("{:?}", ref_info)}),
                        &case_data,
                    );
                }
            }
        }
    }
    let _ = any_fail;
    ctx.count("merge_schedules", schedules.len() as u64);
    ctx.count("merge_duplicates_injected", dup_steps);
    ctx.count("complete_infos_compared", compared);
    ctx.count("merge_calls_ok", merges_ok);
    ctx.count("merge_calls_err", merges_err);
    ctx.count(&format!("merge_cases.{}", variant.name()), 1);
    ctx.count(
        &format!(
            "merge_parts.{}",
            match k {
                1 => "1",
                2 => "2",
                3 => "3",
                4 => "4",
                5..=8 => "5-8",
                9..=40 => "9-40",
                41..=63 => "41-63",
                64 => "64",
                _ => "65",
            }
        ),
        1,
    );
    ctx.max("merge_parts_max", k as u64);
    ctx.max("merge_clients_max", server.clients.len() as u64);
    if variant != Variant::ExPno64 && version == ServerInfoVersion::V6Ex {
        ctx.max("merge_parts_max_v6ex", k as u64);
    }
    if version == ServerInfoVersion::V664 {
        ctx.max("merge_parts_max_v664", k as u64);
        if server.clients.len() == 64 {
            ctx.count("merge_cases_64_clients_legacy", 1);
        }
    }
    if ctx.want_sample() && k >= 2 && idx >= 9 {
        ctx.sample(json!({
            "phase": "merge", "variant": variant.name(), "clients": server.clients.len(), "parts": k,
            "part_sizes": parts.iter().map(|p| p.clients.len()).collect::<Vec<_>>(),
            "schedules": schedules.len(), "exhaustive": exhaustive,
            "example_schedule": schedules[schedules.len() - 1],
            "first_part": hex_short(&parts[0].datagram),
        }));
    }
    let mut h = fnv1a(variant.name().as_bytes());
    for p in &parts {
        h = verif_harness::mix(h, fnv1a(&p.datagram));
    }
    ctx.cases_bulk((schedules.len() as u64).saturating_sub(1), 0);
    ctx.case(if k >= 2 { Some(h) } else { None });
}

fn main() {
    let mut ctx = Ctx::from_args("C18");
    ctx.rule = "parse: one case = one well-formed datagram of kind (index mod 13) from the monitor's own builder, plus all its derived datagrams: every numeric field x {MIN,-1,0,1,max-1,max,max+1,63,64,65,MAX,...} and non-numeric strings, joint sweeps of the four counts, offset/packet number x clients carried with valid counts, hostile strings, truncation at every position, trailing bytes, PRNG bytes after the header, byte mutations (evaluations count every parsed datagram; distinct = hash of the base datagram). merge: one case = one generated server (unique client names, or in a quarter of the servers several clients sharing a name) split into k parts as a 64-player legacy (24 per packet, or smaller contiguous packets) or extended info (main + more packets), merged in every ordering of every multiplicity vector (k <= 3 quick / 4 thorough) or in PRNG orderings with repeats; evaluations count schedules; non-trivial = at least two parts, distinct = hash of the part datagrams".into();
    ctx.assumptions = vec![
        "a receiver uses the parts as httphook/stats-browser do: the first parsed part is the accumulator, later parts are merge()d into it, completeness is probed with get_info()/take_info(); the result of merge() itself (Ok or an error) is not judged".into(),
        "the parts of one info come from one consistent server: same token and header in every legacy packet, every client in exactly one part, no empty 'more' packet".into(),
        "an extended 'more' packet numbered 64 is outside doc/serverinfo_extended.md ('less than 64'): the case is skipped when the parser refuses the datagram and judged like any other part when it accepts it".into(),
        "well-formed datagrams must be recognised and parsed (clause wellformed-rejected): without that the merge half could not be observed at all".into(),
    ];
    // Wall-clock per phase is recorded for calibration only; nothing is decided on it.
    let t0 = std::time::Instant::now();
    let n_parse = ctx.volume(1_300, 78_000, 13, 390);
    ctx.run_cases("parse", n_parse, |ctx, idx, rng| {
        ctx.arm("parse", 60.0);
        parse_case(ctx, idx, rng);
        ctx.disarm();
    });
    ctx.max("info_wall_ms_parse", t0.elapsed().as_millis() as u64);
    let t1 = std::time::Instant::now();
    let n_merge = ctx.volume(3_200, 32_000, 6, 480);
    ctx.run_cases("merge", n_merge, |ctx, idx, rng| {
        ctx.arm("merge", 300.0);
        merge_case(ctx, idx, rng);
        ctx.disarm();
    });
    ctx.max("info_wall_ms_merge", t1.elapsed().as_millis() as u64);
    ctx.finish();
}
