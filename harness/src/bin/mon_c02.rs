//! C02 — the connection makes progress: every call returns, and after faults
//! stop everything submitted gets through within a bounded number of ticks.
//!
//! Liveness is restated as bounded progress (DESIGN.md §5/C02): a chaos prefix is
//! followed by a fair suffix (FIFO loss-free wire, each side ticked exactly when
//! its reported deadline has passed, clock jumps to the earlier deadline when
//! the wire is idle). Within 10 s of virtual time and 200 ticks per side the
//! connector must have seen `Ready`, every submitted vital chunk must have been
//! delivered, and both sides must have nothing unacknowledged or queued.

use libtw2_net::connection as c6;
use libtw2_net::connection7 as c7;
use serde_json::json;
use verif_harness::netsim::*;
use verif_harness::Ctx;
use verif_harness::Rng;
use verif_harness::Tier;

const OWN: [&str; 4] = ["no-return", "deadline", "progress", "tick-storm"];
const SUFFIX_US: u64 = 10_000_000;
const MAX_TICKS: u32 = 200;

fn handshaking_with_retransmit(state: &str) -> bool {
    // States in which the endpoint itself owes a retransmission. A 0.7 acceptor
    // that has answered a token request (PendingConnect) waits passively.
    matches!(state, "Connecting" | "Pending" | "Token")
}

/// Oracle (2): while anything is unsent, unacknowledged or mid-handshake the
/// reported deadline is finite.
fn deadline_oracle<C: Conn>(sim: &mut Sim<C>) {
    for side in 0..2 {
        if sim.sides[side].poisoned {
            continue;
        }
        let c = &sim.sides[side].conn;
        let st = c.state_name();
        let owes = handshaking_with_retransmit(st) || c.unacked() > 0 || c.queued().0 > 0 || c.seq().map(|s| s.2).unwrap_or(false);
        if owes {
            let d = c.needs_tick();
            let finite = matches!(d, Some(t) if t < u64::MAX / 2);
            if !finite {
                let why = if handshaking_with_retransmit(st) { "handshake" } else if c.unacked() > 0 { "unacked" } else { "queued" };
                let v = sim.variant.name();
                sim.finding("deadline", "Connection::needs_tick", &format!("{}|inactive-while-{}|state={}", v, why, st), json!({"side": side, "unacked": c_unacked(sim, side), "state": st}));
            }
        }
    }
}

fn c_unacked<C: Conn>(sim: &Sim<C>, side: usize) -> usize {
    sim.sides[side].conn.unacked()
}

fn settled<C: Conn>(sim: &Sim<C>) -> Result<(), String> {
    if sim.sides[0].ready_seen == 0 {
        return Err("connector-not-ready".into());
    }
    for to in 0..2 {
        let from = 1 - to;
        if sim.sides[to].delivered_vital != sim.sides[from].submitted_vital.len() {
            return Err("vital-undelivered".into());
        }
    }
    for s in 0..2 {
        if sim.sides[s].conn.unacked() != 0 {
            return Err("unacked-left".into());
        }
        if sim.sides[s].conn.queued() != (0, 0) {
            return Err("queued-left".into());
        }
    }
    Ok(())
}

/// The fair suffix. Returns the number of ticks per side.
fn fair_suffix<C: Conn>(sim: &mut Sim<C>, rng: &mut Rng) -> [u32; 2] {
    let mut ticks = [0u32; 2];
    if sim.ended {
        return ticks;
    }
    let t_end = sim.now() + SUFFIX_US;
    if rng.bool() {
        for s in 0..2 {
            sim.apply(Move::Flush(s));
        }
    }
    let v = sim.variant.name();
    for _ in 0..20_000 {
        if sim.ended {
            return ticks;
        }
        deadline_oracle(sim);
        // FIFO, loss-free: each in-flight datagram is delivered once
        if !sim.wire[0].is_empty() || !sim.wire[1].is_empty() {
            let to = if sim.wire[1].is_empty() { 0 } else if sim.wire[0].is_empty() { 1 } else if sim.wire[0][0].id < sim.wire[1][0].id { 0 } else { 1 };
            sim.apply(Move::Deliver { to, idx: 0 });
            continue;
        }
        if settled(sim).is_ok() {
            return ticks;
        }
        let now = sim.now();
        let mut did = false;
        for s in 0..2 {
            if let Some(t) = sim.sides[s].conn.needs_tick() {
                if t <= now {
                    sim.apply(Move::Tick(s));
                    ticks[s] += 1;
                    did = true;
                    if ticks[s] > MAX_TICKS {
                        sim.finding("tick-storm", "Connection::tick", &format!("{}|more-than-{}-ticks", v, MAX_TICKS), json!({"side": s, "virtual_s": (now + SUFFIX_US - t_end) as f64 / 1e6}));
                        return ticks;
                    }
                }
            }
        }
        if did {
            continue;
        }
        let next = [sim.sides[0].conn.needs_tick(), sim.sides[1].conn.needs_tick()].iter().flatten().min().copied();
        match next {
            Some(t) if t <= t_end => sim.set_now(t),
            _ => {
                let why = settled(sim).err().unwrap_or_default();
                let states = format!("{}/{}", sim.sides[0].conn.state_name(), sim.sides[1].conn.state_name());
                sim.finding("progress", "fair-suffix", &format!("{}|{}|{}", v, why, if next.is_none() { "no-deadline" } else { "deadline-beyond-bound" }),
                    json!({"states": states, "ticks": ticks, "unacked": [c_unacked(sim, 0), c_unacked(sim, 1)],
                           "submitted": [sim.sides[0].submitted_vital.len(), sim.sides[1].submitted_vital.len()],
                           "delivered_to": [sim.sides[0].delivered_vital, sim.sides[1].delivered_vital]}));
                return ticks;
            }
        }
    }
    sim.finding("progress", "fair-suffix", &format!("{}|step-budget", v), json!({"ticks": ticks}));
    ticks
}

fn accepted_max(v: Variant) -> usize {
    match v {
        Variant::V7 => 1390,
        _ => 1023,
    }
}

fn finish_case<C: Conn>(ctx: &mut Ctx, sim: &Sim<C>, kind: &str, ticks: [u32; 2], prefix_moves: usize, extra: serde_json::Value) {
    fold_stats(ctx, sim);
    ctx.max("max_suffix_ticks_per_side", ticks[0].max(ticks[1]) as u64);
    ctx.count("suffix_ticks", (ticks[0] + ticks[1]) as u64);
    let ok = settled(sim).is_ok();
    if ok {
        ctx.count("settled_histories", 1);
    }
    let case_data = json!({"kind": kind, "variant": sim.variant.name(), "prefix_moves": prefix_moves, "params": extra});
    forward_findings(ctx, sim, &OWN, &case_data);
    let total_vital = sim.sides[0].submitted_vital.len() + sim.sides[1].submitted_vital.len();
    let nontrivial = ok && total_vital > 0;
    let mut h = verif_harness::fnv1a(kind.as_bytes());
    for s in &sim.states_seen {
        h ^= *s;
    }
    ctx.case(if nontrivial { Some(h) } else { None });
    if ctx.want_sample() && nontrivial && ctx.samples.iter().filter(|s| s["kind"] == kind).count() < 2 {
        let n = sim.log.len();
        ctx.sample(json!({"kind": kind, "variant": sim.variant.name(), "params": case_data["params"], "prefix_moves": prefix_moves,
            "suffix_ticks": ticks, "total_moves": n, "vital_submitted": total_vital,
            "last_moves": sim.log[n.saturating_sub(15)..].iter().map(|m| m.to_json()).collect::<Vec<_>>()}));
    }
}

fn chaos<C: Conn>(ctx: &mut Ctx, rng: &mut Rng, variant: Variant, moves: usize) {
    let mut hp = HistoryParams::random(rng, variant, moves);
    hp.max_len = accepted_max(variant);
    hp.personality.big_pct = *rng.pick(&[0, 5, 20, 60]);
    if rng.chance(1, 8) {
        // every handshake datagram lost
        hp.personality.loss = 100;
        hp.personality.dup = 0;
    }
    let mut sim: Sim<C> = run_history(rng, &hp, |sim, _| {
        deadline_oracle(sim);
        true
    });
    let prefix = sim.log.len();
    let ticks = fair_suffix(&mut sim, rng);
    finish_case(ctx, &sim, "chaos+fair", ticks, prefix, json!({"personality": hp.personality.to_json()}));
}

/// The largest accepted chunks, with and without queued non-vital data, all
/// lost, so that the resend has to split over 1, 2, 3+ datagrams.
fn largest<C: Conn>(ctx: &mut Ctx, rng: &mut Rng, variant: Variant) {
    let mut sim: Sim<C> = Sim::new(variant, rng.u64());
    if !sim.handshake() {
        finish_case(ctx, &sim, "largest", [0, 0], 0, json!({"handshake": false}));
        return;
    }
    let max = accepted_max(variant);
    let k = rng.range(1, 5) as usize;
    let side = rng.usize_below(2);
    let mut lens = Vec::new();
    for _ in 0..k {
        if rng.chance(1, 3) {
            sim.apply(Move::Send { side, len: rng.usize_below(60), vital: false, fill: rng.u8() });
        }
        let len = max - rng.usize_below(9);
        lens.push(len);
        sim.apply(Move::Send { side, len, vital: true, fill: rng.u8() });
        deadline_oracle(&mut sim);
        if rng.bool() {
            sim.apply(Move::Flush(side));
        }
    }
    // lose everything in flight towards the receiver, maybe also the other way
    while !sim.wire[1 - side].is_empty() {
        sim.apply(Move::Drop { to: 1 - side, idx: 0 });
    }
    if rng.bool() {
        while !sim.wire[side].is_empty() {
            sim.apply(Move::Drop { to: side, idx: 0 });
        }
    }
    if rng.chance(1, 3) {
        sim.apply(Move::Send { side, len: rng.usize_below(60), vital: false, fill: rng.u8() });
    }
    let prefix = sim.log.len();
    let ticks = fair_suffix(&mut sim, rng);
    finish_case(ctx, &sim, "largest", ticks, prefix, json!({"lens": lens, "side": side}));
}

fn dispatch<F6: FnOnce(&mut Ctx, &mut Rng), F7: FnOnce(&mut Ctx, &mut Rng)>(ctx: &mut Ctx, rng: &mut Rng, v: Variant, f6: F6, f7: F7) {
    if v == Variant::V7 {
        f7(ctx, rng)
    } else {
        f6(ctx, rng)
    }
}

fn main() {
    let mut ctx = Ctx::from_args("C02");
    ctx.rule = "each case = chaos prefix (loss/dup/reorder personality, random application calls, chunk sizes up to the largest accepted: 1023 for 0.6, 1390 for 0.7; 1 in 8 prefixes loses every datagram) followed by the fair suffix; or the 'largest' workload (1-5 vital chunks of size max-8..max, optional queued non-vital data, everything lost, then fair suffix); non-trivial = the history settled and carried at least one vital chunk; distinct = hash of workload kind and visited endpoint-state set".into();
    ctx.assumptions = vec![
        "bounded restatement of liveness: after faults stop, settle within 10 s virtual time and 200 ticks per side (protocol timers: 500 ms send, 1 s resend)".into(),
        "every call returns: at most 100000 Callback invocations inside one API call (logical counter, not wall clock); CPU watchdog as backstop".into(),
        "finite-deadline clause applies to states in which the endpoint owes a retransmission (Connecting/Token/Pending, unacked, queued, pending resend request); a 0.7 acceptor waiting passively for Connect (PendingConnect) is exempt".into(),
        "accepted chunk sizes: those for which send returns Ok".into(),
    ];
    ctx.arm("c02", 1800.0);
    let n = ctx.volume(800, 8_000, 4, 10);
    ctx.run_cases("chaos+fair", n, |ctx, idx, rng| {
        let v = Variant::all()[(idx % 3) as usize];
        let moves = match ctx.tier {
            Tier::Miri => 60,
            _ => *rng.pick(&[0usize, 5, 20, 100, 300, 1000]),
        };
        dispatch(ctx, rng, v, |c, r| chaos::<c6::Connection>(c, r, v, moves), |c, r| chaos::<c7::Connection>(c, r, v, moves));
    });
    let n = ctx.volume(400, 5_000, 4, 10);
    ctx.run_cases("largest", n, |ctx, idx, rng| {
        let v = Variant::all()[(idx % 3) as usize];
        dispatch(ctx, rng, v, |c, r| largest::<c6::Connection>(c, r, v), |c, r| largest::<c7::Connection>(c, r, v));
    });
    ctx.disarm();
    ctx.finish();
}
