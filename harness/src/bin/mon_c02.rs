//! C02 — the connection makes progress: every call returns, and after faults
//! stop everything submitted gets through within a bounded number of ticks.
//!
//! Liveness is restated as bounded progress (DESIGN.md §5/C02): a chaos prefix is
//! followed by a fair suffix (FIFO loss-free wire, each side ticked exactly when
//! its reported deadline has passed, clock jumps to the earlier deadline when
//! the wire is idle). Within 10 s of virtual time and 200 ticks per side the
//! connector must have seen `Ready`, every submitted vital chunk must have been
//! delivered, and both sides must have nothing unacknowledged or queued.

use libtw2_net::connection as c6;
use libtw2_net::connection7 as c7;
use serde_json::json;
use verif_harness::netsim::*;
use verif_harness::catch;
use verif_harness::Ctx;
use verif_harness::Rng;
use verif_harness::Tier;

const OWN: [&str; 4] = ["no-return", "deadline", "progress", "tick-storm"];
const SUFFIX_US: u64 = 10_000_000;
const MAX_TICKS: u32 = 200;

fn handshaking_with_retransmit(state: &str) -> bool {
    // States in which the endpoint itself owes a retransmission. A 0.7 acceptor
    // that has answered a token request (PendingConnect) waits passively.
    matches!(state, "Connecting" | "Pending" | "Token")
}

/// Oracle (2): while anything is unsent, unacknowledged or mid-handshake the
/// reported deadline is finite.
fn deadline_oracle<C: Conn>(sim: &mut Sim<C>) {
    for side in 0..2 {
        if sim.sides[side].poisoned {
            continue;
        }
        let c = &sim.sides[side].conn;
        let st = c.state_name();
        let owes = handshaking_with_retransmit(st) || c.unacked() > 0 || c.queued().0 > 0 || c.seq().map(|s| s.2).unwrap_or(false);
        if owes {
            let d = c.needs_tick();
            let finite = matches!(d, Some(t) if t < u64::MAX / 2);
            if !finite {
                let why = if handshaking_with_retransmit(st) { "handshake" } else if c.unacked() > 0 { "unacked" } else { "queued" };
                let v = sim.variant.name();
                sim.finding("deadline", "Connection::needs_tick", &format!("{}|inactive-while-{}|state={}", v, why, st), json!({"side": side, "unacked": c_unacked(sim, side), "state": st}));
            }
        }
    }
}

fn c_unacked<C: Conn>(sim: &Sim<C>, side: usize) -> usize {
    sim.sides[side].conn.unacked()
}

fn settled<C: Conn>(sim: &Sim<C>) -> Result<(), String> {
    if sim.sides[0].ready_seen == 0 {
        return Err("connector-not-ready".into());
    }
    for to in 0..2 {
        let from = 1 - to;
        if sim.sides[to].delivered_vital != sim.sides[from].submitted_vital.len() {
            return Err("vital-undelivered".into());
        }
    }
    for s in 0..2 {
        if sim.sides[s].conn.unacked() != 0 {
            return Err("unacked-left".into());
        }
        if sim.sides[s].conn.queued() != (0, 0) {
            return Err("queued-left".into());
        }
    }
    Ok(())
}

/// The fair suffix. Returns the number of ticks per side.
fn fair_suffix<C: Conn>(sim: &mut Sim<C>, rng: &mut Rng) -> [u32; 2] {
    let mut ticks = [0u32; 2];
    if sim.ended {
        return ticks;
    }
    // faults stop here
    sim.sides[0].cb.fail_sends = 0;
    sim.sides[1].cb.fail_sends = 0;
    let t_end = sim.now() + SUFFIX_US;
    if rng.bool() {
        for s in 0..2 {
            sim.apply(Move::Flush(s));
        }
    }
    let v = sim.variant.name();
    for _ in 0..20_000 {
        if sim.ended {
            return ticks;
        }
        deadline_oracle(sim);
        // FIFO, loss-free: each in-flight datagram is delivered once
        if !sim.wire[0].is_empty() || !sim.wire[1].is_empty() {
            let to = if sim.wire[1].is_empty() { 0 } else if sim.wire[0].is_empty() { 1 } else if sim.wire[0][0].id < sim.wire[1][0].id { 0 } else { 1 };
            sim.apply(Move::Deliver { to, idx: 0 });
            continue;
        }
        if settled(sim).is_ok() {
            return ticks;
        }
        let now = sim.now();
        let mut did = false;
        for s in 0..2 {
            if let Some(t) = sim.sides[s].conn.needs_tick() {
                if t <= now {
                    sim.apply(Move::Tick(s));
                    ticks[s] += 1;
                    did = true;
                    if ticks[s] > MAX_TICKS {
                        sim.finding("tick-storm", "Connection::tick", &format!("{}|more-than-{}-ticks", v, MAX_TICKS), json!({"side": s, "virtual_s": (now + SUFFIX_US - t_end) as f64 / 1e6}));
                        return ticks;
                    }
                }
            }
        }
        if did {
            continue;
        }
        let next = [sim.sides[0].conn.needs_tick(), sim.sides[1].conn.needs_tick()].iter().flatten().min().copied();
        match next {
            Some(t) if t <= t_end => sim.set_now(t),
            _ => {
                let why = settled(sim).err().unwrap_or_default();
                let states = format!("{}/{}", sim.sides[0].conn.state_name(), sim.sides[1].conn.state_name());
                sim.finding("progress", "fair-suffix", &format!("{}|{}|{}", v, why, if next.is_none() { "no-deadline" } else { "deadline-beyond-bound" }),
                    json!({"states": states, "ticks": ticks, "unacked": [c_unacked(sim, 0), c_unacked(sim, 1)],
                           "submitted": [sim.sides[0].submitted_vital.len(), sim.sides[1].submitted_vital.len()],
                           "delivered_to": [sim.sides[0].delivered_vital, sim.sides[1].delivered_vital]}));
                return ticks;
            }
        }
    }
    sim.finding("progress", "fair-suffix", &format!("{}|step-budget", v), json!({"ticks": ticks}));
    ticks
}

fn accepted_max(v: Variant) -> usize {
    match v {
        Variant::V7 => 1390,
        _ => 1023,
    }
}

fn finish_case<C: Conn>(ctx: &mut Ctx, sim: &Sim<C>, kind: &str, ticks: [u32; 2], prefix_moves: usize, extra: serde_json::Value) {
    fold_stats(ctx, sim);
    ctx.max("max_suffix_ticks_per_side", ticks[0].max(ticks[1]) as u64);
    ctx.count("suffix_ticks", (ticks[0] + ticks[1]) as u64);
    let ok = settled(sim).is_ok();
    if ok {
        ctx.count("settled_histories", 1);
    }
    let case_data = json!({"kind": kind, "variant": sim.variant.name(), "prefix_moves": prefix_moves, "params": extra});
    forward_findings(ctx, sim, &OWN, &case_data);
    let total_vital = sim.sides[0].submitted_vital.len() + sim.sides[1].submitted_vital.len();
    let nontrivial = ok && total_vital > 0;
    let mut h = verif_harness::fnv1a(kind.as_bytes());
    for s in &sim.states_seen {
        h ^= *s;
    }
    ctx.case(if nontrivial { Some(h) } else { None });
    if ctx.want_sample() && nontrivial && ctx.samples.iter().filter(|s| s["kind"] == kind).count() < 2 {
        let n = sim.log.len();
        ctx.sample(json!({"kind": kind, "variant": sim.variant.name(), "params": case_data["params"], "prefix_moves": prefix_moves,
            "suffix_ticks": ticks, "total_moves": n, "vital_submitted": total_vital,
            "last_moves": sim.log[n.saturating_sub(15)..].iter().map(|m| m.to_json()).collect::<Vec<_>>()}));
    }
}

fn chaos<C: Conn>(ctx: &mut Ctx, rng: &mut Rng, variant: Variant, moves: usize) {
    let mut hp = HistoryParams::random(rng, variant, moves);
    hp.max_len = accepted_max(variant);
    hp.personality.big_pct = *rng.pick(&[0, 5, 20, 60]);
    if rng.chance(1, 8) {
        // every handshake datagram lost
        hp.personality.loss = 100;
        hp.personality.dup = 0;
    }
    let mut sim: Sim<C> = run_history(rng, &hp, |sim, _| {
        deadline_oracle(sim);
        true
    });
    let prefix = sim.log.len();
    let ticks = fair_suffix(&mut sim, rng);
    finish_case(ctx, &sim, "chaos+fair", ticks, prefix, json!({"personality": hp.personality.to_json()}));
}

/// The largest accepted chunks, with and without queued non-vital data, all
/// lost, so that the resend has to split over 1, 2, 3+ datagrams.
fn largest<C: Conn>(ctx: &mut Ctx, rng: &mut Rng, variant: Variant) {
    let mut sim: Sim<C> = Sim::new(variant, rng.u64());
    if !sim.handshake() {
        finish_case(ctx, &sim, "largest", [0, 0], 0, json!({"handshake": false}));
        return;
    }
    let max = accepted_max(variant);
    let k = rng.range(1, 5) as usize;
    let side = rng.usize_below(2);
    let mut lens = Vec::new();
    for _ in 0..k {
        if rng.chance(1, 3) {
            sim.apply(Move::Send { side, len: rng.usize_below(60), vital: false, fill: rng.u8() });
        }
        let len = max - rng.usize_below(9);
        lens.push(len);
        sim.apply(Move::Send { side, len, vital: true, fill: rng.u8() });
        deadline_oracle(&mut sim);
        if rng.bool() {
            sim.apply(Move::Flush(side));
        }
    }
    // lose everything in flight towards the receiver, maybe also the other way
    while !sim.wire[1 - side].is_empty() {
        sim.apply(Move::Drop { to: 1 - side, idx: 0 });
    }
    if rng.bool() {
        while !sim.wire[side].is_empty() {
            sim.apply(Move::Drop { to: side, idx: 0 });
        }
    }
    if rng.chance(1, 3) {
        sim.apply(Move::Send { side, len: rng.usize_below(60), vital: false, fill: rng.u8() });
    }
    let prefix = sim.log.len();
    let ticks = fair_suffix(&mut sim, rng);
    finish_case(ctx, &sim, "largest", ticks, prefix, json!({"lens": lens, "side": side}));
}

/// Long sessions: more vital chunks than there are sequence numbers (1024), so
/// that the sequence/ack arithmetic wraps at least once in either direction
/// before the faults stop.
fn long_session<C: Conn>(ctx: &mut Ctx, rng: &mut Rng, variant: Variant) {
    let mut sim: Sim<C> = Sim::new(variant, rng.u64());
    if !sim.handshake() {
        finish_case(ctx, &sim, "long", [0, 0], 0, json!({"handshake": false}));
        return;
    }
    let total = *rng.pick(&[1030usize, 1100, 1500, 2100, 3100]);
    let both = rng.bool();
    let loss = *rng.pick(&[0u64, 0, 1, 5]);
    let main_side = rng.usize_below(2);
    let mut sent = 0usize;
    while sent < total && !sim.ended {
        let batch = rng.range(1, 12) as usize;
        for _ in 0..batch {
            let side = if both && rng.chance(1, 3) { 1 - main_side } else { main_side };
            sim.apply(Move::Send { side, len: rng.usize_below(24), vital: true, fill: rng.u8() });
            sent += 1;
        }
        for s in 0..2 {
            sim.apply(Move::Flush(s));
        }
        for to in 0..2 {
            let mut i = 0;
            while i < sim.wire[to].len() {
                if rng.below(100) < loss {
                    sim.apply(Move::Drop { to, idx: i });
                } else {
                    i += 1;
                }
            }
        }
        sim.deliver_all(6);
        if rng.chance(1, 6) {
            sim.apply(Move::Advance(*rng.pick(&[1_000u64, 50_000, 600_000, 1_100_000])));
            for s in 0..2 {
                if matches!(sim.sides[s].conn.needs_tick(), Some(t) if t <= sim.now()) {
                    sim.apply(Move::Tick(s));
                }
            }
            sim.deliver_all(6);
        }
        deadline_oracle(&mut sim);
    }
    let prefix = sim.log.len();
    let ticks = fair_suffix(&mut sim, rng);
    let wrapped = sim.sides[0].delivered_vital.max(sim.sides[1].delivered_vital) >= 1024;
    if wrapped && settled(&sim).is_ok() {
        ctx.count("long_sessions_settled_past_wrap", 1);
    }
    ctx.max("max_vital_delivered_one_direction", sim.sides[0].delivered_vital.max(sim.sides[1].delivered_vital) as u64);
    finish_case(ctx, &sim, "long", ticks, prefix, json!({"total": total, "both": both, "loss": loss, "main_side": main_side}));
}

// ------------------------------------------------------------------ multi-peer endpoint

struct NetCb {
    now_us: u64,
    sent: Vec<(u8, Vec<u8>)>,
    rng: Rng,
    calls: u64,
}

impl libtw2_net::net::Callback<u8> for NetCb {
    type Error = std::convert::Infallible;
    fn secure_random(&mut self, buffer: &mut [u8]) {
        self.rng.fill(buffer);
    }
    fn send(&mut self, addr: u8, data: &[u8]) -> Result<(), Self::Error> {
        self.calls += 1;
        if self.calls > 100_000 {
            panic!("{}", BUDGET_PANIC);
        }
        self.sent.push((addr, data.to_vec()));
        Ok(())
    }
    fn time(&mut self) -> libtw2_net::Timestamp {
        self.calls += 1;
        if self.calls > 100_000 {
            panic!("{}", BUDGET_PANIC);
        }
        libtw2_net::Timestamp::from_usecs_since_epoch(self.now_us)
    }
}

/// The same bounded-progress statement for `Net`: several clients connect to one
/// accepting endpoint over a lossy wire, then faults stop and everybody is
/// ticked at its reported deadline (`Net::needs_tick` for the endpoint).
fn net_progress(ctx: &mut Ctx, rng: &mut Rng) {
    use libtw2_net::net::ChunkOrEvent;
    use libtw2_net::net::PeerId;
    use libtw2_net::Net;
    let k = rng.range(2, 4) as usize;
    let loss = *rng.pick(&[0u64, 20, 50, 100]);
    let prefix = rng.range(10, 120) as usize;
    let mut net: Net<u8> = Net::server();
    let mut ncb = NetCb { now_us: START_US, sent: Vec::new(), rng: Rng::new(rng.u64()), calls: 0 };
    let mut clients: Vec<c6::Connection> = (0..k).map(|_| c6::Connection::new()).collect();
    let mut ccb: Vec<Cb> = (0..k).map(|i| Cb::new(rng.u64() ^ i as u64)).collect();
    let mut to_net: Vec<Vec<Vec<u8>>> = vec![Vec::new(); k];
    let mut to_client: Vec<Vec<Vec<u8>>> = vec![Vec::new(); k];
    let mut pid: Vec<Option<PeerId>> = vec![None; k];
    let mut ready = vec![false; k];
    let mut sub_c = vec![0u32; k]; // vital chunks submitted by client i
    let mut del_c = vec![0u32; k]; // ... delivered to the endpoint
    let mut sub_s = vec![0u32; k];
    let mut del_s = vec![0u32; k];
    let mut ticks = 0u32;
    let params = json!({"clients": k, "loss": loss, "prefix": prefix});
    let r = catch(|| -> Result<(), (String, String, serde_json::Value)> {
        let set_now = |t: u64, ncb: &mut NetCb, ccb: &mut Vec<Cb>| {
            ncb.now_us = t;
            for c in ccb.iter_mut() {
                c.now_us = t;
            }
        };
        // one step of delivery in either direction; `lossy` applies the loss rate
        macro_rules! pump {
            ($lossy:expr) => {{
                let mut moved = false;
                for a in 0..k {
                    while !to_net[a].is_empty() {
                        let d = to_net[a].remove(0);
                        moved = true;
                        if $lossy && rng.below(100) < loss {
                            continue;
                        }
                        ncb.calls = 0;
                        let mut buf = [0u8; 2048];
                        let mut w = verif_harness::Warnings::new();
                        let (it, _res) = net.feed(&mut ncb, &mut w, a as u8, &d, &mut buf[..]);
                        let evs: Vec<(u8, Option<PeerId>, bool)> = it
                            .map(|e| match e {
                                ChunkOrEvent::Connect(p) => (0u8, Some(p), false),
                                ChunkOrEvent::Chunk(c) => (1, Some(c.pid), c.vital),
                                ChunkOrEvent::Disconnect(p, _) => (2, Some(p), false),
                                _ => (3, None, false),
                            })
                            .collect();
                        for (kind, p, vital) in evs {
                            match kind {
                                0 => {
                                    pid[a] = p;
                                    let _ = net.accept(&mut ncb, p.unwrap());
                                }
                                1 if vital => del_c[a] += 1,
                                _ => {}
                            }
                        }
                    }
                    for (addr, d) in std::mem::take(&mut ncb.sent) {
                        to_client[addr as usize].push(d);
                    }
                    while !to_client[a].is_empty() {
                        let d = to_client[a].remove(0);
                        moved = true;
                        if $lossy && rng.below(100) < loss {
                            continue;
                        }
                        ccb[a].calls = 0;
                        let (evs, _) = Conn::feed(&mut clients[a], &mut ccb[a], &d);
                        for e in evs {
                            match e {
                                Event::Ready => ready[a] = true,
                                Event::Chunk(_, true) => del_s[a] += 1,
                                _ => {}
                            }
                        }
                        to_net[a].extend(std::mem::take(&mut ccb[a].sent));
                    }
                }
                moved
            }};
        }
        // ---- chaos prefix
        for step in 0..prefix {
            let a = rng.usize_below(k);
            match rng.below(8) {
                0 | 1 => {
                    if clients[a].verif_state_name() == "Unconnected" {
                        Conn::connect(&mut clients[a], &mut ccb[a]);
                    } else if clients[a].verif_state_name() == "Online" {
                        let d = payload(a, true, sub_c[a], rng.usize_below(300), 1);
                        if Conn::send(&mut clients[a], &mut ccb[a], &d, true).is_ok() {
                            sub_c[a] += 1;
                        }
                        Conn::flush(&mut clients[a], &mut ccb[a]);
                    }
                    to_net[a].extend(std::mem::take(&mut ccb[a].sent));
                }
                2 => {
                    if let Some(p) = pid[a] {
                        if net.verif_peer_state(p) == Some("Online") {
                            let d = payload(9, true, sub_s[a], rng.usize_below(300), 1);
                            ncb.calls = 0;
                            if net.send(&mut ncb, libtw2_net::net::Chunk { pid: p, vital: true, data: &d }).is_ok() {
                                sub_s[a] += 1;
                            }
                            let _ = net.flush(&mut ncb, p);
                        }
                    }
                }
                3 => {
                    let t = ncb.now_us + *rng.pick(&[1_000u64, 100_000, 500_000, 1_000_000]);
                    set_now(t, &mut ncb, &mut ccb);
                }
                4 => {
                    ncb.calls = 0;
                    for e in net.tick(&mut ncb) {
                        match e {}
                    }
                    Conn::tick(&mut clients[a], &mut ccb[a]);
                    to_net[a].extend(std::mem::take(&mut ccb[a].sent));
                }
                _ => {
                    pump!(true);
                }
            }
            let _ = step;
        }
        // every client has at least tried to connect
        for a in 0..k {
            if clients[a].verif_state_name() == "Unconnected" {
                Conn::connect(&mut clients[a], &mut ccb[a]);
                to_net[a].extend(std::mem::take(&mut ccb[a].sent));
            }
        }
        // ---- fair suffix
        let t_end = ncb.now_us + SUFFIX_US;
        for _ in 0..20_000 {
            if pump!(false) {
                continue;
            }
            let settled = (0..k).all(|a| ready[a] && del_c[a] == sub_c[a] && del_s[a] == sub_s[a]);
            if settled {
                return Ok(());
            }
            let now = ncb.now_us;
            let mut did = false;
            if let Some(t) = timeout_us(net.needs_tick()) {
                if t <= now {
                    ncb.calls = 0;
                    for e in net.tick(&mut ncb) {
                        match e {}
                    }
                    ticks += 1;
                    did = true;
                }
            }
            for a in 0..k {
                if let Some(t) = Conn::needs_tick(&clients[a]) {
                    if t <= now {
                        Conn::tick(&mut clients[a], &mut ccb[a]);
                        to_net[a].extend(std::mem::take(&mut ccb[a].sent));
                        did = true;
                    }
                }
            }
            if ticks > MAX_TICKS {
                return Err(("tick-storm".into(), "Net::tick|more-than-200-ticks".into(), json!({"ticks": ticks})));
            }
            if did {
                continue;
            }
            let next = std::iter::once(timeout_us(net.needs_tick())).chain((0..k).map(|a| Conn::needs_tick(&clients[a]))).flatten().min();
            match next {
                Some(t) if t <= t_end => set_now(t, &mut ncb, &mut ccb),
                _ => {
                    let why = if !(0..k).all(|a| ready[a]) { "client-not-ready" } else { "vital-undelivered" };
                    return Err(("progress".into(), format!("Net|{}|{}", why, if next.is_none() { "no-deadline" } else { "deadline-beyond-bound" }), json!({"ready": ready, "submitted_by_clients": sub_c, "delivered_to_endpoint": del_c, "submitted_by_endpoint": sub_s, "delivered_to_clients": del_s})));
                }
            }
        }
        Err(("progress".into(), "Net|step-budget".into(), json!({})))
    });
    ctx.count("net_histories", 1);
    ctx.count("net_suffix_ticks", ticks as u64);
    match r {
        Err(p) => {
            if p.msg.contains(BUDGET_PANIC) {
                ctx.violation("no-return", "Net", "callback-budget", json!({}), json!({"params": params}));
            } else {
                ctx.count("other_clause[panic]", 1);
            }
        }
        Ok(Err((clause, class, detail))) => ctx.violation(&clause, "Net fair-suffix", &class, detail, json!({"params": params})),
        Ok(Ok(())) => ctx.count("net_settled_histories", 1),
    }
    ctx.case(Some(rng.u64()));
}

fn dispatch<F6: FnOnce(&mut Ctx, &mut Rng), F7: FnOnce(&mut Ctx, &mut Rng)>(ctx: &mut Ctx, rng: &mut Rng, v: Variant, f6: F6, f7: F7) {
    if v == Variant::V7 {
        f7(ctx, rng)
    } else {
        f6(ctx, rng)
    }
}

fn main() {
    let mut ctx = Ctx::from_args("C02");
    ctx.rule = "each case = chaos prefix (loss/dup/reorder personality, random application calls, chunk sizes up to the largest accepted: 1023 for 0.6, 1390 for 0.7; 1 in 8 prefixes loses every datagram) followed by the fair suffix; or the 'largest' workload (1-5 vital chunks of size max-8..max, optional queued non-vital data, everything lost, then fair suffix); non-trivial = the history settled and carried at least one vital chunk; distinct = hash of workload kind and visited endpoint-state set".into();
    ctx.assumptions = vec![
        "bounded restatement of liveness: after faults stop, settle within 10 s virtual time and 200 ticks per side (protocol timers: 500 ms send, 1 s resend)".into(),
        "every call returns: at most 100000 Callback invocations inside one API call (logical counter, not wall clock); CPU watchdog as backstop".into(),
        "finite-deadline clause applies to states in which the endpoint owes a retransmission (Connecting/Token/Pending, unacked, queued, pending resend request); a 0.7 acceptor waiting passively for Connect (PendingConnect) is exempt".into(),
        "accepted chunk sizes: those for which send returns Ok".into(),
    ];
    ctx.arm("c02", 1800.0);
    let n = ctx.volume(800, 8_000, 4, 10);
    ctx.run_cases("chaos+fair", n, |ctx, idx, rng| {
        let v = Variant::all()[(idx % 3) as usize];
        let moves = match ctx.tier {
            Tier::Miri => 60,
            _ => *rng.pick(&[0usize, 5, 20, 100, 300, 1000]),
        };
        dispatch(ctx, rng, v, |c, r| chaos::<c6::Connection>(c, r, v, moves), |c, r| chaos::<c7::Connection>(c, r, v, moves));
    });
    let n = ctx.volume(400, 5_000, 4, 10);
    ctx.run_cases("largest", n, |ctx, idx, rng| {
        let v = Variant::all()[(idx % 3) as usize];
        dispatch(ctx, rng, v, |c, r| largest::<c6::Connection>(c, r, v), |c, r| largest::<c7::Connection>(c, r, v));
    });
    let n = ctx.volume(6, 60, 0, 0);
    ctx.run_cases("long", n, |ctx, idx, rng| {
        let v = Variant::all()[(idx % 3) as usize];
        dispatch(ctx, rng, v, |c, r| long_session::<c6::Connection>(c, r, v), |c, r| long_session::<c7::Connection>(c, r, v));
    });
    let n = ctx.volume(150, 3_000, 1, 5);
    ctx.run_cases("net", n, |ctx, _idx, rng| net_progress(ctx, rng));
    ctx.disarm();
    ctx.finish();
}
