//! C10 — a snapshot survives serialization, including UUID-typed items.
//!
//! Builder-made snapshots (ordinal and UUID types interleaved) are written to
//! bytes and ints, read back, and also obtained by applying a delta. The copy
//! must be indistinguishable through the public API: same item enumeration,
//! same lookup result for every original (type, id) — ordinal and UUID —, same
//! checksum; `recycle` must yield a builder that still knows the UUID types.

use libtw2_gamenet_common::snap_obj::TypeId;
use libtw2_packer::with_packer;
use libtw2_snapshot::snap::Builder;
use libtw2_snapshot::snap::Delta;
use libtw2_snapshot::Snap;
use serde_json::json;
use uuid::Uuid;
use verif_harness::catch;
use verif_harness::Ctx;
use verif_harness::Rng;
use verif_harness::Warnings;

use verif_harness::snapgen::{build_typed as build, gen_typed, typed_json, Typed};

/// Is `copy` indistinguishable from what the model says?
fn indistinguishable_reg(copy: &Snap, m: &Typed, absent: &[(TypeId, u16)], maybe_registered: &[Uuid]) -> Result<(), (String, String)> {
    let enumerated: Typed = copy.items().map(|i| ((i.type_id, i.id), i.data.to_vec())).collect();
    let n_enum = copy.items().count();
    if n_enum != enumerated.len() {
        return Err(("items-enumerates-duplicates".into(), format!("{} vs {}", n_enum, enumerated.len())));
    }
    if copy.items().len() != n_enum {
        return Err(("items-len-wrong".into(), format!("{} vs {}", copy.items().len(), n_enum)));
    }
    if &enumerated != m {
        let missing = m.keys().find(|k| !enumerated.contains_key(k));
        let kind = match missing {
            Some((TypeId::Uuid(_), _)) => "uuid-item-missing",
            Some(_) => "ordinal-item-missing",
            None => "data-or-extra",
        };
        return Err((format!("items-differ|{}", kind), format!("{} vs {} items", enumerated.len(), m.len())));
    }
    for (k, d) in m {
        match copy.item(k.0, k.1) {
            Some(x) if x == &d[..] => {}
            other => {
                let kind = if matches!(k.0, TypeId::Uuid(_)) { "uuid" } else { "ordinal" };
                return Err((format!("lookup-{}|{}", kind, if other.is_none() { "none" } else { "wrong-data" }), format!("{:?}", k)));
            }
        }
    }
    for k in absent {
        if !m.contains_key(k) && copy.item(k.0, k.1).is_some() {
            return Err(("lookup-absent-key-found".into(), format!("{:?}", k)));
        }
    }
    let crc = m.values().flat_map(|d| d.iter()).fold(0i32, |s, &a| s.wrapping_add(a));
    // registry items contribute their UUID words to the checksum
    let mut uu: Vec<Uuid> = m.keys().filter_map(|k| if let TypeId::Uuid(u) = k.0 { Some(u) } else { None }).collect();
    uu.sort();
    uu.dedup();
    let reg = uu.iter().flat_map(|u| libtw2_snapshot::format::uuid_to_item_data(*u)).fold(0i32, |s, a| s.wrapping_add(a));
    // A UUID type whose registry item was accepted while its first item was
    // refused is registered without having items: any subset of `maybe_registered`
    // may contribute its registry words.
    let extra: Vec<i32> = maybe_registered.iter().filter(|u| !uu.contains(u)).map(|u| libtw2_snapshot::format::uuid_to_item_data(*u).iter().fold(0i32, |s, a| s.wrapping_add(*a))).collect();
    let ok = (0..1u32 << extra.len().min(12)).any(|mask| {
        let e = extra.iter().enumerate().filter(|(i, _)| mask >> i & 1 == 1).fold(0i32, |s, (_, a)| s.wrapping_add(*a));
        copy.crc() == crc.wrapping_add(reg).wrapping_add(e)
    });
    if !ok {
        return Err(("crc".into(), format!("{} vs {}", copy.crc(), crc.wrapping_add(reg))));
    }
    Ok(())
}

fn indistinguishable(copy: &Snap, m: &Typed, absent: &[(TypeId, u16)]) -> Result<(), (String, String)> {
    indistinguishable_reg(copy, m, absent, &[])
}

fn one(ctx: &mut Ctx, rng: &mut Rng) {
    let (m, order) = gen_typed(rng);
    let nuuid = m.keys().filter(|k| matches!(k.0, TypeId::Uuid(_))).map(|k| k.0).collect::<std::collections::BTreeSet<_>>().len();
    let case = json!({"items": typed_json(&m), "uuid_types": nuuid});
    let class = format!("uuid-types={}", match nuuid {
        0 => "0",
        1 => "1",
        _ => ">=2",
    });
    let absent: Vec<(TypeId, u16)> = (0..8).map(|_| (if rng.bool() { TypeId::Ordinal(rng.range(1, 0x3fff) as u16) } else { order.first().map(|k| k.0).unwrap_or(TypeId::Ordinal(1)) }, rng.below(0x10000) as u16)).collect();
    let r = catch(|| -> Result<(), (String, String, String)> {
        fn st(s: &'static str) -> impl Fn((String, String)) -> (String, String, String) {
            move |e| (s.to_string(), e.0, e.1)
        }
        let orig = build(&order, &m, Builder::new()).map_err(|e| ("build".to_string(), "builder-refused".to_string(), e))?;
        indistinguishable(&orig, &m, &absent).map_err(st("original"))?;
        // bytes
        let mut buf = Vec::new();
        let mut bytes: Vec<u8> = Vec::with_capacity(400_000);
        with_packer(&mut bytes, |p| orig.write(&mut buf, p).map(|_| ())).map_err(|_| ("write-bytes".to_string(), "capacity".to_string(), String::new()))?;
        let mut copy = Snap::empty();
        let mut w = Warnings::new();
        let mut tmp = Vec::new();
        copy.read(&mut w, &mut tmp, &bytes).map_err(|e| ("read-bytes".to_string(), format!("{:?}", e), String::new()))?;
        if !w.is_empty() {
            return Err(("read-bytes".into(), "warning".into(), format!("{:?}", w.0)));
        }
        indistinguishable(&copy, &m, &absent).map_err(st("after-bytes"))?;
        // ints
        let mut ints = vec![0i32; 17_000];
        let n = orig.write_to_ints(&mut buf, &mut ints).map_err(|_| ("write-ints".to_string(), "capacity".to_string(), String::new()))?.len();
        let mut copy2 = Snap::empty();
        let mut w = Warnings::new();
        copy2.read_from_ints(&mut w, &ints[..n]).map_err(|e| ("read-ints".to_string(), format!("{:?}", e), String::new()))?;
        if !w.is_empty() {
            return Err(("read-ints".into(), "warning".into(), format!("{:?}", w.0)));
        }
        indistinguishable(&copy2, &m, &absent).map_err(st("after-ints"))?;
        // delta: from the empty snapshot and from a predecessor
        let mut delta = Delta::new();
        let empty = Snap::empty();
        delta.create(&empty, &orig);
        let mut copy3 = Snap::empty();
        let mut w = Warnings::new();
        copy3.read_with_delta(&mut w, &empty, &delta).map_err(|e| ("delta-from-empty".to_string(), format!("{:?}", e), String::new()))?;
        indistinguishable(&copy3, &m, &absent).map_err(st("after-delta-from-empty"))?;
        // predecessor: a subset of the items with changed data, built through a recycled builder of the *copy*
        let keep: Vec<(TypeId, u16)> = order.iter().filter(|_| rng.chance(2, 3)).cloned().collect();
        let mut pm = Typed::new();
        for k in &keep {
            pm.insert(*k, m[k].iter().map(|v| v.wrapping_add(1)).collect());
        }
        let pred = build(&keep, &pm, Builder::new()).map_err(|e| ("build-pred".to_string(), "builder-refused".to_string(), e))?;
        // the delta is only defined when the UUID type numbering agrees; build the successor by recycling the predecessor
        let succ = build(&order, &m, pred.clone().recycle()).map_err(|e| ("build-succ".to_string(), "builder-refused".to_string(), e))?;
        indistinguishable(&succ, &m, &absent).map_err(st("recycled-successor"))?;
        delta.create(&pred, &succ);
        let mut copy4 = Snap::empty();
        copy4.read_with_delta(&mut w, &pred, &delta).map_err(|e| ("delta-from-pred".to_string(), format!("{:?}", e), String::new()))?;
        if !w.is_empty() {
            return Err(("delta".into(), "warning".into(), format!("{:?}", w.0)));
        }
        indistinguishable(&copy4, &m, &absent).map_err(st("after-delta-from-pred"))?;
        // destination objects are reused (Storage's free list, the demo reader's snapshot pair):
        // read a second, unrelated snapshot into Snap objects that already hold this one
        {
            let (m2, order2) = gen_typed(rng);
            let s2 = build(&order2, &m2, Builder::new()).map_err(|e| ("build-second".to_string(), "builder-refused".to_string(), e))?;
            let mut bytes2: Vec<u8> = Vec::with_capacity(400_000);
            with_packer(&mut bytes2, |p| s2.write(&mut buf, p).map(|_| ())).map_err(|_| ("write-second".to_string(), "capacity".to_string(), String::new()))?;
            let mut w2 = Warnings::new();
            // `copy` holds the first snapshot (read from bytes), `copy2` the same (read from ints), `copy3` from a delta
            copy.read(&mut w2, &mut tmp, &bytes2).map_err(|e| ("reused-destination-read-bytes".to_string(), format!("{:?}", e), String::new()))?;
            indistinguishable(&copy, &m2, &absent).map_err(st("reused-destination-after-bytes"))?;
            let n2 = s2.write_to_ints(&mut buf, &mut ints).map_err(|_| ("write-second-ints".to_string(), "capacity".to_string(), String::new()))?.len();
            copy2.read_from_ints(&mut w2, &ints[..n2]).map_err(|e| ("reused-destination-read-ints".to_string(), format!("{:?}", e), String::new()))?;
            indistinguishable(&copy2, &m2, &absent).map_err(st("reused-destination-after-ints"))?;
            delta.create(&empty, &s2);
            copy3.read_with_delta(&mut w2, &empty, &delta).map_err(|e| ("reused-destination-delta".to_string(), format!("{:?}", e), String::new()))?;
            indistinguishable(&copy3, &m2, &absent).map_err(st("reused-destination-after-delta"))?;
            // and back again to the first one, then to the empty snapshot
            copy3.read(&mut w2, &mut tmp, &bytes).map_err(|e| ("reused-destination-read-bytes".to_string(), format!("{:?}", e), String::new()))?;
            indistinguishable(&copy3, &m, &absent).map_err(st("reused-destination-back-to-first"))?;
            copy3.read_from_ints(&mut w2, &[0, 0]).map_err(|e| ("reused-destination-read-empty".to_string(), format!("{:?}", e), String::new()))?;
            indistinguishable(&copy3, &Typed::new(), &absent).map_err(st("reused-destination-after-empty"))?;
            if !w2.is_empty() {
                return Err(("reused-destination".into(), "warning".into(), format!("{:?}", w2.0)));
            }
            // restore for the steps below
            copy.read(&mut w2, &mut tmp, &bytes).map_err(|e| ("reused-destination-read-bytes".to_string(), format!("{:?}", e), String::new()))?;
        }
        // a refused item (over the 64 KiB / 1024-item limits) must leave the builder usable:
        // the finished snapshot holds exactly the accepted items and still survives the wire
        {
            let mut b = Builder::new();
            for k in &order {
                b.add_item(k.0, k.1, &m[k]).map_err(|e| ("refusal-probe".to_string(), "builder-refused".to_string(), format!("{:?}", e)))?;
            }
            let huge = vec![7i32; 17_000];
            let _ = cfg!(miri);
            let mut probe_id = 0u16;
            while m.contains_key(&(TypeId::Ordinal(1), probe_id)) {
                probe_id += 1;
            }
            if b.add_item(TypeId::Ordinal(1), probe_id, &huge).is_ok() {
                return Err(("refusal-probe".into(), "item-over-64KiB-accepted".into(), String::new()));
            }
            let total_items = m.len() + m.keys().filter_map(|k| if let TypeId::Uuid(u) = k.0 { Some(u) } else { None }).collect::<std::collections::BTreeSet<_>>().len();
            if total_items == 1024 && b.add_item(TypeId::Ordinal(1), probe_id, &[1]).is_ok() {
                return Err(("refusal-probe".into(), "item-1025-accepted".into(), String::new()));
            }
            let after = b.finish();
            indistinguishable(&after, &m, &absent).map_err(st("after-refused-item"))?;
            let mut bytes2: Vec<u8> = Vec::with_capacity(400_000);
            with_packer(&mut bytes2, |p| after.write(&mut buf, p).map(|_| ())).map_err(|_| ("after-refused-item".to_string(), "write-capacity".to_string(), String::new()))?;
            let mut c5 = Snap::empty();
            let mut w5 = Warnings::new();
            c5.read(&mut w5, &mut tmp, &bytes2).map_err(|e| ("after-refused-item".to_string(), format!("reread:{:?}", e), String::new()))?;
            indistinguishable(&c5, &m, &absent).map_err(st("after-refused-item-reread"))?;
        }
        // recycle the wire copy: the builder still knows the UUID types
        let b = copy.recycle();
        let mut m2 = Typed::new();
        let mut order2 = Vec::new();
        let mut types: Vec<TypeId> = m.keys().map(|k| k.0).collect();
        types.sort();
        types.dedup();
        for (i, t) in types.iter().enumerate() {
            if order2.len() + 2 * types.len() < 1000 {
                m2.insert((*t, i as u16), vec![i as i32]);
                order2.push((*t, i as u16));
            }
        }
        let again = build(&order2, &m2, b).map_err(|e| ("recycle-build".to_string(), "builder-refused".to_string(), e))?;
        indistinguishable(&again, &m2, &[]).map_err(st("recycled-from-wire-copy"))?;
        // exactly one registry item per UUID: serialise and count type-0 items
        let mut ints2 = vec![0i32; 17_000];
        let n2 = again.write_to_ints(&mut buf, &mut ints2).map_err(|_| ("recycle-write".to_string(), "capacity".to_string(), String::new()))?.len();
        let num_items = ints2[1] as usize;
        let nu = types.iter().filter(|t| matches!(t, TypeId::Uuid(_))).count();
        let used_uuid = order2.iter().filter(|k| matches!(k.0, TypeId::Uuid(_))).count();
        let _ = n2;
        if used_uuid == nu && num_items != order2.len() + nu {
            return Err(("recycled-from-wire-copy".into(), "registry-item-count".into(), format!("{} items, expected {} + {}", num_items, order2.len(), nu)));
        }
        Ok(())
    });
    ctx.count("snapshots", 1);
    ctx.count(&format!("snapshots[{}]", class), 1);
    ctx.max("max_items", m.len() as u64);
    ctx.max("max_uuid_types", nuuid as u64);
    match r {
        Err(p) => ctx.panic_violation("Snap round trip", &class, &p, case),
        Ok(Err((stage, what, detail))) => ctx.violation("indistinguishable", &stage, &format!("{}|{}", what, class), json!({"detail": detail}), case),
        Ok(Ok(())) => {}
    }
    ctx.case(if m.is_empty() { None } else { Some(verif_harness::fnv1a(format!("{:?}", m).as_bytes())) });
    if ctx.want_sample() && m.len() >= 2 && m.len() <= 6 && nuuid >= 1 {
        ctx.sample(json!({"items": m.iter().map(|(k, d)| json!([format!("{:?}", k.0), k.1, d])).collect::<Vec<_>>()}));
    }
}

/// A builder filled right up to one of its limits, then a burst of further
/// `add_item` calls around the boundary (new UUID types whose registry item may
/// or may not fit, the same UUID again with a smaller item, ordinal items that
/// fit exactly / by one word not). Whatever `add_item` answered `Ok` for, and
/// nothing else, must be in the finished snapshot, and it must survive the wire.
fn full_builder(ctx: &mut Ctx, rng: &mut Rng) {
    let by_count = rng.bool();
    let mut m = Typed::new();
    let mut refused = 0u64;
    let mut accepted_after_refusal = 0u64;
    let mut absent: Vec<(TypeId, u16)> = Vec::new();
    let slack_words = rng.usize_below(14);
    let r = catch(|| -> Result<(), (String, String, String)> {
        fn st(s: &'static str) -> impl Fn((String, String)) -> (String, String, String) {
            move |e| (s.to_string(), e.0, e.1)
        }
        let mut b = Builder::new();
        let nuuid0 = rng.usize_below(3);
        let uu: Vec<Uuid> = (0..nuuid0 + 3).map(|_| { let mut x = [0u8; 16]; rng.fill(&mut x); Uuid::from_bytes(x) }).collect();
        let mut next_id = 0u16;
        let add = |b: &mut Builder, m: &mut Typed, t: TypeId, id: u16, len: usize, rng: &mut Rng| -> bool {
            let d: Vec<i32> = (0..len).map(|_| rng.i32()).collect();
            match b.add_item(t, id, &d) {
                Ok(()) => { m.insert((t, id), d); true }
                Err(_) => false,
            }
        };
        // fill: bytes = 4 * (2 + 2 * items + words)
        let mut items = 0usize;
        let mut words = 0usize;
        for u in &uu[..nuuid0] {
            if add(&mut b, &mut m, TypeId::Uuid(*u), next_id, 2, rng) { items += 2; words += 6; }
            next_id += 1;
        }
        if by_count {
            let target = 1024 - rng.usize_below(4);
            while items < target {
                if add(&mut b, &mut m, TypeId::Ordinal(1 + rng.below(5) as u16), next_id, rng.usize_below(3), rng) { items += 1; }
                next_id += 1;
            }
        } else {
            let budget = 65536 / 4 - 2; // words for items: 2 per item + data
            loop {
                let used = 2 * items + words;
                let free = budget - used;
                if free <= slack_words + 2 {
                    break;
                }
                let len = (free - 2 - slack_words).min(rng.range(200, 2000) as usize);
                if !add(&mut b, &mut m, TypeId::Ordinal(1 + rng.below(5) as u16), next_id, len, rng) {
                    return Err(("full-builder".into(), "fitting-item-refused-while-filling".into(), format!("items {} words {} len {}", items, words, len)));
                }
                items += 1;
                words += len;
                next_id += 1;
            }
        }
        // burst around the boundary
        let mut seen_refusal = false;
        for _ in 0..rng.range(4, 12) {
            let t = match rng.below(3) {
                0 => TypeId::Ordinal(1 + rng.below(5) as u16),
                _ => TypeId::Uuid(*rng.pick(&uu)),
            };
            let len = rng.usize_below(8);
            let id = next_id;
            next_id += 1;
            if add(&mut b, &mut m, t, id, len, rng) {
                if seen_refusal {
                    accepted_after_refusal += 1;
                }
            } else {
                refused += 1;
                seen_refusal = true;
                absent.push((t, id));
            }
        }
        let snap = b.finish();
        indistinguishable_reg(&snap, &m, &absent, &uu).map_err(st("full-builder"))?;
        let mut buf = Vec::new();
        let mut bytes: Vec<u8> = Vec::with_capacity(400_000);
        with_packer(&mut bytes, |p| snap.write(&mut buf, p).map(|_| ())).map_err(|_| ("full-builder".to_string(), "write-capacity".to_string(), String::new()))?;
        let mut copy = Snap::empty();
        let mut w = Warnings::new();
        let mut tmp = Vec::new();
        copy.read(&mut w, &mut tmp, &bytes).map_err(|e| ("full-builder".to_string(), format!("reread:{:?}", e), String::new()))?;
        indistinguishable_reg(&copy, &m, &absent, &uu).map_err(st("full-builder-reread"))?;
        if copy.crc() != snap.crc() {
            return Err(("full-builder-reread".into(), "crc-changed-on-the-wire".into(), String::new()));
        }
        if !w.is_empty() {
            return Err(("full-builder-reread".into(), "warning".into(), format!("{:?}", w.0)));
        }
        // ints form and the delta from empty
        let mut ints = vec![0i32; 17_000];
        let n = snap.write_to_ints(&mut buf, &mut ints).map_err(|_| ("full-builder".to_string(), "write-ints-capacity".to_string(), String::new()))?.len();
        let mut copy2 = Snap::empty();
        copy2.read_from_ints(&mut w, &ints[..n]).map_err(|e| ("full-builder".to_string(), format!("reread-ints:{:?}", e), String::new()))?;
        indistinguishable_reg(&copy2, &m, &absent, &uu).map_err(st("full-builder-reread-ints"))?;
        let mut d = Delta::new();
        d.create(&Snap::empty(), &snap);
        let mut copy3 = Snap::empty();
        copy3.read_with_delta(&mut w, &Snap::empty(), &d).map_err(|e| ("full-builder".to_string(), format!("delta-from-empty:{:?}", e), String::new()))?;
        indistinguishable_reg(&copy3, &m, &absent, &uu).map_err(st("full-builder-delta-from-empty"))?;
        // a recycled builder carries on with the same types
        let mut b2 = snap.recycle();
        let mut m2 = Typed::new();
        for (i, u) in uu.iter().enumerate() {
            let dd = vec![i as i32];
            if b2.add_item(TypeId::Uuid(*u), i as u16, &dd).is_ok() {
                m2.insert((TypeId::Uuid(*u), i as u16), dd);
            }
        }
        let s2 = b2.finish();
        indistinguishable_reg(&s2, &m2, &[], &uu).map_err(st("full-builder-recycled"))?;
        Ok(())
    });
    let class = if by_count { "item-limit" } else { "size-limit" };
    ctx.count(&format!("full_builders[{}]", class), 1);
    ctx.count("full_builder_refusals", refused);
    ctx.count("full_builder_accepts_after_refusal", accepted_after_refusal);
    let case = json!({"full_builder": class, "slack_words": slack_words, "items": m.len()});
    match r {
        Err(p) => ctx.panic_violation("Snap round trip", &format!("full-builder|{}", class), &p, case),
        Ok(Err((stage, what, detail))) => ctx.violation("indistinguishable", &stage, &format!("{}|{}", what, class), json!({"detail": detail}), case),
        Ok(Ok(())) => {}
    }
    ctx.case(Some(rng.u64()));
}

fn main() {
    let mut ctx = Ctx::from_args("C10");
    ctx.rule = "builder-made snapshots with 0..1024 items, 0..40 UUID types interleaved with ordinal ones, ids over 0..65535, item lengths 0..2000 words up to the 64 KiB limit; each is written to bytes and ints and read back, rebuilt from deltas (from empty and from a predecessor through a recycled builder), and the wire copy is recycled; non-trivial = at least one item; distinct = hash of the item map".into();
    ctx.assumptions = vec!["the predecessor/successor pair for the delta path is built through recycle so that both snapshots number their UUID types alike (what Storage::new_builder does)".into()];
    ctx.arm("c10", 1800.0);
    let n = ctx.volume(2_500, 60_000, 3, 100);
    ctx.run_cases("roundtrip", n, |ctx, _i, rng| one(ctx, rng));
    let n = ctx.volume(300, 6_000, 1, 20);
    ctx.run_cases("full-builder", n, |ctx, _i, rng| full_builder(ctx, rng));
    ctx.disarm();
    ctx.finish();
}
