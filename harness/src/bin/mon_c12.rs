//! C12 — multi-part snapshot transfer reassembles exactly once.
//!
//! Transfers (tick, base tick, checksum, data) are split into snapshot messages
//! by the library's splitter or by an independent 900-byte splitter and fed to a
//! real DeltaReceiver in every permutation with every single duplication (few
//! parts) or PRNG permutations/duplications (many parts), interleaved with
//! parts of older and newer ticks. A small model of the statement decides for
//! each call whether it may, must or must not hand out data.

use libtw2_gamenet_snap as msg;
use libtw2_gamenet_snap::SnapMsg;
use libtw2_snapshot::snap::delta_chunks;
use libtw2_snapshot::DeltaReceiver;
use serde_json::json;
use std::collections::BTreeSet;
use verif_harness::catch;
use verif_harness::Ctx;
use verif_harness::Rng;
use verif_harness::Tier;
use verif_harness::Warnings;

#[derive(Clone, Debug)]
struct Transfer {
    tick: i32,
    base: i32,
    crc: i32,
    data: Vec<u8>,
    /// use the multi-part message form even for a single part
    force_multi: bool,
}

#[derive(Clone, Debug)]
enum Msg {
    Empty { tick: i32, rel: i32 },
    Single { tick: i32, rel: i32, crc: i32, data: Vec<u8> },
    Part { tick: i32, rel: i32, crc: i32, num_parts: i32, part: i32, data: Vec<u8> },
}

impl Msg {
    fn tick(&self) -> i32 {
        match self {
            Msg::Empty { tick, .. } | Msg::Single { tick, .. } | Msg::Part { tick, .. } => *tick,
        }
    }
    fn part(&self) -> (i32, i32) {
        match self {
            Msg::Part { part, num_parts, .. } => (*part, *num_parts),
            _ => (0, 1),
        }
    }
    fn to_json(&self) -> serde_json::Value {
        match self {
            Msg::Empty { tick, rel } => json!({"empty": tick, "rel": rel}),
            Msg::Single { tick, rel, data, .. } => json!({"single": tick, "rel": rel, "len": data.len()}),
            Msg::Part { tick, rel, num_parts, part, data, .. } => json!({"tick": tick, "rel": rel, "part": part, "of": num_parts, "len": data.len()}),
        }
    }
}

/// Independent splitter: 900-byte parts, empty / single / multi message forms.
fn split_own(t: &Transfer) -> Vec<Msg> {
    let rel = t.tick.wrapping_sub(t.base);
    if t.data.is_empty() && !t.force_multi {
        return vec![Msg::Empty { tick: t.tick, rel }];
    }
    let n = (t.data.len() + 899) / 900;
    if n <= 1 && !t.force_multi {
        return vec![Msg::Single { tick: t.tick, rel, crc: t.crc, data: t.data.clone() }];
    }
    let n = n.max(1);
    (0..n)
        .map(|i| Msg::Part { tick: t.tick, rel, crc: t.crc, num_parts: n as i32, part: i as i32, data: t.data[i * 900..((i + 1) * 900).min(t.data.len())].to_vec() })
        .collect()
}

/// The library's splitter (only where tick - base is representable).
fn split_lib(t: &Transfer) -> Option<Vec<Msg>> {
    t.tick.checked_sub(t.base)?;
    let r = catch(|| {
        delta_chunks(t.tick, t.base, &t.data, t.crc)
            .map(|m| match m {
                SnapMsg::SnapEmpty(e) => Msg::Empty { tick: e.tick, rel: e.delta_tick },
                SnapMsg::SnapSingle(s) => Msg::Single { tick: s.tick, rel: s.delta_tick, crc: s.crc, data: s.data.to_vec() },
                SnapMsg::Snap(s) => Msg::Part { tick: s.tick, rel: s.delta_tick, crc: s.crc, num_parts: s.num_parts, part: s.part, data: s.data.to_vec() },
            })
            .collect::<Vec<_>>()
    });
    r.ok()
}

#[derive(Debug, PartialEq)]
enum Got {
    Some { tick: i32, base: i32, data: Option<(Vec<u8>, i32)> },
    None,
    Err(String),
}

fn feed(r: &mut DeltaReceiver, w: &mut Warnings, m: &Msg) -> Got {
    let res = match m {
        Msg::Empty { tick, rel } => r.snap_empty(w, msg::SnapEmpty { tick: *tick, delta_tick: *rel }),
        Msg::Single { tick, rel, crc, data } => r.snap_single(w, msg::SnapSingle { tick: *tick, delta_tick: *rel, crc: *crc, data }),
        Msg::Part { tick, rel, crc, num_parts, part, data } => r.snap(w, msg::Snap { tick: *tick, delta_tick: *rel, num_parts: *num_parts, part: *part, crc: *crc, data }),
    };
    match res {
        Ok(Some(d)) => Got::Some { tick: d.tick, base: d.delta_tick, data: d.data_and_crc.map(|(b, c)| (b.to_vec(), c)) },
        Ok(None) => Got::None,
        Err(e) => Got::Err(format!("{:?}", e)),
    }
}

/// Schedule entry that stands for a call of `DeltaReceiver::reset`.
const RESET: usize = usize::MAX;

/// Runs a schedule against the real receiver and the model. `schedule` refers
/// to (transfer index, message index).
fn run_schedule(ctx: &mut Ctx, transfers: &[Transfer], msgs: &[Vec<Msg>], schedule: &[(usize, usize)], kind: &str) {
    let mut r = DeltaReceiver::new();
    let mut newest: Option<i32> = None;
    let mut seen: BTreeSet<i32> = BTreeSet::new();
    let mut done = false;
    let case = || json!({"kind": kind, "transfers": transfers.iter().map(|t| json!({"tick": t.tick, "base": t.base, "crc": t.crc, "len": t.data.len(), "force_multi": t.force_multi})).collect::<Vec<_>>(),
        "schedule": schedule.iter().map(|(ti, mi)| if *ti == RESET { json!("reset") } else { msgs[*ti][*mi].to_json() }).collect::<Vec<_>>()});
    let nparts_class = |n: usize| if n <= 1 { "1-part" } else if n <= 5 { "2..5-parts" } else { ">5-parts" };
    let mut somes = vec![0u32; transfers.len()];
    for (step, &(ti, mi)) in schedule.iter().enumerate() {
        if ti == RESET {
            // DeltaReceiver::reset: afterwards the receiver behaves like a new one
            if let Err(p) = catch(|| r.reset()) {
                ctx.panic_violation("DeltaReceiver::reset", kind, &p, case());
                return;
            }
            ctx.count("resets", 1);
            newest = None;
            seen.clear();
            done = false;
            continue;
        }
        let m = &msgs[ti][mi];
        let t = &transfers[ti];
        let mut w = Warnings::new();
        let got = match catch(|| feed(&mut r, &mut w, m)) {
            Ok(g) => g,
            Err(p) => {
                ctx.panic_violation("DeltaReceiver::snap*", kind, &p, case());
                return;
            }
        };
        ctx.count("messages_fed", 1);
        // model
        let (part, n) = m.part();
        let tick = m.tick();
        let expect_some;
        if newest.map(|nw| tick < nw).unwrap_or(false) {
            expect_some = false;
            ctx.count("stale_messages", 1);
        } else if newest == Some(tick) {
            if done || seen.contains(&part) {
                expect_some = false;
                ctx.count("duplicate_messages", 1);
            } else {
                seen.insert(part);
                expect_some = seen.len() as i32 == n;
            }
        } else {
            newest = Some(tick);
            seen.clear();
            seen.insert(part);
            done = false;
            expect_some = n == 1;
        }
        let class = format!("{}|{}", kind, nparts_class(msgs[ti].len()));
        match (&got, expect_some) {
            (Got::Some { tick: gt, base, data }, true) => {
                done = true;
                somes[ti] += 1;
                let want_data = if matches!(m, Msg::Empty { .. }) { None } else { Some((t.data.clone(), t.crc)) };
                if *gt != t.tick || *base != t.base || *data != want_data {
                    let what = if *gt != t.tick { "tick" } else if *base != t.base { "base-tick" } else if data.as_ref().map(|d| d.1) != want_data.as_ref().map(|d| d.1) { "crc" } else { "data" };
                    ctx.violation("reassembly", "DeltaReceiver::snap*", &format!("{}|wrong-{}", class, what), json!({"step": step, "got_tick": gt, "got_base": base, "got_len": data.as_ref().map(|d| d.0.len())}), case());
                    return;
                }
                ctx.count("completed_transfers", 1);
            }
            (Got::Some { .. }, false) => {
                let why = if newest.map(|nw| tick < nw).unwrap_or(false) { "older-tick-completed" } else { "handed-out-again-or-early" };
                ctx.violation("exactly-once", "DeltaReceiver::snap*", &format!("{}|{}", class, why), json!({"step": step}), case());
                return;
            }
            (other, true) => {
                ctx.violation("exactly-once", "DeltaReceiver::snap*", &format!("{}|complete-but-not-handed-out", class), json!({"step": step, "got": format!("{:?}", other)}), case());
                return;
            }
            (_, false) => {}
        }
        if !w.is_empty() {
            let mut ws = w.0.clone();
            ws.sort();
            ws.dedup();
            ctx.violation("warning", "DeltaReceiver::snap*", &format!("{}|{}", class, ws.join("+")), json!({"step": step, "message": m.to_json()}), case());
            return;
        }
    }
}

fn gen_transfer(rng: &mut Rng, tick: i32, maxparts: usize) -> Transfer {
    let len = match rng.below(8) {
        0 => 0,
        1 => 1,
        2 => *rng.pick(&[899usize, 900, 901, 1799, 1800, 1801]),
        3 => 900 * rng.range(1, maxparts as i64) as usize,
        4 => 900 * rng.range(1, maxparts as i64) as usize - rng.range(0, 899) as usize,
        5 => 900 * maxparts,
        _ => rng.usize_below(900 * maxparts + 1),
    }
    .min(900 * maxparts);
    let base = match rng.below(8) {
        0 => 0,
        1 => 1,
        2 => 2,
        3 => i32::MAX,
        4 => i32::MIN,
        5 => tick.wrapping_sub(1),
        6 => tick,
        _ => rng.i32(),
    };
    Transfer { tick, base, crc: rng.i32(), data: rng.bytes(len), force_multi: rng.chance(1, 6) }
}

fn next_tick(rng: &mut Rng, t: i32) -> Option<i32> {
    if t < i32::MAX && rng.chance(1, 12) {
        // the last tick there is
        return Some(if rng.bool() || t == i32::MAX - 1 { i32::MAX } else { i32::MAX - 1 });
    }
    t.checked_add(*rng.pick(&[1, 1, 2, 3, 50, 100_000]))
}

fn start_tick(rng: &mut Rng) -> i32 {
    match rng.below(10) {
        0 => 0,
        1 => 1,
        2 => 2,
        3 => i32::MIN,
        4 => i32::MAX - 300_000,
        5 => -1,
        6 => i32::MAX,
        7 => i32::MAX - 1,
        8 => i32::MIN + 1,
        _ => rng.range(i32::MIN as i64, i32::MAX as i64 - 1_000_000) as i32,
    }
}

fn split(ctx: &mut Ctx, rng: &mut Rng, t: &Transfer) -> Vec<Msg> {
    if !t.force_multi && rng.bool() {
        if let Some(m) = split_lib(t) {
            ctx.count("split_by_library", 1);
            // both splitters must agree on the parts
            let own = split_own(t);
            if m.len() != own.len() || m.iter().zip(&own).any(|(a, b)| a.to_json() != b.to_json()) {
                ctx.violation("reassembly", "delta_chunks", "library-split-differs-from-900-byte-split", json!({"tick": t.tick, "base": t.base, "len": t.data.len()}), json!({"tick": t.tick, "base": t.base, "len": t.data.len()}));
            }
            return m;
        }
        ctx.count("library_splitter_not_applicable", 1);
    }
    ctx.count("split_independently", 1);
    split_own(t)
}

fn permutations(n: usize) -> Vec<Vec<usize>> {
    let mut out = Vec::new();
    let mut cur: Vec<usize> = (0..n).collect();
    fn rec(k: usize, cur: &mut Vec<usize>, out: &mut Vec<Vec<usize>>) {
        if k == cur.len() {
            out.push(cur.clone());
            return;
        }
        for i in k..cur.len() {
            cur.swap(k, i);
            rec(k + 1, cur, out);
            cur.swap(k, i);
        }
    }
    rec(0, &mut cur, &mut out);
    out
}

fn main() {
    let mut ctx = Ctx::from_args("C12");
    ctx.rule = "a case = one schedule of snapshot messages fed to a fresh DeltaReceiver; exhaustive: for transfers of 1..4 parts (5 in thorough) every permutation of the parts, plain and with every single duplication at every position; sampled: PRNG permutations with PRNG duplications for up to 32 parts; interleaved: a completed older transfer, an abandoned older transfer and a newer transfer mixed into the schedule; chain: 4-24 transfers through one long-lived receiver, a third of the multi-part ones abandoned part-way, stale and duplicated messages mixed in, DeltaReceiver::reset between transfers (after which any tick, also an older one, starts a transfer); data lengths 0, 1, 899..901, multiples of 900, up to 32 x 900; tick from {0,1,2,-1,MIN,MIN+1,MAX-1,MAX,PRNG}, base tick from {0,1,2,MIN,MAX,tick-1,tick,PRNG}; non-trivial = at least two messages; distinct = hash of the schedule".into();
    ctx.assumptions = vec![
        "model of the statement: a call hands out data iff it delivers the last missing part of the transfer for the newest tick seen; messages for ticks older than the newest seen never hand out data; duplicates never hand out data".into(),
        "the library splitter is used only where tick - base is representable (it subtracts without wrapping); otherwise messages carry the wrapped relative value the receiver documents".into(),
        "one message form per tick (consistent transfer)".into(),
    ];
    ctx.arm("c12", 1800.0);
    // ---- exhaustive small part counts
    let maxn = if ctx.tier == Tier::Thorough { 5 } else if ctx.is_sanitizer_tier() { 3 } else { 4 };
    let reps = ctx.volume(20, 300, 3, 2);
    ctx.run_cases("exhaustive", reps * maxn as u64, |ctx, idx, rng| {
        let n = 1 + (idx as usize % maxn);
        let st = start_tick(rng);
        let mut t = gen_transfer(rng, st, n);
        // exactly n parts
        let len = if n == 1 { rng.range(0, 900) as usize } else { 900 * (n - 1) + rng.range(1, 900) as usize };
        t.data = rng.bytes(len);
        let msgs = vec![split(ctx, rng, &t)];
        let k = msgs[0].len();
        let transfers = vec![t];
        let mut count = 0u64;
        for perm in permutations(k) {
            let plain: Vec<(usize, usize)> = perm.iter().map(|&p| (0, p)).collect();
            run_schedule(ctx, &transfers, &msgs, &plain, "permutation");
            count += 1;
            for dup in 0..k {
                for at in 0..=k {
                    let mut s = plain.clone();
                    s.insert(at, (0, dup));
                    run_schedule(ctx, &transfers, &msgs, &s, "permutation+duplicate");
                    count += 1;
                }
            }
        }
        ctx.count("exhaustive_schedules", count);
        ctx.cases_bulk(count, count);
        if ctx.want_sample() {
            ctx.sample(json!({"phase": "exhaustive", "parts": k, "tick": transfers[0].tick, "base": transfers[0].base, "len": transfers[0].data.len(), "schedules": count}));
        }
    });
    if ctx.tier == Tier::Thorough {
        ctx.exhaustive = Some(true);
        ctx.note("exhaustive: for 1..5 parts every permutation, plain and with every single duplication at every position (exhaustive for that sub-space per sampled transfer); larger part counts and interleavings are sampled");
    }
    // ---- sampled: many parts, random duplication
    let n = ctx.volume(6_000, 400_000, 20, 100);
    ctx.run_cases("sampled", n, |ctx, _i, rng| {
        let parts = *rng.pick(&[2usize, 6, 10, 31, 32, 32]);
        let st = start_tick(rng);
        let t = gen_transfer(rng, st, parts);
        let msgs = vec![split(ctx, rng, &t)];
        let k = msgs[0].len();
        let mut s: Vec<(usize, usize)> = (0..k).map(|p| (0, p)).collect();
        rng.shuffle(&mut s);
        let ndup = rng.range(0, 6) as usize;
        for _ in 0..ndup {
            let d = (0, rng.usize_below(k));
            let at = rng.usize_below(s.len() + 1);
            s.insert(at, d);
        }
        ctx.max("max_parts", k as u64);
        run_schedule(ctx, &[t], &msgs, &s, "random-permutation");
        ctx.case(if s.len() >= 2 { Some(verif_harness::fnv1a(format!("{:?}", s).as_bytes())) } else { None });
    });
    // ---- interleaved with older and newer ticks
    let n = ctx.volume(15_000, 800_000, 20, 100);
    ctx.run_cases("interleaved", n, |ctx, _i, rng| {
        // ticks t0 < tx < t1 < t2
        let t0 = start_tick(rng);
        let (tx, t1, t2) = match next_tick(rng, t0).and_then(|a| next_tick(rng, a).and_then(|b| next_tick(rng, b).map(|c| (a, b, c)))) {
            Some(v) => v,
            None => return,
        };
        let maxp = *rng.pick(&[1usize, 2, 3, 6]);
        let transfers = vec![gen_transfer(rng, t0, maxp), gen_transfer(rng, tx, maxp.max(2)), gen_transfer(rng, t1, maxp), gen_transfer(rng, t2, maxp)];
        let msgs: Vec<Vec<Msg>> = transfers.iter().map(|t| split(ctx, rng, t)).collect();
        let mut s: Vec<(usize, usize)> = Vec::new();
        // t0 completes first (any order), possibly with duplicates
        let mut a: Vec<(usize, usize)> = (0..msgs[0].len()).map(|p| (0, p)).collect();
        rng.shuffle(&mut a);
        s.extend(a);
        // the main transfer t1 in random order, with stale parts of t0 and tx and duplicates mixed in
        let mut b: Vec<(usize, usize)> = (0..msgs[2].len()).map(|p| (2, p)).collect();
        rng.shuffle(&mut b);
        let mode = rng.below(4);
        if mode == 1 && msgs[1].len() >= 2 {
            // tx starts before t1 and is abandoned
            s.push((1, 0));
        }
        for x in b {
            if rng.chance(1, 3) {
                s.push((0, rng.usize_below(msgs[0].len())));
            }
            if rng.chance(1, 3) {
                s.push((1, rng.usize_below(msgs[1].len())));
            }
            s.push(x);
            if rng.chance(1, 4) {
                s.push(x);
            }
            if mode == 2 && rng.chance(1, 4) {
                // a newer tick interrupts: everything of t1 afterwards is stale
                s.push((3, 0));
            }
        }
        // afterwards: t2 in order, then stale leftovers
        let mut c: Vec<(usize, usize)> = (0..msgs[3].len()).map(|p| (3, p)).collect();
        if mode != 2 {
            rng.shuffle(&mut c);
        } else {
            c.retain(|x| *x != (3, 0));
            rng.shuffle(&mut c);
        }
        s.extend(c);
        s.push((2, rng.usize_below(msgs[2].len())));
        s.push((1, rng.usize_below(msgs[1].len())));
        ctx.count(&format!("interleave_mode_{}", mode), 1);
        run_schedule(ctx, &transfers, &msgs, &s, "interleaved");
        ctx.case(Some(verif_harness::fnv1a(format!("{:?}|{:?}", s, transfers.iter().map(|t| (t.tick, t.base, t.data.len())).collect::<Vec<_>>()).as_bytes())));
        if ctx.want_sample() && s.len() <= 14 {
            ctx.sample(json!({"phase": "interleaved", "ticks": [t0, tx, t1, t2], "schedule": s.iter().map(|(ti, mi)| msgs[*ti][*mi].to_json()).collect::<Vec<_>>()}));
        }
    });
    // ---- chains: one long-lived receiver, many transfers, abandoned transfers, resets
    let n = ctx.volume(4_000, 200_000, 10, 50);
    ctx.run_cases("chain", n, |ctx, _i, rng| {
        let ntransfers = rng.range(4, 24) as usize;
        let mut transfers: Vec<Transfer> = Vec::new();
        let mut msgs: Vec<Vec<Msg>> = Vec::new();
        let mut s: Vec<(usize, usize)> = Vec::new();
        let mut tick = start_tick(rng);
        // first transfer index of the current epoch (since the last reset)
        let mut epoch_start = 0usize;
        let mut resets = 0u32;
        for k in 0..ntransfers {
            if k > 0 {
                if rng.chance(1, 6) {
                    s.push((RESET, 0));
                    resets += 1;
                    epoch_start = k;
                    // after a reset any tick may follow, also an older one
                    tick = if rng.bool() { start_tick(rng) } else { tick.wrapping_sub(rng.range(0, 1000) as i32) };
                } else {
                    tick = match next_tick(rng, tick) {
                        Some(t) => t,
                        None => break,
                    };
                }
            }
            let maxp = *rng.pick(&[1usize, 1, 2, 3, 6, 32]);
            let t = gen_transfer(rng, tick, maxp);
            let m = split(ctx, rng, &t);
            transfers.push(t);
            msgs.push(m);
            let np = msgs[k].len();
            let mut order: Vec<(usize, usize)> = (0..np).map(|p| (k, p)).collect();
            rng.shuffle(&mut order);
            // a third of the multi-part transfers is abandoned part-way
            if np >= 2 && rng.chance(1, 3) {
                let keep = rng.range(1, np as i64 - 1) as usize;
                order.truncate(keep);
                ctx.count("chain_abandoned_transfers", 1);
            }
            for x in order {
                if k > epoch_start && rng.chance(1, 5) {
                    // stale message of an earlier transfer of this epoch
                    let o = rng.range(epoch_start as i64, k as i64 - 1) as usize;
                    s.push((o, rng.usize_below(msgs[o].len())));
                }
                s.push(x);
                if rng.chance(1, 6) {
                    s.push(x);
                }
            }
        }
        ctx.count("chain_transfers", transfers.len() as u64);
        ctx.max("max_chain_resets", resets as u64);
        run_schedule(ctx, &transfers, &msgs, &s, "chain");
        ctx.case(if s.len() >= 2 { Some(verif_harness::fnv1a(format!("{:?}|{:?}", s, transfers.iter().map(|t| (t.tick, t.base, t.data.len())).collect::<Vec<_>>()).as_bytes())) } else { None });
    });
    ctx.disarm();
    ctx.finish();
}
