//! C14 — generated message and snapshot-object codecs match the protocol
//! descriptions.
//!
//! Vectors come from /verif/tools/specvec.py, an independent reading of the four
//! JSON descriptions (DESIGN.md §5/C14, Appendix A). This binary feeds them to
//! the four generated crates through their public entry points and checks:
//!   ok    => decode Ok, empty warning sink, Debug name == described name,
//!            re-encode identical (bytes / words), both entry points agree
//!   okd   => as ok but not re-encoded (absent trailing optional)
//!   warn  => decode Ok with a warning
//!   err   => decode Err
//!   any   => not decided by the description: no panic only
//!   any bytes => no panic
//! plus: obj_size(id) == described word count (and None for undescribed ids);
//! for one vector per codec with pairwise different scalar values, every value
//! shows up in the member of the described name, in described order (Debug
//! text); decoded objects report the type id they were decoded with.
//!
//! Miri tier: one decode+encode per snapshot-object type, built in Rust from the
//! JSON (no python under Miri).

#![cfg_attr(miri, allow(dead_code))]

use libtw2_packer::with_packer;
use libtw2_packer::IntUnpacker;
use libtw2_packer::Packer;
use libtw2_packer::Unpacker;
use serde_json::json;
use serde_json::Value;
use verif_harness::catch;
use verif_harness::fnv1a;
use verif_harness::hex;
use verif_harness::hex_short;
use verif_harness::refmodel::varint;
use verif_harness::unhex;
use verif_harness::Ctx;
use verif_harness::Panicked;
use verif_harness::Rng;
use verif_harness::Tier;
use verif_harness::Warnings;

const SPEC_DIR: &str = "/repo/gamenet/generate/spec";
const SPECVEC: &str = "/verif/tools/specvec.py";
const TMP_DIR: &str = "/verif/harness/run/c14-tmp";
/// (crate tag used in signatures, description file)
const SPECS: [(&str, &str); 4] = [
    ("teeworlds-0.5", "teeworlds-0.5.json"),
    ("teeworlds-0.6", "teeworlds-0.6.json"),
    ("teeworlds-0.7", "teeworlds-0.7-trunk.json"),
    ("ddnet", "ddnet-19.6.json"),
];

#[derive(Clone, Copy, Debug, PartialEq, Eq, Hash)]
enum Kind {
    System,
    Game,
    Connless,
    Object,
}

impl Kind {
    fn parse(s: &str) -> Kind {
        match s {
            "system" => Kind::System,
            "game" => Kind::Game,
            "connless" => Kind::Connless,
            "object" => Kind::Object,
            _ => panic!("vector file: unknown kind {:?}", s),
        }
    }
    fn name(self) -> &'static str {
        match self {
            Kind::System => "system",
            Kind::Game => "game",
            Kind::Connless => "connless",
            Kind::Object => "object",
        }
    }
}

#[derive(Clone, Copy, Debug, PartialEq, Eq)]
enum Expect {
    Ok,
    OkDecodeOnly,
    Warn,
    Err,
    Any,
}

impl Expect {
    fn parse(s: &str) -> Expect {
        match s {
            "ok" => Expect::Ok,
            "okd" => Expect::OkDecodeOnly,
            "warn" => Expect::Warn,
            "err" => Expect::Err,
            "any" => Expect::Any,
            _ => panic!("vector file: unknown expectation {:?}", s),
        }
    }
    fn name(self) -> &'static str {
        match self {
            Expect::Ok => "ok",
            Expect::OkDecodeOnly => "okd",
            Expect::Warn => "warn",
            Expect::Err => "err",
            Expect::Any => "any",
        }
    }
}

/// Snapshot object type id.
#[derive(Clone, Copy, Debug, PartialEq, Eq)]
enum Tid {
    Ordinal(u16),
    Uuid([u8; 16]),
}

fn parse_tid(s: &str) -> Option<Tid> {
    if let Some(n) = s.strip_prefix("o:") {
        Some(Tid::Ordinal(n.parse().expect("ordinal type id")))
    } else if let Some(h) = s.strip_prefix("u:") {
        let b = unhex(h);
        let mut u = [0; 16];
        u.copy_from_slice(&b);
        Some(Tid::Uuid(u))
    } else {
        None
    }
}

fn parse_words(s: &str) -> Vec<i32> {
    if s == "-" || s.is_empty() {
        return Vec::new();
    }
    s.split(',').map(|w| w.parse().expect("word")).collect()
}

fn words_str(w: &[i32]) -> String {
    if w.is_empty() {
        return "-".into();
    }
    w.iter().map(|x| x.to_string()).collect::<Vec<_>>().join(",")
}

#[derive(Clone, Debug)]
struct Codec {
    kind: Kind,
    name: String,
    id: String,
    nwords: Option<u32>,
    has_bool: bool,
    prefix: Vec<u8>,
    /// hex (messages) or comma separated words (objects)
    base: String,
}

#[derive(Clone, Debug)]
struct Vector {
    crate_ix: usize,
    idx: u64,
    kind: Kind,
    name: String,
    expect: Expect,
    class: String,
    id: String,
    payload: String,
    tag: String,
    has_bool: bool,
}

impl Vector {
    fn case_data(&self) -> Value {
        json!({
            "crate": SPECS[self.crate_ix].0,
            "crate_ix": self.crate_ix,
            "index": self.idx,
            "kind": self.kind.name(),
            "name": self.name,
            "expect": self.expect.name(),
            "class": self.class,
            "id": self.id,
            "payload": self.payload,
            "tag": self.tag,
            "has_bool": self.has_bool,
        })
    }
    fn from_case_data(v: &Value) -> Vector {
        Vector {
            crate_ix: v["crate_ix"].as_u64().expect("crate_ix") as usize,
            idx: v["index"].as_u64().unwrap_or(0),
            kind: Kind::parse(v["kind"].as_str().expect("kind")),
            name: v["name"].as_str().unwrap_or("").to_string(),
            expect: Expect::parse(v["expect"].as_str().expect("expect")),
            class: v["class"].as_str().unwrap_or("").to_string(),
            id: v["id"].as_str().unwrap_or("-").to_string(),
            payload: v["payload"].as_str().expect("payload").to_string(),
            tag: v["tag"].as_str().unwrap_or("").to_string(),
            has_bool: v["has_bool"].as_bool().unwrap_or(false),
        }
    }
}

struct SpecData {
    codecs: Vec<Codec>,
    vectors: Vec<Vector>,
    total_vectors: u64,
}

// ------------------------------------------------------------------ results

#[derive(Debug)]
enum Reenc<T> {
    Same(T),
    Capacity,
    Panic(Panicked),
}

#[derive(Debug)]
struct Decoded<T> {
    /// leading identifier of the Debug rendering
    name: String,
    debug: String,
    /// "system"/"game"/"connless"/"object"
    variant: &'static str,
    reenc: Option<Reenc<T>>,
    /// second public entry point agrees (Debug rendering identical, same Ok/Err)
    entry_agree: bool,
    /// objects: obj_type_id() of the decoded value equals the id it was decoded with
    type_id_ok: bool,
}

#[derive(Debug)]
struct Outcome<T> {
    result: Result<Decoded<T>, String>,
    warnings: Vec<String>,
}

fn debug_name(s: &str) -> String {
    s.chars().take_while(|c| c.is_ascii_alphanumeric() || *c == '_').collect()
}

fn norm(s: &str) -> String {
    s.chars().filter(|c| c.is_ascii_alphanumeric()).map(|c| c.to_ascii_lowercase()).collect()
}

fn short(s: &str) -> String {
    if s.len() <= 240 {
        s.to_string()
    } else {
        let mut cut = 240;
        while !s.is_char_boundary(cut) {
            cut -= 1;
        }
        format!("{}…", &s[..cut])
    }
}

fn encode_into<F>(cap: usize, f: F) -> Reenc<Vec<u8>>
where
    F: for<'d, 's> FnOnce(Packer<'d, 's>) -> Result<&'d [u8], libtw2_buffer::CapacityError>,
{
    let mut buf: Vec<u8> = Vec::with_capacity(cap);
    let r = catch(|| with_packer(&mut buf, |p| f(p).map(|s| s.len())));
    match r {
        Ok(Ok(_)) => Reenc::Same(buf),
        Ok(Err(_)) => Reenc::Capacity,
        Err(p) => Reenc::Panic(p),
    }
}

macro_rules! crate_api {
    ($modname:ident, $krate:ident) => {
        mod $modname {
            use super::*;
            use $krate::msg::Connless;
            use $krate::msg::Game;
            use $krate::msg::System;
            use $krate::msg::SystemOrGame;
            use $krate::snap_obj::obj_size as crate_obj_size;
            use $krate::snap_obj::TypeId;
            use $krate::SnapObj;

            pub fn msg(kind: Kind, bytes: &[u8], reencode: bool) -> Outcome<Vec<u8>> {
                let mut w = Warnings::new();
                let mut p = Unpacker::new(bytes);
                let cap = bytes.len() + 64;
                let result = match kind {
                    Kind::System => match System::decode(&mut w, &mut p) {
                        Ok(m) => {
                            let debug = format!("{:?}", m);
                            let mut w2 = Warnings::new();
                            let other = $krate::msg::decode(&mut w2, &mut Unpacker::new(bytes));
                            let entry_agree = match &other {
                                Ok(SystemOrGame::System(o)) => format!("{:?}", o) == debug && w2.0 == w.0,
                                _ => false,
                            };
                            let reenc = if reencode { Some(encode_into(cap, |p| m.encode(p))) } else { None };
                            Ok(Decoded { name: debug_name(&debug), debug, variant: "system", reenc, entry_agree, type_id_ok: true })
                        }
                        Err(e) => Err(format!("{:?}", e)),
                    },
                    Kind::Game => match Game::decode(&mut w, &mut p) {
                        Ok(m) => {
                            let debug = format!("{:?}", m);
                            let mut w2 = Warnings::new();
                            let other = $krate::msg::decode(&mut w2, &mut Unpacker::new(bytes));
                            let entry_agree = match &other {
                                Ok(SystemOrGame::Game(o)) => format!("{:?}", o) == debug && w2.0 == w.0,
                                _ => false,
                            };
                            let reenc = if reencode { Some(encode_into(cap, |p| m.encode(p))) } else { None };
                            Ok(Decoded { name: debug_name(&debug), debug, variant: "game", reenc, entry_agree, type_id_ok: true })
                        }
                        Err(e) => Err(format!("{:?}", e)),
                    },
                    Kind::Connless => match Connless::decode(&mut w, &mut p) {
                        Ok(m) => {
                            let debug = format!("{:?}", m);
                            let reenc = if reencode { Some(encode_into(cap, |p| m.encode(p))) } else { None };
                            Ok(Decoded { name: debug_name(&debug), debug, variant: "connless", reenc, entry_agree: true, type_id_ok: true })
                        }
                        Err(e) => Err(format!("{:?}", e)),
                    },
                    Kind::Object => unreachable!(),
                };
                Outcome { result, warnings: w.0 }
            }

            /// The crate-level entry point on arbitrary bytes (system or game decided by the id).
            pub fn msg_any(bytes: &[u8], reencode: bool) -> Outcome<Vec<u8>> {
                let mut w = Warnings::new();
                let mut p = Unpacker::new(bytes);
                let cap = bytes.len() + 64;
                let result = match $krate::msg::decode(&mut w, &mut p) {
                    Ok(SystemOrGame::System(m)) => {
                        let debug = format!("{:?}", m);
                        let reenc = if reencode { Some(encode_into(cap, |p| m.encode(p))) } else { None };
                        Ok(Decoded { name: debug_name(&debug), debug, variant: "system", reenc, entry_agree: true, type_id_ok: true })
                    }
                    Ok(SystemOrGame::Game(m)) => {
                        let debug = format!("{:?}", m);
                        let reenc = if reencode { Some(encode_into(cap, |p| m.encode(p))) } else { None };
                        Ok(Decoded { name: debug_name(&debug), debug, variant: "game", reenc, entry_agree: true, type_id_ok: true })
                    }
                    Err(e) => Err(format!("{:?}", e)),
                };
                Outcome { result, warnings: w.0 }
            }

            pub fn obj(tid: Tid, words: &[i32], reencode: bool) -> Outcome<Vec<i32>> {
                let mut w = Warnings::new();
                let type_id = match tid {
                    Tid::Ordinal(o) => TypeId::Ordinal(o),
                    Tid::Uuid(u) => TypeId::Uuid(uuid::Uuid::from_bytes(u)),
                };
                let mut p = IntUnpacker::new(words);
                let result = match SnapObj::decode_obj(&mut w, type_id, &mut p) {
                    Ok(o) => {
                        let debug = format!("{:?}", o);
                        let type_id_ok = o.obj_type_id() == type_id;
                        let reenc = if reencode {
                            Some(match catch(|| o.encode().to_vec()) {
                                Ok(v) => Reenc::Same(v),
                                Err(p) => Reenc::Panic(p),
                            })
                        } else {
                            None
                        };
                        Ok(Decoded { name: debug_name(&debug), debug, variant: "object", reenc, entry_agree: true, type_id_ok })
                    }
                    Err(e) => Err(format!("{:?}", e)),
                };
                Outcome { result, warnings: w.0 }
            }

            pub fn obj_size(id: u16) -> Option<u32> {
                crate_obj_size(id)
            }
        }
    };
}

crate_api!(tw05, libtw2_gamenet_teeworlds_0_5);
crate_api!(tw06, libtw2_gamenet_teeworlds_0_6);
crate_api!(tw07, libtw2_gamenet_teeworlds_0_7);
crate_api!(ddnet, libtw2_gamenet_ddnet);

fn api_msg(crate_ix: usize, kind: Kind, bytes: &[u8], reencode: bool) -> Outcome<Vec<u8>> {
    match crate_ix {
        0 => tw05::msg(kind, bytes, reencode),
        1 => tw06::msg(kind, bytes, reencode),
        2 => tw07::msg(kind, bytes, reencode),
        _ => ddnet::msg(kind, bytes, reencode),
    }
}

fn api_msg_any(crate_ix: usize, bytes: &[u8], reencode: bool) -> Outcome<Vec<u8>> {
    match crate_ix {
        0 => tw05::msg_any(bytes, reencode),
        1 => tw06::msg_any(bytes, reencode),
        2 => tw07::msg_any(bytes, reencode),
        _ => ddnet::msg_any(bytes, reencode),
    }
}

fn api_obj(crate_ix: usize, tid: Tid, words: &[i32], reencode: bool) -> Outcome<Vec<i32>> {
    match crate_ix {
        0 => tw05::obj(tid, words, reencode),
        1 => tw06::obj(tid, words, reencode),
        2 => tw07::obj(tid, words, reencode),
        _ => ddnet::obj(tid, words, reencode),
    }
}

fn api_obj_size(crate_ix: usize, id: u16) -> Option<u32> {
    match crate_ix {
        0 => tw05::obj_size(id),
        1 => tw06::obj_size(id),
        2 => tw07::obj_size(id),
        _ => ddnet::obj_size(id),
    }
}

// ------------------------------------------------------------------ vector files

fn parse_vec_file(crate_ix: usize, text: &str, shard: u64, nshards: u64, filtered: bool) -> SpecData {
    let mut codecs = Vec::new();
    let mut vectors = Vec::new();
    let mut total = 0;
    let mut bool_codecs: std::collections::HashSet<(Kind, String)> = std::collections::HashSet::new();
    for line in text.lines() {
        let f: Vec<&str> = line.split('\t').collect();
        match f[0] {
            "S" => {
                assert_eq!(f[1], SPECS[crate_ix].0, "vector file is for another crate");
                total = f[4].parse().expect("vector count");
            }
            "C" => {
                let kind = Kind::parse(f[1]);
                let flags: Vec<&str> = f[5].split(',').collect();
                let has_bool = flags.contains(&"bool");
                if has_bool {
                    bool_codecs.insert((kind, f[2].to_string()));
                }
                codecs.push(Codec {
                    kind,
                    name: f[2].to_string(),
                    id: f[3].to_string(),
                    nwords: f[4].parse().ok(),
                    has_bool,
                    prefix: if f[6] == "-" { Vec::new() } else { unhex(f[6]) },
                    base: f[7].to_string(),
                });
            }
            "V" => {
                let idx: u64 = f[1].parse().expect("index");
                if !filtered && idx % nshards != shard {
                    continue;
                }
                let kind = Kind::parse(f[2]);
                vectors.push(Vector {
                    crate_ix,
                    idx,
                    kind,
                    name: f[3].to_string(),
                    expect: Expect::parse(f[4]),
                    class: f[5].to_string(),
                    id: f[6].to_string(),
                    payload: f[7].to_string(),
                    tag: f.get(8).copied().unwrap_or("").to_string(),
                    has_bool: bool_codecs.contains(&(kind, f[3].to_string())),
                });
            }
            "" => {}
            other => panic!("vector file: unknown record {:?}", other),
        }
    }
    SpecData { codecs, vectors, total_vectors: total }
}

/// Name of the vector file of a crate inside a vector directory.
fn vec_file(dir: &str, crate_ix: usize) -> String {
    format!("{}/{}.vec", dir, SPECS[crate_ix].0)
}

#[cfg(not(miri))]
fn run_specvec(outdir: &str) -> Result<(), String> {
    let mut cmd = std::process::Command::new("python3");
    cmd.arg(SPECVEC).arg("--outdir").arg(outdir);
    for (_, file) in SPECS.iter() {
        cmd.arg(format!("{}/{}", SPEC_DIR, file));
    }
    match cmd.output() {
        Ok(o) if o.status.success() => Ok(()),
        Ok(o) => Err(format!("specvec failed: {}", short(&String::from_utf8_lossy(&o.stderr)))),
        Err(e) => Err(format!("python3 could not be started: {}", e)),
    }
}

/// The vectors are a pure function of specvec.py and the four descriptions, so
/// they are generated once per content (python start-up dominates the cost of
/// a shard otherwise) into a directory named after the content hash; the 16
/// shards of a check elect one generator through a lock file. Returns the
/// directory to read and whether it is private (to be deleted after reading).
#[cfg(not(miri))]
fn vector_dir(ctx: &mut Ctx) -> Result<(String, bool), String> {
    if let Ok(dir) = std::env::var("VERIF_C14_VECDIR") {
        if (0..4).all(|i| std::path::Path::new(&vec_file(&dir, i)).is_file()) {
            ctx.note("vectors read from VERIF_C14_VECDIR (pre-generated)");
            return Ok((dir, false));
        }
    }
    let mut h = fnv1a(&std::fs::read(SPECVEC).map_err(|e| format!("{}: {}", SPECVEC, e))?);
    for (_, file) in SPECS.iter() {
        let path = format!("{}/{}", SPEC_DIR, file);
        h = verif_harness::mix(h, fnv1a(&std::fs::read(&path).map_err(|e| format!("{}: {}", path, e))?));
    }
    let _ = std::fs::create_dir_all(TMP_DIR);
    let dir = format!("{}/vec-{:016x}", TMP_DIR, h);
    let lock = format!("{}.lock", dir);
    let pid = std::process::id();
    let is_ready = |d: &str| std::path::Path::new(d).is_dir();
    for _attempt in 0..3 {
        if is_ready(&dir) {
            ctx.count("vectors_from_cache", 1);
            return Ok((dir, false));
        }
        match std::fs::OpenOptions::new().write(true).create_new(true).open(&lock) {
            Ok(mut f) => {
                use std::io::Write;
                let _ = write!(f, "{}", pid);
                drop(f);
                let tmp = format!("{}.tmp.{}", dir, pid);
                let r = run_specvec(&tmp);
                let r = r.and_then(|_| {
                    if is_ready(&dir) {
                        let _ = std::fs::remove_dir_all(&tmp);
                        Ok(())
                    } else {
                        std::fs::rename(&tmp, &dir).map_err(|e| format!("rename {} -> {}: {}", tmp, dir, e))
                    }
                });
                let _ = std::fs::remove_file(&lock);
                r?;
                ctx.count("vectors_generated", 1);
                // older generations (other content) are not needed any more
                if let Ok(rd) = std::fs::read_dir(TMP_DIR) {
                    for e in rd.flatten() {
                        let name = e.file_name().to_string_lossy().to_string();
                        if name.starts_with("vec-") && !name.contains('.') && e.path().to_string_lossy() != dir {
                            let _ = std::fs::remove_dir_all(e.path());
                        }
                    }
                }
                return Ok((dir, false));
            }
            Err(_) => {
                // another shard generates: wait for the directory, watch for a dead owner
                let mut polls = 0;
                let mut stale = false;
                while polls < 3600 {
                    if is_ready(&dir) {
                        ctx.count("vectors_from_cache", 1);
                        return Ok((dir, false));
                    }
                    match std::fs::read_to_string(&lock) {
                        Ok(text) => {
                            let owner: Option<u32> = text.trim().parse().ok();
                            match owner {
                                Some(o) if !std::path::Path::new(&format!("/proc/{}", o)).exists() => {
                                    stale = true;
                                }
                                None if polls > 40 => stale = true,
                                _ => {}
                            }
                        }
                        // lock gone without a directory: the owner failed
                        Err(_) => break,
                    }
                    if stale {
                        let _ = std::fs::remove_file(&lock);
                        break;
                    }
                    std::thread::sleep(std::time::Duration::from_millis(50));
                    polls += 1;
                }
            }
        }
    }
    // last resort: a private copy
    let tmp = format!("{}.private.{}", dir, pid);
    run_specvec(&tmp)?;
    ctx.count("vectors_generated_privately", 1);
    Ok((tmp, true))
}

#[cfg(not(miri))]
fn load_all(ctx: &mut Ctx) -> Vec<Option<SpecData>> {
    let (dir, private) = match vector_dir(ctx) {
        Ok(x) => x,
        Err(e) => {
            ctx.note(&format!("no vectors: {}", e));
            ctx.count("specvec_failures", 1);
            return vec![None, None, None, None];
        }
    };
    let mut out = Vec::new();
    for crate_ix in 0..4 {
        out.push(match std::fs::read_to_string(vec_file(&dir, crate_ix)) {
            Ok(text) => Some(parse_vec_file(crate_ix, &text, ctx.shard, ctx.nshards, false)),
            Err(e) => {
                ctx.note(&format!("vector file of {} unreadable: {}", SPECS[crate_ix].0, e));
                ctx.count("specvec_failures", 1);
                None
            }
        });
    }
    if private {
        let _ = std::fs::remove_dir_all(&dir);
    }
    out
}

#[cfg(miri)]
fn load_all(_ctx: &mut Ctx) -> Vec<Option<SpecData>> {
    vec![None, None, None, None]
}

// ------------------------------------------------------------------ oracles

fn site_of(crate_ix: usize, kind: Kind, name: &str) -> String {
    format!("crate={}|{}={}", SPECS[crate_ix].0, kind.name(), name)
}

/// Checks one vector. Returns true when the codec was reached the way the
/// vector expected (for coverage accounting).
fn check_vector(ctx: &mut Ctx, v: &Vector) -> bool {
    let site = site_of(v.crate_ix, v.kind, &v.name);
    let class = format!("member-kind={}", v.class);
    let case_data = v.case_data();
    ctx.count(&format!("vectors_{}", v.expect.name()), 1);
    let reencode = v.expect == Expect::Ok;
    // ---- run
    enum Out {
        Bytes(Outcome<Vec<u8>>, Vec<u8>),
        Words(Outcome<Vec<i32>>, Vec<i32>),
    }
    let run = if v.kind == Kind::Object {
        let words = parse_words(&v.payload);
        let tid = match parse_tid(&v.id) {
            Some(t) => t,
            None => panic!("object vector without type id"),
        };
        catch(|| api_obj(v.crate_ix, tid, &words, reencode)).map(|o| Out::Words(o, words))
    } else {
        let bytes = unhex(&v.payload);
        catch(|| api_msg(v.crate_ix, v.kind, &bytes, reencode)).map(|o| Out::Bytes(o, bytes))
    };
    let out = match run {
        Ok(o) => o,
        Err(p) => {
            ctx.panic_violation(&format!("decode|{}", site), &class, &p, case_data);
            return false;
        }
    };
    // unify
    struct Flat {
        ok: bool,
        err: String,
        name: String,
        debug: String,
        warnings: Vec<String>,
        entry_agree: bool,
        type_id_ok: bool,
        /// None: not re-encoded; Some(Ok(identical?, rendering)); Some(Err(what))
        reenc: Option<Result<(bool, String), String>>,
        reenc_panic: Option<Panicked>,
    }
    let flat = match out {
        Out::Bytes(o, input) => match o.result {
            Ok(d) => {
                let mut reenc_panic = None;
                let reenc = d.reenc.map(|r| match r {
                    Reenc::Same(b) => Ok((b == input, hex_short(&b))),
                    Reenc::Capacity => Err("CapacityError (re-encoding is longer than the input + 64)".to_string()),
                    Reenc::Panic(p) => {
                        let m = p.msg.clone();
                        reenc_panic = Some(p);
                        Err(format!("panic: {}", m))
                    }
                });
                Flat { ok: true, err: String::new(), name: d.name, debug: d.debug, warnings: o.warnings, entry_agree: d.entry_agree, type_id_ok: d.type_id_ok, reenc, reenc_panic }
            }
            Err(e) => Flat { ok: false, err: e, name: String::new(), debug: String::new(), warnings: o.warnings, entry_agree: true, type_id_ok: true, reenc: None, reenc_panic: None },
        },
        Out::Words(o, input) => match o.result {
            Ok(d) => {
                let mut reenc_panic = None;
                let reenc = d.reenc.map(|r| match r {
                    Reenc::Same(b) => Ok((b == input, words_str(&b))),
                    Reenc::Capacity => Err("capacity".to_string()),
                    Reenc::Panic(p) => {
                        let m = p.msg.clone();
                        reenc_panic = Some(p);
                        Err(format!("panic: {}", m))
                    }
                });
                Flat { ok: true, err: String::new(), name: d.name, debug: d.debug, warnings: o.warnings, entry_agree: d.entry_agree, type_id_ok: d.type_id_ok, reenc, reenc_panic }
            }
            Err(e) => Flat { ok: false, err: e, name: String::new(), debug: String::new(), warnings: o.warnings, entry_agree: true, type_id_ok: true, reenc: None, reenc_panic: None },
        },
    };
    if flat.ok {
        ctx.count("decode_ok", 1);
    } else {
        ctx.count("decode_err", 1);
        ctx.seen("error_variants", &flat.err);
    }
    for w in &flat.warnings {
        ctx.seen("warning_variants", w);
    }
    let detail = |what: &str, flat: &Flat| {
        json!({
            "what": what,
            "tag": v.tag,
            "expect": v.expect.name(),
            "payload": if v.kind == Kind::Object { v.payload.clone() } else { hex_short(&unhex(&v.payload)) },
            "decoded": short(&flat.debug),
            "error": flat.err,
            "warnings": flat.warnings,
            "reencoded": flat.reenc.as_ref().map(|r| match r { Ok((_, s)) => s.clone(), Err(e) => e.clone() }),
        })
    };
    match v.expect {
        Expect::Any => {
            ctx.count(if flat.ok { "undecided_accepted" } else { "undecided_rejected" }, 1);
            true
        }
        Expect::Err => {
            if flat.ok {
                ctx.violation("accepted", &site, &class, detail("a violating encoding was accepted", &flat), case_data);
                return false;
            }
            ctx.count(&format!("rejected_{}", v.class), 1);
            true
        }
        Expect::Ok | Expect::OkDecodeOnly | Expect::Warn => {
            if !flat.ok {
                ctx.violation("decode-rejected", &site, &class, detail("a canonical encoding was rejected", &flat), case_data);
                return false;
            }
            if norm(&flat.name) != norm(&v.name) {
                ctx.violation("name-differs", &site, &class, detail("decoded as another message/object", &flat), case_data);
                return false;
            }
            // the codec was reached: a described encoding arrived at the described type
            if !v.name.starts_with('<') {
                ctx.seen(&format!("codecs_{}", SPECS[v.crate_ix].0), &format!("{}:{}", v.kind.name(), v.name));
            }
            if !flat.type_id_ok {
                ctx.violation("type-id-differs", &site, &class, detail("obj_type_id() of the decoded object differs from the id it was decoded with", &flat), case_data);
                return false;
            }
            if v.expect == Expect::Warn {
                if flat.warnings.is_empty() {
                    ctx.violation("no-warning", &site, &class, detail("excess data was accepted without a warning", &flat), case_data);
                    return false;
                }
                ctx.count("excess_warned", 1);
                return true;
            }
            if !flat.warnings.is_empty() {
                ctx.violation("warning", &site, &class, detail("a canonical encoding produced warnings", &flat), case_data);
                return false;
            }
            if !flat.entry_agree {
                ctx.violation("entrypoints-disagree", &site, &class, detail("System/Game::decode and msg::decode disagree", &flat), case_data);
                return false;
            }
            if v.expect == Expect::OkDecodeOnly {
                ctx.count("optional_absent_decoded", 1);
                return true;
            }
            if let Some(fields) = v.tag.strip_prefix("fields:") {
                if let Some(missing) = fields_in_order(&flat.debug, fields) {
                    let mut d = detail("a value did not arrive in the member of the described name/position", &flat);
                    d["decoded"] = json!(flat.debug);
                    d["first_member_not_found_in_order"] = json!(missing);
                    ctx.violation("member-order", &site, &class, d, case_data);
                    return false;
                }
                ctx.count("member_order_checked", 1);
            }
            let re_class = if v.has_bool && v.kind == Kind::Object { "member-kind=boolean".to_string() } else { class.clone() };
            match &flat.reenc {
                Some(Ok((true, _))) => {
                    ctx.count("roundtrip_identical", 1);
                    ctx.count(&format!("roundtrip_{}", v.kind.name()), 1);
                    true
                }
                Some(Ok((false, _))) => {
                    ctx.violation("reencode-differs", &site, &re_class, detail("re-encoding differs from the canonical input", &flat), case_data);
                    false
                }
                Some(Err(_)) => {
                    if let Some(p) = &flat.reenc_panic {
                        ctx.panic_violation(&format!("encode|{}", site), &re_class, p, case_data);
                    } else {
                        ctx.violation("reencode-differs", &site, &re_class, detail("re-encoding does not fit", &flat), case_data);
                    }
                    false
                }
                None => unreachable!(),
            }
        }
    }
}

/// `fields` is "name=rendering;..." in described order. Each must occur as
/// `name: rendering` (or `name_: rendering` for members whose name is a Rust
/// keyword) in the Debug text, after the previous one. Returns the first
/// member that does not.
fn fields_in_order(debug: &str, fields: &str) -> Option<String> {
    let mut cursor = 0;
    for f in fields.split(';') {
        let (name, text) = match f.split_once('=') {
            Some(x) => x,
            None => continue,
        };
        let mut found = None;
        for pat in [format!("{}: {}", name, text), format!("{}_: {}", name, text)] {
            let mut from = cursor;
            while let Some(off) = debug[from..].find(&pat) {
                let at = from + off;
                let end = at + pat.len();
                let before_ok = at == 0 || !debug[..at].chars().next_back().map(|c| c.is_ascii_alphanumeric() || c == '_').unwrap_or(false);
                let after_ok = !debug[end..].chars().next().map(|c| c.is_ascii_alphanumeric() || c == '_').unwrap_or(false);
                if before_ok && after_ok {
                    found = Some(found.map_or(end, |e: usize| e.min(end)));
                    break;
                }
                from = at + 1;
            }
        }
        match found {
            Some(end) => cursor = end,
            None => return Some(f.to_string()),
        }
    }
    None
}

/// Top-level `name: value` pairs of a derived `Debug` rendering of a struct.
fn top_level_fields(debug: &str) -> Vec<(String, String)> {
    let open = match debug.find('{') {
        Some(i) => i,
        None => return Vec::new(),
    };
    let body = &debug[open + 1..debug.rfind('}').unwrap_or(debug.len())];
    let mut parts = Vec::new();
    let (mut depth, mut in_str, mut esc, mut start) = (0i32, false, false, 0usize);
    let bytes = body.as_bytes();
    for (i, &c) in bytes.iter().enumerate() {
        if in_str {
            if esc {
                esc = false;
            } else if c == b'\\' {
                esc = true;
            } else if c == b'"' {
                in_str = false;
            }
            continue;
        }
        match c {
            b'"' => in_str = true,
            b'(' | b'[' | b'{' => depth += 1,
            b')' | b']' | b'}' => depth -= 1,
            b',' if depth == 0 => {
                parts.push(&body[start..i]);
                start = i + 1;
            }
            _ => {}
        }
    }
    parts.push(&body[start..]);
    parts.iter().filter_map(|p| p.trim().split_once(": ").map(|(a, b)| (a.trim().to_string(), b.trim().to_string()))).collect()
}

/// The descriptions allow optional members at the end only, so a message can
/// lack a suffix of them: a present optional after an absent one is a layout
/// no description contains.
fn optional_prefix_violation(debug: &str) -> Option<String> {
    let mut absent: Option<String> = None;
    for (name, value) in top_level_fields(debug) {
        if value == "None" {
            absent.get_or_insert(name);
        } else if value.starts_with("Some(") {
            if let Some(a) = &absent {
                return Some(format!("{} present although {} is absent", name, a));
            }
        }
    }
    None
}

/// Every proper prefix of a codec's typical encoding: decoding returns (no
/// panic), and whatever is accepted has its optional members as a prefix.
fn check_truncations(ctx: &mut Ctx, crate_ix: usize, c: &Codec) {
    let base = unhex(&c.base);
    for cut in 0..base.len() {
        check_truncation(ctx, crate_ix, c.kind, &c.name, &base[..cut]);
    }
}

fn check_truncation(ctx: &mut Ctx, crate_ix: usize, kind: Kind, name: &str, bytes: &[u8]) {
    let crate_name = SPECS[crate_ix].0;
    let site = site_of(crate_ix, kind, name);
    let case_data = json!({"truncated_bytes": hex(bytes), "crate_ix": crate_ix, "kind": kind.name(), "codec": name});
    ctx.count("typical_truncations_decoded", 1);
    match catch(|| api_msg(crate_ix, kind, bytes, false)) {
        Err(p) => ctx.panic_violation(&format!("decode|{}", site), "truncated-typical", &p, case_data),
        Ok(o) => {
            if let Ok(d) = &o.result {
                ctx.count("typical_truncations_accepted", 1);
                if let Some(what) = optional_prefix_violation(&d.debug) {
                    ctx.violation("accepted", &format!("crate={}|{}={}", crate_name, d.variant, d.name), "optional-present-after-absent|truncated-typical", json!({"what": what, "decoded": short(&d.debug)}), case_data);
                }
            }
        }
    }
}

fn codec_key(c: &Codec) -> String {
    format!("{}:{}", c.kind.name(), c.name)
}

/// Every codec once per shard: its typical encoding, obj_size, and the id bytes
/// against the harness's own varint codec.
fn codec_base_phase(ctx: &mut Ctx, data: &[Option<SpecData>]) {
    if !ctx.set_phase("codec-base") {
        return;
    }
    if let Some(r) = ctx.replay.clone() {
        if r["case_data"]["truncated_bytes"].is_string() {
            let cd = &r["case_data"];
            check_truncation(ctx, cd["crate_ix"].as_u64().unwrap() as usize, Kind::parse(cd["kind"].as_str().unwrap()), cd["codec"].as_str().unwrap(), &unhex(cd["truncated_bytes"].as_str().unwrap()));
        } else if r["case_data"]["payload"].is_string() {
            let v = Vector::from_case_data(&r["case_data"]);
            check_vector(ctx, &v);
        } else {
            let cd = &r["case_data"];
            check_obj_size(ctx, cd["crate_ix"].as_u64().unwrap() as usize, cd["id"].as_u64().unwrap() as u16, cd["described"].as_u64().map(|x| x as u32), cd["name"].as_str().unwrap_or("-"));
        }
        return;
    }
    for (crate_ix, d) in data.iter().enumerate() {
        let d = match d {
            Some(d) => d,
            None => continue,
        };
        let mut described_sizes: std::collections::BTreeMap<u16, (u32, String)> = Default::default();
        for (i, c) in d.codecs.iter().enumerate() {
            ctx.set_case((crate_ix * 1_000_000 + i) as u64);
            ctx.seen(&format!("described_{}", SPECS[crate_ix].0), &codec_key(c));
            // id bytes: python's varint against refmodel::varint
            if matches!(c.kind, Kind::System | Kind::Game) {
                let sys = if c.kind == Kind::System { 1 } else { 0 };
                let want = match parse_tid(&c.id) {
                    Some(Tid::Ordinal(o)) => varint::encode(((o as i32) << 1) | sys),
                    Some(Tid::Uuid(u)) => {
                        let mut b = varint::encode(sys);
                        b.extend_from_slice(&u);
                        b
                    }
                    None => Vec::new(),
                };
                if want != c.prefix {
                    ctx.violation("harness", "specvec-id-prefix", "varint-disagrees-with-refmodel", json!({"codec": codec_key(c), "specvec": hex(&c.prefix), "refmodel": hex(&want)}), json!({"codec": codec_key(c)}));
                }
            }
            let v = Vector {
                crate_ix,
                idx: i as u64,
                kind: c.kind,
                name: c.name.clone(),
                expect: Expect::Ok,
                class: "typical".into(),
                id: c.id.clone(),
                payload: c.base.clone(),
                tag: "codec-base".into(),
                has_bool: c.has_bool,
            };
            if check_vector(ctx, &v) {
                ctx.seen(&format!("codecs_{}", SPECS[crate_ix].0), &codec_key(c));
            }
            ctx.case(Some(fnv1a(format!("base|{}|{}", crate_ix, codec_key(c)).as_bytes())));
            if c.kind != Kind::Object {
                check_truncations(ctx, crate_ix, c);
            }
            if c.kind == Kind::Object {
                if let (Some(Tid::Ordinal(o)), Some(n)) = (parse_tid(&c.id), c.nwords) {
                    described_sizes.insert(o, (n, c.name.clone()));
                }
            }
        }
        // obj_size: described ids have the described word count, no other id has a size.
        for id in 0..=u16::MAX {
            if id > 512 && id % 257 != 0 && id != u16::MAX {
                continue;
            }
            let (want, name) = match described_sizes.get(&id) {
                Some((n, name)) => (Some(*n), name.clone()),
                None => (None, "<undescribed-id>".to_string()),
            };
            check_obj_size(ctx, crate_ix, id, want, &name);
        }
    }
}

fn check_obj_size(ctx: &mut Ctx, crate_ix: usize, id: u16, want: Option<u32>, name: &str) {
    let got = catch(|| api_obj_size(crate_ix, id));
    ctx.count("obj_size_checked", 1);
    let case_data = json!({"crate_ix": crate_ix, "id": id, "described": want, "name": name});
    match got {
        Err(p) => ctx.panic_violation(&format!("obj_size|crate={}", SPECS[crate_ix].0), "any-id", &p, case_data),
        Ok(g) => {
            if g != want {
                ctx.violation(
                    "obj-size",
                    &site_of(crate_ix, Kind::Object, name),
                    if want.is_some() { "described-id" } else { "undescribed-id" },
                    json!({"type_id": id, "obj_size": g, "described_words": want}),
                    case_data,
                );
            } else if want.is_some() {
                ctx.count("obj_size_described_equal", 1);
            }
        }
    }
}

fn vectors_phase(ctx: &mut Ctx, data: &[Option<SpecData>]) {
    if !ctx.set_phase("vectors") {
        return;
    }
    if let Some(r) = ctx.replay.clone() {
        let v = Vector::from_case_data(&r["case_data"]);
        check_vector(ctx, &v);
        return;
    }
    let mut sampled: Vec<&'static str> = Vec::new();
    for (crate_ix, d) in data.iter().enumerate() {
        let d = match d {
            Some(d) => d,
            None => continue,
        };
        ctx.max(&format!("vectors_described_{}", SPECS[crate_ix].0), d.total_vectors);
        ctx.max(&format!("codecs_described_{}", SPECS[crate_ix].0), d.codecs.len() as u64);
        for v in &d.vectors {
            ctx.set_case((crate_ix as u64) * 1_000_000 + v.idx);
            let reached = check_vector(ctx, v);
            if reached && matches!(v.expect, Expect::Ok | Expect::OkDecodeOnly) && !v.name.starts_with('<') {
                ctx.seen(&format!("codecs_{}", SPECS[crate_ix].0), &format!("{}:{}", v.kind.name(), v.name));
            }
            ctx.seen("classes_swept", &v.class);
            ctx.case(Some(fnv1a(format!("vec|{}|{}", crate_ix, v.idx).as_bytes())));
            if sampled.len() < 3 && crate_ix >= 1 && v.class != "typical" && !sampled.contains(&v.expect.name()) {
                sampled.push(v.expect.name());
                ctx.sample(json!({"phase": "vectors", "crate": SPECS[crate_ix].0, "kind": v.kind.name(), "name": v.name, "expect": v.expect.name(), "tag": v.tag,
                    "payload": if v.kind == Kind::Object { v.payload.clone() } else { hex_short(&unhex(&v.payload)) }}));
            }
        }
    }
}

// ------------------------------------------------------------------ random / mutation phase

fn noise(rng: &mut Rng, len: usize) -> Vec<u8> {
    // Plain PRNG bytes half of the time, otherwise bytes that look like short
    // varints / ASCII / NULs so that decoders get past the first members.
    let mut v = rng.bytes(len);
    if rng.bool() {
        for b in &mut v {
            *b = match rng.below(8) {
                0 => 0,
                1 => 1,
                2 => rng.range(0x20, 0x7e) as u8,
                3 => rng.range(0, 0x3f) as u8,
                4 => 0x40 | rng.range(0, 0x3f) as u8,
                5 => 0x80 | (*b & 0x7f),
                _ => *b,
            };
        }
    }
    v
}

fn noise_n(rng: &mut Rng, lo: i64, hi: i64) -> Vec<u8> {
    let len = rng.range(lo, hi) as usize;
    noise(rng, len)
}

fn mutate_bytes(rng: &mut Rng, base: &[u8]) -> (Vec<u8>, &'static str) {
    let mut b = base.to_vec();
    match rng.below(6) {
        0 if !b.is_empty() => {
            for _ in 0..rng.range(1, 3) {
                let i = rng.usize_below(b.len());
                b[i] ^= 1 << rng.below(8);
            }
            (b, "bitflip")
        }
        1 if !b.is_empty() => {
            let cut = rng.usize_below(b.len());
            b.truncate(cut);
            (b, "truncate")
        }
        2 if !b.is_empty() => {
            let i = rng.usize_below(b.len());
            b[i] = rng.u8();
            (b, "byte-replace")
        }
        3 => {
            let i = rng.usize_below(b.len() + 1);
            let ins = noise_n(rng, 1, 6);
            let tail = b.split_off(i);
            b.extend(ins);
            b.extend(tail);
            (b, "insert")
        }
        4 if b.len() >= 2 => {
            let i = rng.usize_below(b.len());
            b.remove(i);
            (b, "delete")
        }
        _ => {
            let extra = noise_n(rng, 1, 24);
            b.extend(extra);
            (b, "append")
        }
    }
}

fn random_case(ctx: &mut Ctx, rng: &mut Rng, data: &[Option<SpecData>]) {
    let crate_ix = rng.usize_below(4);
    let d = match &data[crate_ix] {
        Some(d) if !d.codecs.is_empty() => d,
        _ => {
            ctx.case(None);
            return;
        }
    };
    let c = &d.codecs[rng.usize_below(d.codecs.len())];
    let crate_name = SPECS[crate_ix].0;
    if c.kind == Kind::Object {
        let base = parse_words(&c.base);
        let mut words = base.clone();
        let mut tid = parse_tid(&c.id).expect("object id");
        let mode = match rng.below(6) {
            0 => {
                for w in &mut words {
                    *w = rng.edgy_i32();
                }
                "all-random"
            }
            1 if !words.is_empty() => {
                let i = rng.usize_below(words.len());
                words[i] = rng.edgy_i32();
                "one-word"
            }
            2 if !words.is_empty() => {
                let cut = rng.usize_below(words.len());
                words.truncate(cut);
                "truncate"
            }
            3 => {
                for _ in 0..rng.range(1, 4) {
                    words.push(rng.edgy_i32());
                }
                "append"
            }
            4 => {
                tid = if rng.bool() {
                    Tid::Ordinal(rng.range(0, 80) as u16)
                } else {
                    let mut u = [0; 16];
                    rng.fill(&mut u);
                    Tid::Uuid(u)
                };
                "other-type-id"
            }
            _ => {
                for w in &mut words {
                    *w = rng.range(-2, 3) as i32;
                }
                "small-values"
            }
        };
        ctx.count(&format!("random_object_{}", mode), 1);
        let case_data = json!({"crate": crate_name, "kind": "object", "codec": c.name, "mode": mode, "type_id": format!("{:?}", tid), "words": words});
        match catch(|| api_obj(crate_ix, tid, &words, true)) {
            Err(p) => ctx.panic_violation(&format!("decode|{}", site_of(crate_ix, Kind::Object, &c.name)), &format!("random|{}", mode), &p, case_data),
            Ok(o) => {
                let nontrivial = match &o.result {
                    Ok(d) => {
                        ctx.count("random_decode_ok", 1);
                        if let Some(Reenc::Panic(p)) = &d.reenc {
                            ctx.panic_violation(&format!("encode-after-decode|{}", site_of(crate_ix, Kind::Object, &c.name)), &format!("random|{}", mode), p, case_data);
                        } else if let Some(Reenc::Same(back)) = &d.reenc {
                            // words consumed by the decoder come back unchanged
                            if !c.has_bool && o.warnings.is_empty() && *back != words {
                                ctx.violation("reencode-differs", &site_of(crate_ix, Kind::Object, &d.name), &format!("random|{}", mode),
                                    json!({"words": words, "reencoded": back, "decoded": short(&d.debug)}), case_data);
                            }
                        }
                        true
                    }
                    Err(e) => {
                        ctx.count("random_decode_err", 1);
                        ctx.seen("error_variants", e);
                        e != "UnknownId"
                    }
                };
                let h = fnv1a(format!("{}|{:?}|{:?}", crate_ix, tid, words).as_bytes());
                ctx.case(if nontrivial { Some(h) } else { None });
            }
        }
        return;
    }
    // messages
    let base = unhex(&c.base);
    let (bytes, mode): (Vec<u8>, &'static str) = match rng.below(11) {
        10 if c.kind != Kind::Connless => {
            // the id of a valid message replaced by a negative integer: the
            // descriptions know ordinals >= 1 and 0 + UUID only
            let neg = match rng.below(4) {
                0 => -1,
                1 => -2,
                2 => -(rng.range(1, 300) as i32),
                _ => rng.edgy_i32() | i32::MIN,
            };
            let skip = varint::decode(&base).map(|d| d.consumed).unwrap_or(0);
            let mut b = varint::encode(neg);
            b.extend_from_slice(&base[skip..]);
            (b, "negative-id")
        }
        0 | 1 | 2 => {
            let mut b = c.prefix.clone();
            let len = match rng.below(4) {
                0 => rng.range(0, 4),
                1 => rng.range(0, 24),
                2 => rng.range(0, 96),
                _ => rng.range(0, 600),
            } as usize;
            b.extend(noise(rng, len));
            (b, "id+noise")
        }
        3 | 4 | 5 | 6 => mutate_bytes(rng, &base),
        7 => {
            // mutate a swept vector of this shard instead of the typical one
            let pool: Vec<&Vector> = d.vectors.iter().filter(|v| v.kind == c.kind && v.name == c.name && v.expect == Expect::Ok).collect();
            if pool.is_empty() {
                mutate_bytes(rng, &base)
            } else {
                let v = pool[rng.usize_below(pool.len())];
                let (b, _) = mutate_bytes(rng, &unhex(&v.payload));
                (b, "mutated-sweep-vector")
            }
        }
        8 => {
            // a PRNG id (ordinal through the harness's own varint codec, or a UUID) and noise
            let mut b = Vec::new();
            if c.kind == Kind::Connless {
                b.extend_from_slice(&[0xff, 0xff, 0xff, 0xff]);
                b.extend(noise(rng, 4));
            } else if rng.below(4) == 0 {
                b.extend(varint::encode(rng.below(2) as i32));
                b.extend(rng.bytes(16));
            } else {
                b.extend(varint::encode(rng.range(-4, 140) as i32));
            }
            b.extend(noise_n(rng, 0, 64));
            (b, "random-id")
        }
        _ => (noise_n(rng, 0, 80), "noise"),
    };
    ctx.count(&format!("random_msg_{}", mode), 1);
    let site = site_of(crate_ix, c.kind, &c.name);
    let case_data = json!({"crate": crate_name, "kind": c.kind.name(), "codec": c.name, "mode": mode, "bytes": hex(&bytes)});
    let via_any = c.kind != Kind::Connless && rng.below(4) == 0;
    let r = if via_any { catch(|| api_msg_any(crate_ix, &bytes, true)) } else { catch(|| api_msg(crate_ix, c.kind, &bytes, true)) };
    match r {
        Err(p) => ctx.panic_violation(&format!("decode|{}", site), &format!("random|{}", mode), &p, case_data),
        Ok(o) => {
            let nontrivial = match &o.result {
                Ok(d) => {
                    ctx.count("random_decode_ok", 1);
                    ctx.seen(&format!("random_decoded_{}", crate_name), &format!("{}:{}", d.variant, d.name));
                    if let Some(what) = optional_prefix_violation(&d.debug) {
                        ctx.violation("accepted", &format!("crate={}|{}={}", crate_name, d.variant, d.name), &format!("optional-present-after-absent|random|{}", mode),
                            json!({"what": what, "decoded": short(&d.debug)}), case_data.clone());
                    }
                    if c.kind != Kind::Connless {
                        if let Some(id) = varint::decode(&bytes) {
                            if id.value < 0 && !id.padding_nonzero {
                                ctx.violation("accepted", &format!("crate={}|message-id", crate_name), "negative-id-accepted",
                                    json!({"id": id.value, "decoded_as": format!("{}:{}", d.variant, d.name)}), case_data.clone());
                            }
                        }
                    }
                    match &d.reenc {
                        Some(Reenc::Panic(p)) => {
                            // Re-encoding a value whose trailing optional is absent is asserted
                            // against by design (DESIGN.md Appendix A); anything else is reported.
                            if p.msg.contains(".is_some()") {
                                ctx.count("random_encode_absent_optional_assert", 1);
                            } else {
                                ctx.panic_violation(&format!("encode-after-decode|crate={}|{}={}", crate_name, d.variant, d.name), &format!("random|{}", mode), p, case_data);
                            }
                        }
                        Some(Reenc::Same(b)) => {
                            if *b == bytes && o.warnings.is_empty() {
                                ctx.count("random_still_canonical", 1);
                            }
                        }
                        _ => {}
                    }
                    true
                }
                Err(e) => {
                    ctx.count("random_decode_err", 1);
                    ctx.seen("error_variants", e);
                    e != "UnknownId"
                }
            };
            for w in &o.warnings {
                ctx.seen("warning_variants", w);
            }
            let h = fnv1a(&bytes) ^ fnv1a(format!("{}|{}|{}", crate_ix, c.kind.name(), via_any).as_bytes());
            ctx.case(if nontrivial { Some(h) } else { None });
            if ctx.want_sample() && nontrivial && rng.below(500) == 0 {
                ctx.sample(json!({"phase": "random", "crate": crate_name, "codec": c.name, "mode": mode, "bytes": hex_short(&bytes),
                    "result": match &o.result { Ok(d) => short(&d.debug), Err(e) => format!("Err({})", e) }, "warnings": o.warnings}));
            }
        }
    }
}

// ------------------------------------------------------------------ Miri tier

struct MiriObj {
    name: String,
    tid: Tid,
    nwords: usize,
    has_bool: bool,
}

fn json_title(name: &Value) -> String {
    let mut s = String::new();
    for part in name.as_array().expect("name") {
        for p in part.as_str().expect("name part").split('_') {
            let mut cs = p.chars();
            if let Some(c) = cs.next() {
                s.push(c.to_ascii_uppercase());
                s.extend(cs);
            }
        }
    }
    s
}

fn json_type_words(objs: &[Value], t: &Value) -> (usize, bool) {
    match t["kind"].as_str().expect("kind") {
        "boolean" => (1, true),
        "int32_twstring" => (t["count"].as_u64().expect("count") as usize, false),
        "array" => {
            let (n, b) = json_type_words(objs, &t["member_type"]);
            (n * t["count"].as_u64().expect("count") as usize, b)
        }
        _ => (1, false),
    }
}

fn json_obj_words(objs: &[Value], o: &Value) -> (usize, bool) {
    let mut n = 0;
    let mut b = false;
    if let Some(sup) = o.get("super") {
        let s = objs.iter().find(|x| &x["name"] == sup).expect("super object");
        let (sn, sb) = json_obj_words(objs, s);
        n += sn;
        b |= sb;
    }
    for m in o["members"].as_array().expect("members") {
        let (mn, mb) = json_type_words(objs, &m["type"]);
        n += mn;
        b |= mb;
    }
    (n, b)
}

fn miri_objects(crate_ix: usize) -> Vec<MiriObj> {
    let path = format!("{}/{}", SPEC_DIR, SPECS[crate_ix].1);
    let text = std::fs::read_to_string(&path).expect("protocol description");
    let v: Value = serde_json::from_str(&text).expect("protocol description json");
    let objs = v["snapshot_objects"].as_array().expect("snapshot_objects").clone();
    objs.iter()
        .map(|o| {
            let (nwords, has_bool) = json_obj_words(&objs, o);
            let tid = if let Some(n) = o["id"].as_u64() {
                Tid::Ordinal(n as u16)
            } else {
                let u = uuid::Uuid::parse_str(o["id"].as_str().expect("id")).expect("uuid");
                Tid::Uuid(*u.as_bytes())
            };
            MiriObj { name: json_title(&o["name"]), tid, nwords, has_bool }
        })
        .collect()
}

/// Exactly one decode + encode per snapshot-object type. Shards are mapped to
/// crates first (so that a shard parses one description only), then to objects.
fn miri_phase(ctx: &mut Ctx) {
    if !ctx.set_phase("miri-objects") {
        return;
    }
    let groups = ctx.nshards.min(4);
    let group = ctx.shard % groups;
    let sub = ctx.shard / groups;
    let subcount = (ctx.nshards - group + groups - 1) / groups;
    for crate_ix in 0..4usize {
        if crate_ix as u64 % groups != group {
            continue;
        }
        // An uninitialised-padding report aborts the interpreter and with it the
        // shard's output, so every object with a boolean member gets a shard of
        // its own where the shard count allows (one witness per object, no
        // evidence about other objects lost); otherwise such objects run last.
        let all: Vec<(usize, MiriObj)> = miri_objects(crate_ix).into_iter().enumerate().collect();
        let nbool = all.iter().filter(|(_, o)| o.has_bool).count() as u64;
        let mut objs: Vec<(usize, MiriObj)> = if nbool < subcount {
            let mut brank = 0u64;
            let mut prank = 0u64;
            let mut mine = Vec::new();
            for (j, o) in all {
                if o.has_bool {
                    if brank == sub {
                        mine.push((j, o));
                    }
                    brank += 1;
                } else {
                    if sub >= nbool && prank % (subcount - nbool) == sub - nbool {
                        mine.push((j, o));
                    }
                    prank += 1;
                }
            }
            mine
        } else {
            all.into_iter().filter(|(j, _)| *j as u64 % subcount == sub).collect()
        };
        objs.sort_by_key(|(j, o)| (o.has_bool, *j));
        for (j, o) in objs {
            ctx.set_case((crate_ix * 1_000_000 + j) as u64);
            let site = site_of(crate_ix, Kind::Object, &o.name);
            if o.has_bool {
                // The interpreter's report of the padding read carries no frame inside
                // /repo (the words are read by the comparison below); this line lets the
                // driver attribute the report to the object under examination.
                eprintln!("miri: re-encoding an object with boolean members: /repo/gamenet/{}/src/snap_obj.rs#{}", SPECS[crate_ix].0, o.name);
            }
            let mut done = false;
            for fill in [0i32, 1, 3, -1] {
                let words = vec![fill; o.nwords];
                let out = api_obj(crate_ix, o.tid, &words, true);
                if let Ok(d) = out.result {
                    ctx.count("miri_objects_decoded", 1);
                    ctx.seen(&format!("miri_objects_{}", SPECS[crate_ix].0), &o.name);
                    match d.reenc {
                        Some(Reenc::Same(back)) => {
                            // reading the words is what Miri flags when padding leaked into them
                            if back == words {
                                ctx.count("miri_objects_roundtripped", 1);
                            } else {
                                ctx.violation("reencode-differs", &site, if o.has_bool { "member-kind=boolean" } else { "member-kind=typical" },
                                    json!({"words": words, "reencoded": back}), json!({"crate_ix": crate_ix, "name": o.name, "words": words}));
                            }
                        }
                        Some(Reenc::Panic(p)) => ctx.panic_violation(&format!("encode|{}", site), "miri", &p, json!({"name": o.name, "words": words})),
                        _ => {}
                    }
                    if let Tid::Ordinal(id) = o.tid {
                        if api_obj_size(crate_ix, id) != Some(o.nwords as u32) {
                            ctx.violation("obj-size", &site, "described-id", json!({"type_id": id, "obj_size": api_obj_size(crate_ix, id), "described_words": o.nwords}), json!({"crate_ix": crate_ix, "id": id}));
                        }
                    }
                    ctx.case(Some(fnv1a(format!("miri|{}|{}", crate_ix, o.name).as_bytes())));
                    done = true;
                    break;
                }
            }
            if !done {
                ctx.count("miri_objects_no_uniform_fill_accepted", 1);
                ctx.note(&format!("miri: no uniform fill (0/1/3/-1) decodes {} {}", SPECS[crate_ix].0, o.name));
                ctx.case(None);
            }
        }
    }
}

fn main() {
    let mut ctx = Ctx::from_args("C14");
    ctx.rule = "vectors: every vector tools/specvec.py derives from the four protocol descriptions (per codec: typical encoding, each member swept over its declared boundaries one at a time, one-past-the-boundary / control-character / truncation violations, excess data, absent trailing optionals), vector i goes to shard i mod nshards, all distinct by construction; codec-base: the typical encoding of every codec and obj_size of ids 0..512 in every shard; random: per case a PRNG (crate, codec), then PRNG bytes after the codec's id, bit flips / truncations / insertions / deletions of a canonical vector, PRNG ids, or PRNG words for objects; a random case is non-trivial when the decoder got past the id (Ok, or an error other than UnknownId); distinct = hash of the input bytes/words and entry point".into();
    ctx.assumptions = vec![
        "tools/specvec.py is a faithful independent reading of the JSON descriptions (DESIGN.md Appendix A); member kinds flags/tick/tune_param are unconstrained".into(),
        "members carrying a `default` and objects marked dont_validate_size: truncation/excess is not decided by the description (expect=any, no-panic only)".into(),
        "re-encoding a value with an absent trailing optional is asserted against by design and not exercised for ok-vectors".into(),
        "Debug name of a decoded value is the struct name the generator derives from the described name".into(),
    ];
    if ctx.tier == Tier::Miri || cfg!(miri) {
        ctx.arm("miri-objects", 3600.0);
        miri_phase(&mut ctx);
        ctx.disarm();
        ctx.finish();
    }
    // Replays of vector cases carry their input; only the random phase needs the database.
    let need_db = match &ctx.replay {
        Some(r) => r["phase"].as_str() == Some("random"),
        None => true,
    };
    let data: Vec<Option<SpecData>> = if need_db { load_all(&mut ctx) } else { vec![None, None, None, None] };
    if need_db {
        let n: u64 = data.iter().flatten().map(|d| d.codecs.len() as u64).sum();
        ctx.max("codecs_described_total", n);
    }
    ctx.arm("vectors", 900.0);
    codec_base_phase(&mut ctx, &data);
    vectors_phase(&mut ctx, &data);
    ctx.disarm();
    // 200k (quick) / 5M (thorough) random or mutated inputs in total over the shards
    let per_shard = |total: u64| (total + ctx.nshards - 1) / ctx.nshards;
    let n = ctx.volume(per_shard(200_000), per_shard(5_200_000), 0, per_shard(40_000));
    ctx.arm("random", 1800.0);
    ctx.run_cases("random", n, |ctx, _idx, rng| random_case(ctx, rng, &data));
    ctx.disarm();
    ctx.finish();
}
