//! C07 — the Huffman codec is lossless, bounded and agrees with the reference.
//!
//! Compressor: round trip through both output forms, exact predicted lengths,
//! byte identity of the reference-compatible form with the bundled C++
//! implementation. Decompressor: every input against every output capacity
//! through a canary-guarded window; agreement with the C++ reference whenever
//! that one decodes successfully. Built-in table and generated tables.

use libtw2_huffman::instances::TEEWORLDS;
use libtw2_huffman::DecompressionError;
use libtw2_huffman::Huffman;
use serde_json::json;
use verif_harness::canary::Canary;
use verif_harness::catch;
use verif_harness::hex;
use verif_harness::hex_short;
use verif_harness::pktgen::recorded_compressed;
use verif_harness::pktgen::recorded_traffic;
use verif_harness::Ctx;
use verif_harness::Rng;
use verif_harness::Tier;

#[cfg(feature = "ffi")]
type Reference = libtw2_huffman_reference::Huffman;
#[cfg(not(feature = "ffi"))]
struct Reference;

fn default_frequencies() -> Vec<u32> {
    include_str!("/repo/huffman/data/frequencies").lines().filter_map(|l| l.trim().parse().ok()).collect()
}

#[cfg(feature = "ffi")]
fn make_reference(freq: &[u32]) -> Option<Reference> {
    Some(libtw2_huffman_reference::Huffman::from_frequencies(freq))
}
#[cfg(not(feature = "ffi"))]
fn make_reference(_freq: &[u32]) -> Option<Reference> {
    None
}

#[cfg(feature = "ffi")]
fn ref_compress(r: &Reference, input: &[u8]) -> Option<Vec<u8>> {
    let mut out = Vec::with_capacity(input.len() * 4 + 16);
    r.compress(input, &mut out).ok().map(|b| b.to_vec())
}
#[cfg(not(feature = "ffi"))]
fn ref_compress(_r: &Reference, _input: &[u8]) -> Option<Vec<u8>> {
    None
}
#[cfg(feature = "ffi")]
fn ref_decompress(r: &Reference, input: &[u8], cap: usize) -> Option<Vec<u8>> {
    let mut out = Vec::with_capacity(cap);
    r.decompress(input, &mut out).ok().map(|b| b.to_vec())
}
#[cfg(not(feature = "ffi"))]
fn ref_decompress(_r: &Reference, _input: &[u8], _cap: usize) -> Option<Vec<u8>> {
    None
}

struct Table<'a> {
    name: &'a str,
    h: &'a Huffman,
    reference: Option<&'a Reference>,
}

fn err_name(e: &DecompressionError) -> &'static str {
    match e {
        DecompressionError::Capacity(_) => "Capacity",
        DecompressionError::InvalidInput => "InvalidInput",
    }
}

/// All compressor oracles for one input.
fn check_compress(ctx: &mut Ctx, t: &Table, x: &[u8], rng: Option<&mut Rng>) {
    let case = json!({"table": t.name, "input": hex(x)});
    let r = catch(|| {
        let mut c = Vec::with_capacity(x.len() * 4 + 16);
        t.h.compress(x, &mut c).map_err(|_| "capacity")?;
        let mut cb = Vec::with_capacity(x.len() * 4 + 16);
        t.h.compress_bug(x, &mut cb).map_err(|_| "capacity")?;
        let mut d = Vec::with_capacity(x.len() + 8);
        let d1 = t.h.decompress(&c, &mut d).map(|b| b.to_vec()).map_err(|_| "decompress(compress)")?;
        let mut d = Vec::with_capacity(x.len() + 8);
        let d2 = t.h.decompress(&cb, &mut d).map(|b| b.to_vec()).map_err(|_| "decompress(compress_bug)")?;
        Ok::<_, &'static str>((c, cb, d1, d2, t.h.compressed_len(x), t.h.compressed_len_bug(x)))
    });
    let lc = if x.len() <= 2 { "len<=2" } else { "len>2" };
    let (c, cb, d1, d2, l, lb) = match r {
        Err(p) => {
            ctx.panic_violation("Huffman::compress", &format!("{}|{}", t.name, lc), &p, case);
            return;
        }
        Ok(Err(e)) => {
            ctx.violation("roundtrip", "Huffman::compress", &format!("{}|{}|{}", t.name, lc, e), json!({}), case);
            return;
        }
        Ok(Ok(v)) => v,
    };
    if d1 != x || d2 != x {
        ctx.violation("roundtrip", "Huffman::decompress", &format!("{}|{}|{}", t.name, lc, if d1 != x { "compact" } else { "reference-compatible" }), json!({"compressed": hex_short(&c), "decoded": hex_short(&d1)}), case);
        return;
    }
    if l != c.len() || lb != cb.len() {
        ctx.violation("predicted-length", "Huffman::compressed_len", &format!("{}|{}|{}", t.name, lc, if l != c.len() { "compact" } else { "reference-compatible" }), json!({"predicted": [l, lb], "actual": [c.len(), cb.len()]}), case);
        return;
    }
    if let Some(rf) = t.reference {
        if let Some(rc) = ref_compress(rf, x) {
            ctx.count("reference_compress_compared", 1);
            if rc != cb {
                ctx.violation("reference", "Huffman::compress_bug", &format!("{}|{}|differs-from-reference", t.name, lc), json!({"ours": hex_short(&cb), "reference": hex_short(&rc)}), case);
                return;
            }
        }
    }
    // capacity: too small a buffer must be refused and nothing outside the window written
    if let Some(rng) = rng {
        let caps: Vec<usize> = if c.len() <= 24 { (0..=c.len() + 1).collect() } else { vec![0, 1, c.len() - 1, c.len(), rng.usize_below(c.len())] };
        for cap in caps {
            for bug in [false, true] {
                let need = if bug { cb.len() } else { c.len() };
                let mut can = Canary::new(cap, 0x77);
                let r = catch(|| if bug { t.h.compress_bug(x, can.window()).map(|b| b.to_vec()) } else { t.h.compress(x, can.window()).map(|b| b.to_vec()) });
                ctx.count("compress_capacity_probes", 1);
                match r {
                    Err(p) => {
                        ctx.panic_violation("Huffman::compress", &format!("{}|capacity-probe", t.name), &p, case.clone());
                        return;
                    }
                    Ok(res) => {
                        let fits = cap >= need;
                        let ok = match &res {
                            Ok(b) => fits && b[..] == (if bug { &cb } else { &c })[..],
                            Err(_) => !fits,
                        };
                        if !ok || !can.intact() {
                            ctx.violation("capacity", "Huffman::compress", &format!("{}|{}", t.name, if !can.intact() { "wrote-outside-buffer" } else if fits { "refused-although-fits" } else { "accepted-although-too-small" }), json!({"cap": cap, "need": need, "bug": bug}), case.clone());
                            return;
                        }
                    }
                }
            }
        }
    }
}

/// All decompressor oracles for one input.
fn check_decompress(ctx: &mut Ctx, t: &Table, input: &[u8], origin: &str, rng: &mut Rng) {
    let case = json!({"table": t.name, "input": hex(input), "origin": origin});
    let big = input.len() * 8 + 64;
    let full = catch(|| {
        let mut can = Canary::new(big, 0x11);
        let r = t.h.decompress(input, can.window()).map(|b| b.to_vec()).map_err(|e| err_name(&e));
        (r, can.intact())
    });
    ctx.count(&format!("decompress_inputs[{}]", origin), 1);
    let (full, intact) = match full {
        Err(p) => {
            ctx.panic_violation("Huffman::decompress", &format!("{}|{}", t.name, origin), &p, case);
            return;
        }
        Ok(v) => v,
    };
    if !intact {
        ctx.violation("capacity", "Huffman::decompress", &format!("{}|wrote-outside-buffer", t.name), json!({"cap": big}), case);
        return;
    }
    // decompress_into_vec: capacity 8 x input
    let v = catch(|| t.h.decompress_into_vec(input));
    match (&full, v) {
        (_, Err(p)) => {
            ctx.panic_violation("Huffman::decompress_into_vec", &format!("{}|{}", t.name, origin), &p, case);
            return;
        }
        (Ok(out), Ok(res)) => {
            let fits = out.len() <= input.len() * 8;
            if fits != res.is_ok() || res.as_ref().map(|r| r != out).unwrap_or(false) {
                ctx.violation("capacity", "Huffman::decompress_into_vec", &format!("{}|inconsistent-with-decompress", t.name), json!({"needed": out.len()}), case);
                return;
            }
        }
        (Err(_), Ok(res)) => {
            if res.is_ok() {
                ctx.violation("capacity", "Huffman::decompress_into_vec", &format!("{}|ok-although-runaway", t.name), json!({}), case);
                return;
            }
        }
    }
    match &full {
        Ok(out) => {
            ctx.count("decompress_terminating", 1);
            let need = out.len();
            let caps: Vec<usize> = if need <= 40 { (0..=need + 2).collect() } else { vec![0, 1, need - 1, need, need + 1, need + 2, rng.usize_below(need), rng.usize_below(need)] };
            for cap in caps {
                let mut can = Canary::new(cap, 0x99);
                let r = catch(|| t.h.decompress(input, can.window()).map(|b| b.to_vec()).map_err(|e| err_name(&e)));
                ctx.count("decompress_capacity_probes", 1);
                match r {
                    Err(p) => {
                        ctx.panic_violation("Huffman::decompress", &format!("{}|capacity-probe", t.name), &p, case.clone());
                        return;
                    }
                    Ok(res) => {
                        let fits = cap >= need;
                        let ok = match &res {
                            Ok(b) => fits && b == out,
                            Err(e) => !fits && (*e == "Capacity" || *e == "InvalidInput"),
                        };
                        if !ok || !can.intact() {
                            ctx.violation("capacity", "Huffman::decompress", &format!("{}|{}", t.name, if !can.intact() { "wrote-outside-buffer" } else if fits { "refused-although-fits" } else { "accepted-although-too-small" }), json!({"cap": cap, "need": need, "result": format!("{:?}", res.as_ref().map(|b| b.len()))}), case.clone());
                            return;
                        }
                    }
                }
            }
        }
        Err(_) => {
            ctx.count("decompress_runaway", 1);
            for cap in [0usize, 1, 7, rng.usize_below(big)] {
                let mut can = Canary::new(cap, 0x99);
                let r = catch(|| t.h.decompress(input, can.window()).is_ok());
                match r {
                    Err(p) => {
                        ctx.panic_violation("Huffman::decompress", &format!("{}|capacity-probe", t.name), &p, case.clone());
                        return;
                    }
                    Ok(is_ok) => {
                        if is_ok || !can.intact() {
                            ctx.violation("capacity", "Huffman::decompress", &format!("{}|{}", t.name, if !can.intact() { "wrote-outside-buffer" } else { "runaway-accepted-in-smaller-buffer" }), json!({"cap": cap}), case.clone());
                            return;
                        }
                    }
                }
            }
        }
    }
    // reference: whenever it decodes successfully, ours returns the same bytes
    if let Some(rf) = t.reference {
        let cap = big.min(1 << 20);
        if let Some(rout) = ref_decompress(rf, input, cap) {
            ctx.count("reference_decoded_ok", 1);
            let mut can = Canary::new(cap, 0x42);
            let ours = t.h.decompress(input, can.window()).map(|b| b.to_vec()).map_err(|e| err_name(&e));
            if ours.as_ref().ok() != Some(&rout) {
                ctx.violation("reference", "Huffman::decompress", &format!("{}|{}|differs-from-reference", t.name, origin), json!({"reference": hex_short(&rout), "ours": format!("{:?}", ours.map(|b| hex_short(&b)))}), case);
            }
        } else {
            ctx.count("reference_decode_failed", 1);
        }
    }
}

fn gen_input(rng: &mut Rng, recorded: &[Vec<u8>], maxlen: usize) -> Vec<u8> {
    let len = match rng.below(6) {
        0 => rng.usize_below(4),
        1 => rng.usize_below(40),
        2 => rng.usize_below(300),
        3 => rng.usize_below(1500),
        _ => rng.usize_below(maxlen + 1),
    };
    match rng.below(7) {
        0 => vec![0; len],
        1 => vec![rng.u8(); len],
        2 => (0..len).map(|i| i as u8).collect(),                // ramp
        3 => {
            // runs
            let mut v = Vec::new();
            while v.len() < len {
                let b = rng.u8();
                let n = rng.range(1, 50) as usize;
                v.extend(std::iter::repeat(b).take(n));
            }
            v.truncate(len);
            v
        }
        4 => {
            let mut v = Vec::new();
            while v.len() < len {
                v.extend_from_slice(&recorded[rng.usize_below(recorded.len())]);
            }
            v.truncate(len);
            v
        }
        _ => rng.bytes(len),
    }
}

fn gen_frequencies(rng: &mut Rng) -> (Vec<u32>, &'static str) {
    let kind = rng.below(6);
    let mut f = vec![0u32; 256];
    let name = match kind {
        0 => {
            for x in &mut f {
                *x = rng.range(0, 1000) as u32;
            }
            "uniform"
        }
        1 => {
            for x in &mut f {
                *x = if rng.chance(1, 4) { rng.range(1, 100_000) as u32 } else { rng.range(1, 20) as u32 };
            }
            "skewed"
        }
        2 => {
            let c = rng.range(1, 5) as u32;
            for x in &mut f {
                *x = c;
            }
            "constant"
        }
        3 => {
            for (i, x) in f.iter_mut().enumerate() {
                *x = (1 + i as u32 % 16) * rng.range(1, 3) as u32;
            }
            "ties"
        }
        5 => {
            // deep: a doubling chain of k rare symbols below 256-k equally frequent ones,
            // so that the rarest codes (and EOF, frequency 1) are 8+k <= 24 bits long
            let k = rng.range(8, 15) as usize;
            let start = rng.usize_below(256 - k);
            for x in f.iter_mut() {
                *x = 1 << k;
            }
            for i in 0..k {
                f[start + i] = (1u32 << i) * if rng.chance(1, 8) { 3 } else { 1 };
            }
            "deep"
        }
        _ => {
            // mildly geometric: depth stays well below 24
            for (i, x) in f.iter_mut().enumerate() {
                *x = 1 + ((1u64 << (i % 14)) as u32) * rng.range(1, 3) as u32;
            }
            "geometric"
        }
    };
    (f, name)
}

fn main() {
    let mut ctx = Ctx::from_args("C07");
    ctx.rule = "compressor inputs: all byte strings of length <= 2 (exhaustive, built-in table), structured (zeros, repeated byte, ramps, runs, recorded game traffic) and PRNG strings up to 8 KiB; each compressed in both forms into canary-guarded buffers of every capacity (short) or boundary capacities; decompressor inputs: valid streams, every/PRNG truncation, extension with trailing bytes, PRNG garbage, recorded streams - each against every output capacity 0..needed+2 (short) or boundary capacities; tables: the built-in one and generated ones (uniform, skewed, constant, ties, geometric, deep = codes of up to 24 bits), for which streams are also fed with their last 1-4 bytes cut off; distinct = hash of table and input bytes, non-trivial = input non-empty".into();
    ctx.assumptions = vec![
        "generated frequency tables keep sums below 2^31 and depth <= 24 (the constructor panics above that; such vectors are counted and skipped, not claimed)".into(),
        "reference comparison of the decoder is one-directional: only when the C++ reference returns >= 0".into(),
    ];
    let recorded = recorded_traffic();
    let recorded_c = recorded_compressed();
    let freq = default_frequencies();
    assert_eq!(freq.len(), 256);
    let reference = make_reference(&freq);
    let builtin = Table { name: "builtin", h: &TEEWORLDS, reference: reference.as_ref() };

    // ---- exhaustive: all inputs of length <= 2
    if ctx.set_phase("exhaustive") {
        if let Some(r) = ctx.replay.clone() {
            let x = verif_harness::unhex(r["case_data"]["input"].as_str().unwrap());
            let mut rng = Rng::new(1);
            check_compress(&mut ctx, &builtin, &x, Some(&mut rng));
        } else {
            ctx.arm("exhaustive", 900.0);
            let mut n = 0u64;
            let mut rng = Rng::new(ctx.case_seed("exhaustive", 0));
            let total = 1 + 256 + 65536u64;
            let step = if ctx.tier == Tier::Miri { 4099 } else { 1 };
            let mut i = ctx.shard * step;
            while i < total {
                let x: Vec<u8> = if i == 0 { vec![] } else if i <= 256 { vec![(i - 1) as u8] } else { vec![((i - 257) >> 8) as u8, (i - 257) as u8] };
                ctx.set_case(i);
                let probe = i % 16 == 0;
                check_compress(&mut ctx, &builtin, &x, if probe { Some(&mut rng) } else { None });
                if i % 64 == 0 {
                    let c = TEEWORLDS.compress_into_vec(&x);
                    check_decompress(&mut ctx, &builtin, &c, "valid-short", &mut rng);
                }
                n += 1;
                i += ctx.nshards * step;
            }
            ctx.disarm();
            ctx.count("exhaustive_inputs", n);
            ctx.cases_bulk(n, n);
            if !ctx.is_sanitizer_tier() {
                ctx.exhaustive = Some(true);
                ctx.note("exhaustive: every compressor input of length <= 2 (65793 strings, exhaustive for that sub-space); everything else is sampled");
            }
        }
    }

    ctx.arm("random", 1800.0);
    let n = ctx.volume(8_000, 150_000, 6, 300);
    ctx.run_cases("compress", n, |ctx, _i, rng| {
        let x = gen_input(rng, &recorded, 8192);
        check_compress(ctx, &builtin, &x, Some(rng));
        ctx.case(if x.is_empty() { None } else { Some(verif_harness::fnv1a(&x)) });
        if ctx.want_sample() && rng.chance(1, 100) {
            ctx.sample(json!({"phase": "compress", "len": x.len(), "input": hex_short(&x), "compressed_len": TEEWORLDS.compressed_len(&x)}));
        }
    });
    let n = ctx.volume(30_000, 500_000, 10, 600);
    ctx.run_cases("decompress", n, |ctx, _i, rng| {
        let (input, origin): (Vec<u8>, &str) = match rng.below(7) {
            0 => {
                let x = gen_input(rng, &recorded, 600);
                (TEEWORLDS.compress_into_vec(&x), "valid")
            }
            1 => {
                let x = gen_input(rng, &recorded, 600);
                let mut c = TEEWORLDS.compress_into_vec(&x);
                let cut = rng.usize_below(c.len() + 1);
                c.truncate(cut);
                (c, "truncated")
            }
            2 => {
                let x = gen_input(rng, &recorded, 600);
                let mut c = Vec::with_capacity(x.len() * 4 + 16);
                TEEWORLDS.compress_bug(&x, &mut c).unwrap();
                let extra = rng.range(0, 8) as usize;
                let e = rng.bytes(extra);
                c.extend(e);
                (c, "extended")
            }
            3 => {
                let l = rng.range(0, 64) as usize;
                (rng.bytes(l), "garbage-short")
            }
            4 => {
                let l = rng.range(0, 1400) as usize;
                (rng.bytes(l), "garbage")
            }
            5 => (recorded_c[rng.usize_below(recorded_c.len())].1.clone(), "recorded"),
            _ => {
                let mut c = recorded_c[rng.usize_below(recorded_c.len())].1.clone();
                if !c.is_empty() {
                    let i = rng.usize_below(c.len());
                    c[i] ^= 1 << rng.below(8);
                }
                (c, "recorded-bitflip")
            }
        };
        check_decompress(ctx, &builtin, &input, origin, rng);
        ctx.case(if input.is_empty() { None } else { Some(verif_harness::fnv1a(&input) ^ 0xdec0) });
        if ctx.want_sample() && rng.chance(1, 300) {
            ctx.sample(json!({"phase": "decompress", "origin": origin, "len": input.len(), "input": hex_short(&input)}));
        }
    });
    let n = ctx.volume(60, 1_500, 1, 4);
    ctx.run_cases("tables", n, |ctx, _i, rng| {
        let (f, fname) = gen_frequencies(rng);
        let h = match catch(|| Huffman::from_frequencies(&f)) {
            Ok(h) => h,
            Err(_) => {
                ctx.count(&format!("tables_rejected_by_constructor[{}]", fname), 1);
                return;
            }
        };
        ctx.count(&format!("tables[{}]", fname), 1);
        let rf = make_reference(&f);
        let name = format!("generated-{}", fname);
        let t = Table { name: &name, h: &h, reference: rf.as_ref() };
        for _ in 0..20 {
            let x = gen_input(rng, &recorded, 400);
            check_compress(ctx, &t, &x, Some(rng));
            let c = match catch(|| h.compress_into_vec(&x)) {
                Ok(c) => c,
                Err(_) => continue, // reported by check_compress above
            };
            let mut c2 = c.clone();
            if rng.bool() && !c2.is_empty() {
                let cut = rng.usize_below(c2.len());
                c2.truncate(cut);
            }
            check_decompress(ctx, &t, &c2, "table-stream", rng);
            // streams whose trailing bytes are missing: the decoder supplies zero bits (a
            // long EOF code may span several of them); and the empty stream
            for cut in 1..=4usize {
                if c.len() >= cut && rng.chance(1, 2) {
                    check_decompress(ctx, &t, &c[..c.len() - cut], "table-stream-tail-cut", rng);
                }
            }
            if rng.chance(1, 10) {
                check_decompress(ctx, &t, &[], "table-stream-tail-cut", rng);
            }
            let l = rng.range(0, 40) as usize;
            let g = rng.bytes(l);
            check_decompress(ctx, &t, &g, "table-garbage", rng);
        }
        ctx.case(Some(verif_harness::fnv1a(&f.iter().flat_map(|x| x.to_le_bytes()).collect::<Vec<u8>>())));
    });
    ctx.disarm();
    ctx.finish();
}
