//! C08 — variable-length integers and packed fields round-trip canonically.
//!
//! Oracles (see DESIGN.md §5/C08): an independent varint codec written from
//! doc/int.md (harness/src/refmodel/varint.rs); a byte-string model of the
//! packer; pointer-range checks on everything the unpacker returns.

use arrayvec::ArrayVec;
use libtw2_packer::with_packer;
use libtw2_packer::ExcessData;
use libtw2_packer::Unpacker;
use libtw2_packer::Warning;
use libtw2_warn::Warn;
use serde_json::json;
use verif_harness::canary::inside;
use verif_harness::canary::Canary;
use verif_harness::catch;
use verif_harness::hex;
use verif_harness::refmodel::varint;
use verif_harness::Ctx;
use verif_harness::Rng;
use verif_harness::Tier;

#[derive(Default)]
struct W {
    overlong: u32,
    padding: u32,
    excess: u32,
}
impl Warn<Warning> for W {
    fn warn(&mut self, w: Warning) {
        match w {
            Warning::OverlongIntEncoding => self.overlong += 1,
            Warning::NonZeroIntPadding => self.padding += 1,
            Warning::ExcessData => self.excess += 1,
        }
    }
}
impl Warn<ExcessData> for W {
    fn warn(&mut self, _: ExcessData) {
        self.excess += 1;
    }
}
impl W {
    fn none(&self) -> bool {
        self.overlong == 0 && self.padding == 0 && self.excess == 0
    }
}

fn check_int(ctx: &mut Ctx, v: i32) {
    let mut buf: ArrayVec<[u8; 16]> = ArrayVec::new();
    let r = with_packer(&mut buf, |mut p| p.write_int(v));
    if r.is_err() {
        ctx.violation("value-differs", "Packer::write_int", "capacity-error-with-room", json!({"v": v}), json!({"v": v}));
        return;
    }
    let expect = varint::encode(v);
    if buf[..] != expect[..] || buf.len() != varint::min_len(v) {
        ctx.violation(
            "value-differs",
            "Packer::write_int",
            &format!("encoding-not-canonical|len={}", varint::min_len(v)),
            json!({"v": v, "got": hex(&buf), "expected": hex(&expect)}),
            json!({"v": v}),
        );
        return;
    }
    let mut w = W::default();
    let mut u = Unpacker::new(&buf);
    let got = u.read_int(&mut w);
    if got != Ok(v) || !w.none() || !u.is_empty() || u.num_bytes_read() != buf.len() {
        ctx.violation(
            "value-differs",
            "Unpacker::read_int",
            &format!("roundtrip|len={}", buf.len()),
            json!({"v": v, "bytes": hex(&buf), "got": format!("{:?}", got), "overlong": w.overlong, "padding": w.padding, "left": u.as_slice().len()}),
            json!({"v": v}),
        );
    }
}

fn sweep_ints(ctx: &mut Ctx) {
    if !ctx.set_phase("int-sweep") {
        return;
    }
    if let Some(c) = ctx.replay_case() {
        check_int(ctx, c as u32 as i32);
        return;
    }
    // The 2^32 values are split into nshards contiguous ranges; quick visits a
    // strided subset of its range plus every boundary value.
    let total: u64 = 1 << 32;
    let lo = total * ctx.shard / ctx.nshards;
    let hi = total * (ctx.shard + 1) / ctx.nshards;
    let stride: u64 = match ctx.tier {
        Tier::Thorough => 1,
        Tier::Quick => 251,
        Tier::Asan => 65_521,
        Tier::Miri => 16_777_213,
    };
    ctx.arm("int-sweep", 600.0);
    let mut n = 0u64;
    let mut x = lo;
    while x < hi {
        ctx.set_case(x);
        check_int(ctx, x as u32 as i32);
        n += 1;
        x += stride;
    }
    // Boundaries: +-2^k, +-2^k +-1 and the documented length limits.
    let mut edges: Vec<i32> = vec![0, 1, -1, i32::MIN, i32::MAX, i32::MIN + 1, i32::MAX - 1];
    for k in 0..31 {
        for d in [-2i64, -1, 0, 1, 2] {
            for s in [1i64, -1] {
                let v = s * (1i64 << k) + d;
                if v >= i32::MIN as i64 && v <= i32::MAX as i64 {
                    edges.push(v as i32);
                }
            }
        }
    }
    if ctx.shard == 0 {
        for &v in &edges {
            ctx.set_case(v as u32 as u64);
            check_int(ctx, v);
            n += 1;
        }
    }
    ctx.disarm();
    ctx.count("int_roundtrip", n);
    ctx.cases_bulk(n, n);
    if ctx.tier == Tier::Thorough {
        ctx.exhaustive = Some(true);
        ctx.note("int-sweep: all 2^32 integers enumerated (exhaustive for that sub-space)");
    }
    ctx.sample(json!({"phase": "int-sweep", "range": [lo, hi], "stride": stride, "example": {"v": edges[9], "bytes": hex(&varint::encode(edges[9]))}}));
}

/// One decoder input against the reference decoder.
fn check_decode(ctx: &mut Ctx, bytes: &[u8]) {
    let mut w = W::default();
    let mut u = Unpacker::new(bytes);
    let got = u.read_int(&mut w);
    let want = varint::decode(bytes);
    let class = format!("len={}", bytes.len().min(6));
    match (got, want) {
        (Err(_), None) => {
            ctx.count("decode_err", 1);
        }
        (Ok(v), Some(d)) => {
            let consumed = u.num_bytes_read();
            if consumed != d.consumed {
                ctx.violation("value-differs", "Unpacker::read_int", &format!("consumed|{}", class),
                    json!({"bytes": hex(bytes), "consumed": consumed, "expected": d.consumed}), json!({"bytes": hex(bytes)}));
                return;
            }
            if !d.padding_nonzero && v != d.value {
                ctx.violation("value-differs", "Unpacker::read_int", &format!("value|{}", class),
                    json!({"bytes": hex(bytes), "got": v, "expected": d.value}), json!({"bytes": hex(bytes)}));
                return;
            }
            // warning-free exactly when the consumed bytes are the canonical encoding
            let canonical = varint::encode(v)[..] == bytes[..consumed];
            if w.none() != canonical {
                ctx.violation("warning", "Unpacker::read_int", &format!("warning-iff-noncanonical|{}|canonical={}", class, canonical),
                    json!({"bytes": hex(bytes), "value": v, "overlong": w.overlong, "padding": w.padding, "canonical": canonical}), json!({"bytes": hex(bytes)}));
                return;
            }
            // no shorter encoding than the canonical one exists: any string that
            // decodes to v is at least min_len(v) long.
            if !d.padding_nonzero && consumed < varint::min_len(v) {
                ctx.violation("value-differs", "doc/int.md", "shorter-encoding-exists",
                    json!({"bytes": hex(bytes), "value": v}), json!({"bytes": hex(bytes)}));
                return;
            }
            if d.padding_nonzero { ctx.count("decode_padding_nonzero", 1); }
            if !canonical { ctx.count("decode_noncanonical", 1); } else { ctx.count("decode_canonical", 1); }
            // rest must be exactly the unread tail
            if !inside(u.as_slice(), bytes) || u.as_slice().len() != bytes.len() - consumed {
                ctx.violation("provenance", "Unpacker::as_slice", &class, json!({"bytes": hex(bytes)}), json!({"bytes": hex(bytes)}));
            }
        }
        (g, wnt) => {
            ctx.violation("value-differs", "Unpacker::read_int", &format!("error-iff-truncated|{}", class),
                json!({"bytes": hex(bytes), "got": format!("{:?}", g), "expected": format!("{:?}", wnt)}), json!({"bytes": hex(bytes)}));
        }
    }
}

fn sweep_decoder(ctx: &mut Ctx) {
    if !ctx.set_phase("decode-sweep") {
        return;
    }
    if let Some(r) = ctx.replay.clone() {
        let bytes = verif_harness::unhex(r["case_data"]["bytes"].as_str().unwrap());
        check_decode(ctx, &bytes);
        return;
    }
    const MID: [u8; 6] = [0x00, 0x01, 0x7f, 0x80, 0xff, 0x81];
    ctx.arm("decode-sweep", 600.0);
    let mut n = 0u64;
    let full = !matches!(ctx.tier, Tier::Miri);
    let step = if full { 1 } else { 37 };
    // first byte partitioned over shards
    let mut b0 = ctx.shard as usize;
    if ctx.shard == 0 {
        check_decode(ctx, &[]);
        n += 1;
    }
    while b0 < 256 {
        let a = b0 as u8;
        check_decode(ctx, &[a]);
        n += 1;
        for b in (0..=255u8).step_by(step) {
            check_decode(ctx, &[a, b]);
            n += 1;
            if !full && b % 3 != 0 { continue; }
            for c in (0..=255u8).step_by(step) {
                check_decode(ctx, &[a, b, c]);
                n += 1;
            }
        }
        for &m1 in &MID {
            for &m2 in &MID {
                for last in (0..=255u8).step_by(step) {
                    check_decode(ctx, &[a, m1, m2, last]);
                    n += 1;
                }
                for &m3 in &MID {
                    for last in (0..=255u8).step_by(step) {
                        check_decode(ctx, &[a, m1, m2, m3, last]);
                        check_decode(ctx, &[a, m1, m2, m3, last, 0x55]);
                        n += 2;
                    }
                }
            }
        }
        b0 += ctx.nshards as usize * if full { 1 } else { 5 };
    }
    ctx.disarm();
    ctx.count("decode_inputs", n);
    ctx.cases_bulk(n, n);
    ctx.sample(json!({"phase": "decode-sweep", "example": {"bytes": "80808080ff", "reference": format!("{:?}", varint::decode(&[0x80,0x80,0x80,0x80,0xff]))}}));
}

#[derive(Debug, Clone)]
enum Op {
    Int(i32),
    Str(Vec<u8>),
    Data(Vec<u8>),
    Raw(Vec<u8>),
    Uuid([u8; 16]),
    Rest(Vec<u8>),
}

fn gen_ops(rng: &mut Rng) -> Vec<Op> {
    let n = rng.range(0, 12) as usize;
    let mut ops = Vec::new();
    for i in 0..n {
        let len = match rng.below(6) {
            0 => 0,
            1 => 1,
            2 => rng.range(0, 8) as usize,
            3 => rng.range(60, 70) as usize,
            4 => rng.range(0, 40) as usize,
            _ => rng.range(0, 300) as usize,
        };
        let k = rng.below(if i + 1 == n { 6 } else { 5 });
        ops.push(match k {
            0 => Op::Int(rng.edgy_i32()),
            1 => {
                let mut s = rng.bytes(len);
                for b in &mut s {
                    if *b == 0 {
                        *b = 1;
                    }
                }
                Op::Str(s)
            }
            2 => Op::Data(rng.bytes(len)),
            3 => Op::Raw(rng.bytes(len)),
            4 => {
                let mut u = [0; 16];
                rng.fill(&mut u);
                Op::Uuid(u)
            }
            _ => Op::Rest(rng.bytes(len)),
        });
    }
    ops
}

fn model_bytes(ops: &[Op]) -> Vec<u8> {
    let mut out = Vec::new();
    for op in ops {
        match op {
            Op::Int(v) => out.extend(varint::encode(*v)),
            Op::Str(s) => {
                out.extend(s);
                out.push(0);
            }
            Op::Data(d) => {
                out.extend(varint::encode(d.len() as i32));
                out.extend(d);
            }
            Op::Raw(d) | Op::Rest(d) => out.extend(d),
            Op::Uuid(u) => out.extend(u),
        }
    }
    out
}

fn ops_json(ops: &[Op]) -> serde_json::Value {
    json!(ops.iter().map(|o| match o {
        Op::Int(v) => json!({"int": v}),
        Op::Str(s) => json!({"str": verif_harness::hex_short(s)}),
        Op::Data(s) => json!({"data": verif_harness::hex_short(s)}),
        Op::Raw(s) => json!({"raw": verif_harness::hex_short(s)}),
        Op::Rest(s) => json!({"rest": verif_harness::hex_short(s)}),
        Op::Uuid(s) => json!({"uuid": hex(s)}),
    }).collect::<Vec<_>>())
}

fn class_of(ops: &[Op]) -> String {
    ops.iter()
        .map(|o| match o {
            Op::Int(_) => 'i',
            Op::Str(_) => 's',
            Op::Data(_) => 'd',
            Op::Raw(_) => 'r',
            Op::Rest(_) => 'R',
            Op::Uuid(_) => 'u',
        })
        .collect()
}

fn apply_ops(p: &mut libtw2_packer::Packer, ops: &[Op]) -> Result<(), usize> {
    for (i, op) in ops.iter().enumerate() {
        let r = match op {
            Op::Int(v) => p.write_int(*v),
            Op::Str(s) => p.write_string(s),
            Op::Data(d) => p.write_data(d),
            Op::Raw(d) => p.write_raw(d),
            Op::Rest(d) => p.write_rest(d),
            Op::Uuid(u) => p.write_uuid(uuid::Uuid::from_bytes(*u)),
        };
        if r.is_err() {
            return Err(i);
        }
    }
    Ok(())
}

/// Packer/unpacker sequences against the byte-string model, into buffers of
/// chosen capacities.
fn packer_case(ctx: &mut Ctx, rng: &mut Rng) {
    let ops = gen_ops(rng);
    let model = model_bytes(&ops);
    let class = class_of(&ops);
    let case_data = json!({"ops": ops_json(&ops)});
    // Capacities: exact, one short, a few random, all small ones.
    let mut caps: Vec<usize> = vec![model.len(), model.len() + 1, model.len() + 7];
    if !model.is_empty() {
        caps.push(model.len() - 1);
        caps.push(rng.usize_below(model.len()));
        caps.push(rng.usize_below(model.len()));
        caps.push(0);
    }
    if model.len() <= 48 || ctx.tier == Tier::Thorough && model.len() <= 400 {
        caps.extend(0..model.len());
    }
    for &cap in &caps {
        let mut can = Canary::new(cap, 0xa5);
        let res = catch(|| {
            with_packer(can.window(), |mut p| {
                let r = apply_ops(&mut p, &ops);
                (r, p.written().to_vec())
            })
        });
        ctx.count("packer_runs", 1);
        let (r, written) = match res {
            Ok(x) => x,
            Err(p) => {
                ctx.panic_violation("Packer::write_*", &format!("fits={}", cap >= model.len()), &p, case_data.clone());
                return;
            }
        };
        if !can.intact() {
            ctx.violation("provenance", "Packer::write_*", "write-outside-capacity", json!({"cap": cap, "ops": ops_json(&ops)}), case_data.clone());
            return;
        }
        if cap >= model.len() {
            if r.is_err() || written != model {
                ctx.violation("value-differs", "Packer::written", "fits", json!({"cap": cap, "got": hex(&written), "expected": hex(&model), "result": format!("{:?}", r)}), case_data.clone());
                return;
            }
        } else {
            ctx.count("packer_capacity_errors", 1);
            // a shortfall must be a CapacityError; what was written is a prefix of the model
            if r.is_ok() || written.len() > cap || !model.starts_with(&written) {
                ctx.violation("value-differs", "Packer::write_*", "shortfall", json!({"cap": cap, "got": hex(&written), "expected_prefix_of": hex(&model), "result": format!("{:?}", r)}), case_data.clone());
                return;
            }
        }
    }
    // Read back from the exact bytes.
    let mut w = W::default();
    let mut u = Unpacker::new(&model);
    let mut pos = 0usize;
    for (i, op) in ops.iter().enumerate() {
        let bad = |ctx: &mut Ctx, what: &str, got: String| {
            ctx.violation("value-differs", "Unpacker::read_*", what, json!({"op": i, "got": got, "bytes": hex(&model)}), case_data.clone());
        };
        match op {
            Op::Int(v) => {
                let g = u.read_int(&mut w);
                if g != Ok(*v) {
                    return bad(ctx, "int", format!("{:?}", g));
                }
                pos += varint::encode(*v).len();
            }
            Op::Str(s) => {
                let g = u.read_string();
                match g {
                    Ok(x) if x == &s[..] && inside(x, &model) => {}
                    _ => return bad(ctx, "string", format!("{:?}", g)),
                }
                pos += s.len() + 1;
            }
            Op::Data(d) => {
                let g = u.read_data(&mut w);
                match g {
                    Ok(x) if x == &d[..] && inside(x, &model) => {}
                    _ => return bad(ctx, "data", format!("{:?}", g)),
                }
                pos += varint::encode(d.len() as i32).len() + d.len();
            }
            Op::Raw(d) => {
                let g = u.read_raw(d.len());
                match g {
                    Ok(x) if x == &d[..] && inside(x, &model) => {}
                    _ => return bad(ctx, "raw", format!("{:?}", g)),
                }
                pos += d.len();
            }
            Op::Uuid(x) => {
                let g = u.read_uuid();
                if g != Ok(uuid::Uuid::from_bytes(*x)) {
                    return bad(ctx, "uuid", format!("{:?}", g));
                }
                pos += 16;
            }
            Op::Rest(d) => {
                let g = u.read_rest();
                match g {
                    Ok(x) if x == &d[..] && inside(x, &model) => {}
                    _ => return bad(ctx, "rest", format!("{:?}", g)),
                }
                pos += d.len();
            }
        }
        if u.num_bytes_read() != pos {
            return bad(ctx, "num_bytes_read", format!("{} != {}", u.num_bytes_read(), pos));
        }
    }
    u.finish(&mut w);
    if !w.none() || !u.is_empty() {
        ctx.violation("warning", "Unpacker::finish", "roundtrip", json!({"overlong": w.overlong, "padding": w.padding, "excess": w.excess, "bytes": hex(&model)}), case_data.clone());
        return;
    }
    // Reading never runs past what was written: truncate the stream at a random
    // point and repeat the reads; every returned slice must stay inside, an
    // error must poison (is_empty) for read_data/read_raw.
    if !model.is_empty() {
        let cut = rng.usize_below(model.len());
        let t = &model[..cut];
        let mut w = W::default();
        let mut u = Unpacker::new(t);
        let r = catch(|| {
            let mut bad = None;
            for (i, op) in ops.iter().enumerate() {
                let ok = match op {
                    Op::Int(_) => {
                        let _ = u.read_int(&mut w);
                        true
                    }
                    Op::Str(_) => u.read_string().map(|s| inside(s, t)).unwrap_or(true),
                    Op::Data(_) => match u.read_data(&mut w) {
                        Ok(s) => inside(s, t),
                        Err(_) => u.is_empty(),
                    },
                    Op::Raw(d) => match u.read_raw(d.len()) {
                        Ok(s) => inside(s, t),
                        Err(_) => u.is_empty(),
                    },
                    Op::Uuid(_) => {
                        let _ = u.read_uuid();
                        true
                    }
                    Op::Rest(_) => u.read_rest().map(|s| inside(s, t)).unwrap_or(true),
                };
                if !ok {
                    bad = Some(i);
                    break;
                }
                if u.num_bytes_read() > t.len() {
                    bad = Some(i);
                    break;
                }
            }
            bad
        });
        ctx.count("truncated_reads", 1);
        match r {
            Ok(None) => {}
            Ok(Some(i)) => ctx.violation("provenance", "Unpacker::read_*", &format!("truncated|op={}", &class[i..i + 1]), json!({"op": i, "cut": cut}), case_data.clone()),
            Err(p) => ctx.panic_violation("Unpacker::read_*", "truncated", &p, case_data.clone()),
        }
    }
    if ctx.want_sample() && ops.len() >= 3 {
        ctx.sample(json!({"phase": "packer-seq", "ops": ops_json(&ops), "bytes": verif_harness::hex_short(&model), "capacities": caps.len()}));
    }
    let nontrivial = ops.len() >= 2;
    ctx.case(if nontrivial { Some(verif_harness::fnv1a(&model) ^ verif_harness::fnv1a(class.as_bytes())) } else { None });
}

/// Demo-mode padding semantics of `finish`: a message padded to four bytes with
/// zeros is excess-free; anything else warns.
fn demo_case(ctx: &mut Ctx, rng: &mut Rng) {
    let n = rng.range(0, 6) as usize;
    let ints: Vec<i32> = (0..n).map(|_| rng.edgy_i32()).collect();
    let mut bytes = Vec::new();
    for &v in &ints {
        bytes.extend(varint::encode(v));
    }
    let unpadded = bytes.len();
    let mode = rng.below(4);
    match mode {
        0 | 1 => {
            while bytes.len() % 4 != 0 {
                bytes.push(0)
            }
        }
        2 => {
            // non-zero padding or a whole extra group
            while bytes.len() % 4 != 0 {
                bytes.push(0)
            }
            if bytes.len() > unpadded && rng.bool() {
                let l = bytes.len();
                bytes[l - 1] = 1 + rng.u8() % 255;
            } else {
                bytes.extend([0, 0, 0, 0]);
            }
        }
        _ => {
            while bytes.len() % 4 != 0 {
                bytes.push(0)
            }
            bytes.extend([0, 0, 0, 0, 0, 0, 0, 0]);
        }
    }
    let expect_excess = mode >= 2;
    let case_data = json!({"bytes": hex(&bytes), "ints": ints});
    let r = catch(|| {
        let mut w = W::default();
        let mut u = Unpacker::new_from_demo(&bytes);
        let mut got = Vec::new();
        for _ in 0..n {
            got.push(u.read_int(&mut w));
        }
        let pre = w.none();
        u.finish(&mut w);
        (got, pre, w.excess, u.is_empty())
    });
    match r {
        Err(p) => ctx.panic_violation("Unpacker::new_from_demo", "padded", &p, case_data),
        Ok((got, pre, excess, empty)) => {
            let ok_vals = got.iter().zip(&ints).all(|(g, v)| *g == Ok(*v));
            if !ok_vals || !pre || (excess > 0) != expect_excess || !empty {
                ctx.violation("warning", "Unpacker::finish", &format!("demo-padding|mode={}", mode), json!({"excess": excess, "expected_excess": expect_excess, "values_ok": ok_vals}), case_data);
            }
        }
    }
    ctx.count("demo_finish", 1);
    ctx.case(Some(verif_harness::fnv1a(&bytes) ^ mode));
}

fn main() {
    let mut ctx = Ctx::from_args("C08");
    ctx.rule = "int-sweep: i32 values (all 2^32 in thorough, stride 251 + all +-2^k+-{0,1,2} in quick), each encode->decode against the doc/int.md reference codec; decode-sweep: all byte strings of length 0..3 and 4-/5-/6-byte strings with first and last byte exhaustive and middle bytes from {00,01,7f,80,ff,81} (distinct by construction); packer-seq: PRNG op sequences (int/string/data/raw/uuid/rest) written into canary-guarded buffers of every capacity 0..len (short sequences) or exact/short/random capacities, read back and re-read truncated; non-trivial = at least two ops, distinct = hash of op kinds and bytes".into();
    ctx.assumptions = vec![
        "the reference varint codec in harness/src/refmodel/varint.rs is a faithful reading of doc/int.md".into(),
        "value of a 5-byte encoding with non-zero padding bits is left unspecified (doc: padding must be zeroed)".into(),
    ];
    sweep_ints(&mut ctx);
    sweep_decoder(&mut ctx);
    let n = ctx.volume(40_000, 600_000, 40, 3_000);
    ctx.arm("packer-seq", 900.0);
    ctx.run_cases("packer-seq", n, |ctx, _idx, rng| packer_case(ctx, rng));
    ctx.run_cases("demo-finish", n / 4 + 10, |ctx, _idx, rng| demo_case(ctx, rng));
    ctx.finish();
}
