//! C09 — applying a snapshot delta reproduces the target snapshot.
//!
//! For pairs (A, B) of snapshots: delta(A,B) applied to A equals B (items,
//! data, checksum) in memory, through the byte wire form and through the
//! integer wire form, with an empty warning sink. The bundled DDNet reference
//! CreateDelta for the same pair, read and applied here, also yields B; a
//! snapshot serializes to the integers the reference builder produces.

use libtw2_packer::with_packer;
use libtw2_packer::IntUnpacker;
use libtw2_packer::Unpacker;
use libtw2_snapshot::snap::Delta;
use libtw2_snapshot::snap::RawSnap;
use serde_json::json;
use verif_harness::catch;
use verif_harness::snapgen::*;
use verif_harness::Ctx;
use verif_harness::Rng;
use verif_harness::Tier;
use verif_harness::Warnings;

fn model_json(m: &Model) -> serde_json::Value {
    json!(m.iter().map(|(k, d)| json!([k.0, k.1, d])).collect::<Vec<_>>())
}

fn first_difference(a: &Model, b: &Model) -> String {
    for (k, d) in a {
        match b.get(k) {
            None => return format!("missing {:?}", k),
            Some(e) if e != d => return format!("data of {:?}: {:?} != {:?}", k, d, e),
            _ => {}
        }
    }
    for k in b.keys() {
        if !a.contains_key(k) {
            return format!("extra {:?}", k);
        }
    }
    "equal".into()
}

#[cfg(feature = "ffi")]
mod reference {
    use libtw2_snapshot_reference::snap as r;
    use verif_harness::snapgen::Model;

    pub struct Ref {
        delta: r::Delta,
    }
    impl Ref {
        pub fn new() -> Ref {
            Ref { delta: r::Delta::new() }
        }
        /// Inside the reference's own limits? (types <= 0x7fff, at most 64 keys per hash bucket)
        pub fn applicable(m: &Model) -> bool {
            let mut buckets = [0u32; 256];
            for &(t, id) in m.keys() {
                if t > 0x7fff {
                    return false;
                }
                let key = ((t as u32) << 16) | id as u32;
                let h = (((key >> 12) & 0xf0) | (key & 0xf)) as usize;
                buckets[h] += 1;
                if buckets[h] > 64 {
                    return false;
                }
            }
            true
        }
        pub fn build(m: &Model) -> r::RawSnap {
            let mut b = r::RawBuilder::new();
            // key order as the serializer of the code under test uses (unsigned)
            for (&(t, id), d) in m {
                b.add_item(t, id, d).unwrap();
            }
            b.finish()
        }
        pub fn snap_ints(m: &Model) -> Option<Vec<i32>> {
            let mut s = Self::build(m);
            let mut out = vec![0i32; 16384];
            let mut buf = Vec::new();
            s.write_to_ints(&mut buf, &mut out).ok().map(|x| x.to_vec())
        }
        pub fn delta_ints(&mut self, a: &Model, b: &Model) -> Option<Vec<i32>> {
            let ra = Self::build(a);
            let rb = Self::build(b);
            let mut out = vec![0i32; 16384];
            self.delta.create_raw_and_write_to_ints(&ra, &rb, verif_harness::snapgen::obj_size, &mut out).ok().map(|x| x.to_vec())
        }
    }
}

struct State {
    #[cfg(feature = "ffi")]
    reference: reference::Ref,
    delta: Delta,
    delta2: Delta,
    out: RawSnap,
}

/// All oracles for one pair.
fn check_pair(ctx: &mut Ctx, st: &mut State, a: &Model, b: &Model, with_reference: bool, origin: &str) {
    let case = json!({"origin": origin, "a": model_json(a), "b": model_json(b)});
    // every fourth pair: the builders were also offered an item that cannot fit
    // (refused; the snapshot must be the same as if it had never been offered)
    let probe = (a.len() + 3 * b.len() + a.values().chain(b.values()).map(|d| d.len()).sum::<usize>()) % 4 == 0;
    let built = if probe {
        ctx.count("pairs_built_after_a_refused_item", 1);
        (verif_harness::snapgen::build_raw_with_refusal(a, a.len() / 2), verif_harness::snapgen::build_raw_with_refusal(b, b.len() / 3))
    } else {
        (build_raw(a), build_raw(b))
    };
    let (sa, sb) = match built {
        (Ok(x), Ok(y)) => (x, y),
        (Err(e), _) | (_, Err(e)) if e == "oversized-item-accepted" => {
            ctx.violation("delta-apply", "build", "oversized-item-accepted", json!({}), case);
            return;
        }
        _ => {
            ctx.count("builder_refused", 1);
            return;
        }
    };
    let class_of = |a: &Model, b: &Model| {
        let big = a.len().max(b.len()) > 8;
        let high = a.keys().chain(b.keys()).any(|k| k.0 >= 0x8000);
        format!("{}{}", if big { "large" } else { "small" }, if high { "|type>=0x8000" } else { "" })
    };
    let class = class_of(a, b);
    let want_crc = model_crc(b);
    let State { delta, delta2, out, .. } = st;
    let r = catch(|| -> Result<(), (String, String)> {
        delta.create_raw(&sa, &sb);
        // in memory
        let mut w = Warnings::new();
        out.read_with_delta(&mut w, &sa, delta).map_err(|e| ("apply-in-memory".to_string(), format!("{:?}", e)))?;
        let got = raw_to_model(out);
        if &got != b || out.crc() != want_crc {
            return Err(("apply-in-memory".into(), first_difference(&got, b)));
        }
        if !w.is_empty() {
            return Err(("warning-in-memory".into(), format!("{:?}", w.0)));
        }
        // byte wire form
        let mut bytes: Vec<u8> = Vec::with_capacity(300_000);
        with_packer(&mut bytes, |p| delta.write(obj_size, p).map(|_| ())).map_err(|_| ("write-bytes".to_string(), "capacity".to_string()))?;
        let mut w = Warnings::new();
        delta2.read(&mut w, obj_size, &mut Unpacker::new(&bytes)).map_err(|e| ("read-bytes".to_string(), format!("{:?}", e)))?;
        out.read_with_delta(&mut w, &sa, delta2).map_err(|e| ("apply-bytes".to_string(), format!("{:?}", e)))?;
        let got = raw_to_model(out);
        if &got != b || out.crc() != want_crc {
            return Err(("apply-bytes".into(), first_difference(&got, b)));
        }
        if !w.is_empty() {
            return Err(("warning-bytes".into(), format!("{:?}", w.0)));
        }
        // integer wire form
        let mut ints = vec![0i32; 70_000];
        let n = delta.write_to_ints(obj_size, &mut ints).map_err(|_| ("write-ints".to_string(), "capacity".to_string()))?.len();
        let mut w = Warnings::new();
        delta2.read_from_ints(&mut w, obj_size, &mut IntUnpacker::new(&ints[..n])).map_err(|e| ("read-ints".to_string(), format!("{:?}", e)))?;
        out.read_with_delta(&mut w, &sa, delta2).map_err(|e| ("apply-ints".to_string(), format!("{:?}", e)))?;
        let got = raw_to_model(out);
        if &got != b || out.crc() != want_crc {
            return Err(("apply-ints".into(), first_difference(&got, b)));
        }
        if !w.is_empty() {
            return Err(("warning-ints".into(), format!("{:?}", w.0)));
        }
        if probe {
            // B itself (built after a refused item) serializes to something that reads back as B
            let mut tmp = Vec::new();
            let n = sb.write_to_ints(&mut tmp, &mut ints).map_err(|_| ("write-snapshot-ints".to_string(), "capacity".to_string()))?.len();
            let want_n = verif_harness::snapgen::model_size(b) / 4;
            if n != want_n {
                return Err(("snapshot-after-refused-item".into(), format!("serializes to {} ints, expected {}", n, want_n)));
            }
            let mut w = Warnings::new();
            out.read_from_ints(&mut w, &ints[..n]).map_err(|e| ("snapshot-after-refused-item".to_string(), format!("reread:{:?}", e)))?;
            if &raw_to_model(out) != b {
                return Err(("snapshot-after-refused-item".into(), first_difference(&raw_to_model(out), b)));
            }
        }
        Ok(())
    });
    match r {
        Err(p) => {
            ctx.panic_violation("Delta::create/apply", &class, &p, case);
            return;
        }
        Ok(Err((stage, what))) => {
            ctx.violation("delta-apply", &stage, &class, json!({"difference": what}), case);
            return;
        }
        Ok(Ok(())) => {}
    }
    ctx.count("pairs_checked", 1);
    if a.keys().any(|k| !b.contains_key(k)) {
        ctx.count("pairs_with_deletions", 1);
    }
    if b.keys().any(|k| !a.contains_key(k)) {
        ctx.count("pairs_with_additions", 1);
    }
    // The reference writes its delta into a fixed 16384-int buffer without a bound check.
    #[cfg(feature = "ffi")]
    let ref_delta_ints = 3 + a.keys().filter(|k| !b.contains_key(k)).count() + b.values().map(|d| 3 + d.len()).sum::<usize>();
    #[cfg(feature = "ffi")]
    if with_reference && ref_delta_ints <= 16000 && reference::Ref::applicable(a) && reference::Ref::applicable(b) {
        let State { reference: rf, delta2, out, .. } = st;
        let r = catch(|| -> Result<(), (String, String)> {
            // serialization identical to the reference builder
            for m in [a, b] {
                let want = reference::Ref::snap_ints(m).ok_or(("reference-build".to_string(), "reference refused".to_string()))?;
                let s = build_raw(m).unwrap();
                let mut buf = Vec::new();
                let mut out_i = vec![0i32; 16384];
                let got = s.write_to_ints(&mut buf, &mut out_i).map_err(|_| ("snap-write-ints".to_string(), "capacity".to_string()))?;
                if got != &want[..] {
                    return Err(("snap-ints-differ-from-reference".into(), format!("{} vs {} ints", got.len(), want.len())));
                }
            }
            let dints = rf.delta_ints(a, b).ok_or(("reference-delta".to_string(), "reference refused".to_string()))?;
            if dints.is_empty() {
                // zero-length reference delta means A == B
                if a != b {
                    return Err(("reference-empty-delta-but-different".into(), String::new()));
                }
                return Ok(());
            }
            let mut w = Warnings::new();
            delta2.read_from_ints(&mut w, obj_size, &mut IntUnpacker::new(&dints)).map_err(|e| ("read-reference-delta".to_string(), format!("{:?}", e)))?;
            out.read_with_delta(&mut w, &sa, delta2).map_err(|e| ("apply-reference-delta".to_string(), format!("{:?}", e)))?;
            let got = raw_to_model(out);
            if &got != b || out.crc() != want_crc {
                return Err(("apply-reference-delta".into(), first_difference(&got, b)));
            }
            if !w.is_empty() {
                return Err(("warning-reference-delta".into(), format!("{:?}", w.0)));
            }
            Ok(())
        });
        ctx.count("reference_pairs", 1);
        match r {
            Err(p) => ctx.panic_violation("reference-differential", &class, &p, case),
            Ok(Err((stage, what))) => ctx.violation("reference", &stage, &class, json!({"difference": what}), case),
            Ok(Ok(())) => {}
        }
    }
    #[cfg(not(feature = "ffi"))]
    let _ = with_reference;
}

/// Exhaustive pairs over a tiny universe: every key absent or carrying every
/// combination of the boundary values.
fn all_snapshots(keys: &[((u16, u16), usize)], extra: i32) -> Vec<Model> {
    let vals = [0, 1, -1, i32::MIN, i32::MAX, extra];
    let mut out = vec![Model::new()];
    for &(k, size) in keys {
        let mut datas: Vec<Vec<i32>> = vec![vec![]];
        for _ in 0..size {
            let mut next = Vec::new();
            for d in &datas {
                for v in vals {
                    let mut d2 = d.clone();
                    d2.push(v);
                    next.push(d2);
                }
            }
            datas = next;
        }
        let mut next = Vec::new();
        for m in &out {
            next.push(m.clone());
            for d in &datas {
                let mut m2 = m.clone();
                m2.insert(k, d.clone());
                next.push(m2);
            }
        }
        out = next;
    }
    out
}

fn main() {
    let mut ctx = Ctx::from_args("C09");
    ctx.rule = "tiny universes (<= 3 keys, total size <= 3 words, every word from {0,1,-1,MIN,MAX,r}, every key present or absent) are enumerated completely as ordered pairs (A,B) (quick: a 1/n slice of each universe's pairs); random pairs: universes of up to 1024 keys over type ids on both sides of 0x8000, pre-agreed (types 1..20) and explicit sizes 0..large, B derived from A by adding/removing/changing/keeping items, up to the 1024-item / 64 KiB limits; each pair is checked in memory, through bytes and through ints, a subset against the C++ reference; non-trivial = A != B; distinct = hash of both models".into();
    ctx.assumptions = vec![
        "within one universe the item size is a function of the key (Delta::create documents that precondition; the wire format cannot express a size change)".into(),
        "reference comparison only for pairs inside the reference's own limits (types <= 0x7fff, <= 64 keys per hash bucket, pre-agreed sizes non-zero)".into(),
    ];
    let mut st = State {
        #[cfg(feature = "ffi")]
        reference: reference::Ref::new(),
        delta: Delta::new(),
        delta2: Delta::new(),
        out: RawSnap::empty(),
    };
    // ---- exhaustive tiny universes
    let shapes: Vec<Vec<usize>> = vec![vec![0], vec![1], vec![2], vec![3], vec![0, 0], vec![1, 0], vec![1, 1], vec![2, 1], vec![2, 0], vec![0, 0, 0], vec![1, 0, 0], vec![1, 1, 0], vec![1, 1, 1]];
    // key sets: pre-agreed sizes need matching types (size 1 -> type 3, 2 -> type 1, 3 -> type 2), explicit otherwise
    let keysets: Vec<(&str, Vec<u16>)> = vec![("explicit", vec![21, 0x100, 0x7fff]), ("high", vec![0x8000, 0xffff, 21]), ("preagreed", vec![0, 0, 0])];
    ctx.arm("exhaustive", 1800.0);
    let slice = match ctx.tier {
        Tier::Thorough => 1,
        Tier::Quick => 23,
        Tier::Asan => 997,
        Tier::Miri => 40_009,
    };
    let nuni = (shapes.len() * keysets.len()) as u64;
    ctx.run_cases("exhaustive", nuni, |ctx, idx, rng| {
        let shape = &shapes[(idx as usize) % shapes.len()];
        let (ksname, types) = &keysets[(idx as usize) / shapes.len()];
        let keys: Vec<((u16, u16), usize)> = shape
            .iter()
            .enumerate()
            .map(|(i, &size)| {
                let t = if *ksname == "preagreed" {
                    match size {
                        1 => 3,
                        2 => 1,
                        3 => 2,
                        _ => 30, // size 0 cannot be pre-agreed in the reference
                    }
                } else {
                    types[i]
                };
                ((t, [0u16, 0xffff, 7][i]), size)
            })
            .collect();
        let snaps = all_snapshots(&keys, rng.i32());
        let total = snaps.len() * snaps.len();
        let mut n = 0u64;
        let step = slice * ctx.nshards as usize;
        let mut i = ctx.shard as usize * slice + (idx as usize % slice);
        while i < total {
            let a = &snaps[i / snaps.len()];
            let b = &snaps[i % snaps.len()];
            check_pair(ctx, &mut st, a, b, n % 5 == 0, "exhaustive");
            n += 1;
            i += step;
        }
        ctx.count("exhaustive_pairs", n);
        ctx.count("exhaustive_universes", 1);
        ctx.cases_bulk(n, n);
        if ctx.want_sample() {
            ctx.sample(json!({"phase": "exhaustive", "keys": keys.iter().map(|(k, s)| json!([k.0, k.1, s])).collect::<Vec<_>>(), "snapshots_per_side": snaps.len(), "pairs_in_this_shard": n}));
        }
    });
    if ctx.tier == Tier::Thorough {
        ctx.exhaustive = Some(true);
        ctx.note("exhaustive: all ordered pairs over 39 tiny universes (<= 3 keys, total <= 3 words, 6 values per word) enumerated across the shards; larger snapshots are sampled");
    }
    // ---- random pairs
    ctx.arm("random", 1800.0);
    let n = ctx.volume(1_500, 80_000, 3, 100);
    ctx.run_cases("random", n, |ctx, _i, rng| {
        let nkeys = if cfg!(miri) { rng.range(1, 12) as usize } else { match rng.below(6) {
            0 => rng.range(1, 4) as usize,
            1 => rng.range(1, 20) as usize,
            2 => rng.range(20, 200) as usize,
            3 => 1024,
            _ => rng.range(1, 1024) as usize,
        } };
        let maxw = *rng.pick(&[1usize, 3, 8, 40, 400]);
        let with_ref = rng.chance(1, 2);
        let u = Universe::random(rng, nkeys, maxw, if with_ref { 0x7fff } else { 0xffff });
        let density = *rng.pick(&[0u64, 30, 70, 100]);
        let a = u.snapshot(rng, density);
        let b = if rng.chance(1, 10) { u.snapshot(rng, 50) } else { u.mutate(rng, &a) };
        ctx.max("max_items", a.len().max(b.len()) as u64);
        ctx.max("max_snapshot_bytes", model_size(&a).max(model_size(&b)) as u64);
        check_pair(ctx, &mut st, &a, &b, with_ref, "random");
        let h = verif_harness::fnv1a(format!("{:?}|{:?}", a, b).as_bytes());
        ctx.case(if a != b { Some(h) } else { None });
        if ctx.want_sample() && a.len() <= 4 && b.len() <= 4 && a != b {
            ctx.sample(json!({"phase": "random", "a": model_json(&a), "b": model_json(&b)}));
        }
    });
    // ---- typed chains: one reused Delta on the sending side, two reused destination
    // Snap objects on the receiving side (as Storage and the demo reader do)
    let n = ctx.volume(300, 20_000, 2, 30);
    ctx.run_cases("typed-chain", n, |ctx, _i, rng| typed_chain(ctx, rng));
    ctx.disarm();
    ctx.finish();
}

/// Item sizes of the typed worlds are free, so every size travels on the wire.
fn no_size(_: u16) -> Option<u32> {
    None
}

fn typed_chain(ctx: &mut Ctx, rng: &mut Rng) {
    use libtw2_snapshot::snap::Builder;
    use libtw2_snapshot::Snap;
    use verif_harness::snapgen::{build_typed, gen_typed, typed_of, Typed};
    let steps = rng.range(3, 7) as usize;
    let r = catch(|| -> Result<usize, (String, String)> {
        let mut sender_delta = Delta::new();
        let mut wire_delta = Delta::new();
        let mut dst = [Snap::empty(), Snap::empty()];
        let mut prev_model = Typed::new();
        let mut prev = Snap::empty();
        let mut prev_at_receiver = Snap::empty();
        let mut done = 0;
        for i in 0..steps {
            // the next world: a fresh draw, or the previous one with items dropped / changed
            let (mut m, mut order) = gen_typed(rng);
            if rng.bool() && !prev_model.is_empty() {
                for (k, d) in &prev_model {
                    if rng.chance(2, 3) && !m.contains_key(k) && m.len() < 900 {
                        let d2: Vec<i32> = d.iter().map(|x| if rng.bool() { x.wrapping_add(1) } else { *x }).collect();
                        m.insert(*k, d2);
                        order.push(*k);
                    }
                }
            }
            // one object keeps its size from one snapshot to the next (self-created
            // snapshots: `Delta::create` documents this as its precondition)
            for (k, d) in m.iter_mut() {
                if let Some(p) = prev_model.get(k) {
                    d.resize(p.len(), 0);
                }
            }
            if m.len() > 400 {
                // keep chains cheap
                let keep: Vec<_> = order.iter().take(400).cloned().collect();
                m.retain(|k, _| keep.contains(k));
                order = keep;
            }
            // numbering consistent with the predecessor, as Storage::new_builder does
            let builder = if i == 0 { Builder::new() } else { prev.clone().recycle() };
            let cur = match build_typed(&order, &m, builder) {
                Ok(s) => s,
                Err(_) => break, // over the limits together with the inherited registry: stop the chain
            };
            if typed_of(&cur) != m {
                return Err(("typed-chain-build".into(), format!("step {}", i)));
            }
            sender_delta.create(&prev, &cur);
            // through the wire
            let mut bytes: Vec<u8> = Vec::with_capacity(300_000);
            with_packer(&mut bytes, |p| sender_delta.write(no_size, p).map(|_| ())).map_err(|_| ("typed-chain-write".to_string(), "capacity".to_string()))?;
            let mut w = Warnings::new();
            wire_delta.read(&mut w, no_size, &mut Unpacker::new(&bytes)).map_err(|e| ("typed-chain-read".to_string(), format!("step {}: {:?}", i, e)))?;
            let d = &mut dst[i % 2];
            d.read_with_delta(&mut w, &prev_at_receiver, &wire_delta).map_err(|e| ("typed-chain-apply".to_string(), format!("step {}: {:?}", i, e)))?;
            if typed_of(d) != m || d.crc() != cur.crc() || d.items().len() != m.len() {
                return Err(("typed-chain-apply".into(), format!("step {}: result differs ({} vs {} items)", i, d.items().count(), m.len())));
            }
            if !w.is_empty() {
                return Err(("typed-chain-warning".into(), format!("step {}: {:?}", i, w.0)));
            }
            prev_at_receiver = d.clone();
            prev = cur;
            prev_model = m;
            done += 1;
        }
        Ok(done)
    });
    match r {
        Err(p) => ctx.panic_violation("typed chain", "reused-delta-and-destinations", &p, json!({"steps": steps})),
        Ok(Err((stage, what))) => ctx.violation("delta-apply", &stage, "typed|reused-objects", json!({"difference": what}), json!({"steps": steps})),
        Ok(Ok(done)) => ctx.count("typed_chain_steps", done as u64),
    }
    ctx.case(Some(rng.u64()));
}
