//! C19 — the uninitialized-buffer abstraction never overruns and counts exactly.
//!
//! Model monitor: PRNG programs of writes, iterator extends, nested
//! sub-buffers, capped views, reader fills and early exits run against every
//! backing store with every capacity 0..64 and pre-existing length; the model
//! is the byte string that must be there. The memory half of the property is
//! decided by running this and all other monitors under Miri / ASan (driver).

use arrayvec::ArrayVec;
use libtw2_buffer::with_buffer;
use libtw2_buffer::Buffer;
use libtw2_buffer::BufferRef;
use libtw2_buffer::ReadBuffer;
use serde_json::json;
use verif_harness::canary::inside;
use verif_harness::canary::Canary;
use verif_harness::catch;
use verif_harness::hex;
use verif_harness::Ctx;
use verif_harness::Rng;

#[derive(Clone, Debug)]
enum Op {
    Write(Vec<u8>),
    Extend(Vec<u8>),
    /// nested view; `cap`: capped at min(cap, remaining)
    Nested(Vec<Op>, Option<usize>),
    /// fill from a reader (a byte slice), as `ReadBuffer::read_buffer` does
    Read(Vec<u8>),
    Remaining,
    /// leave this level early (view dropped, later ops of the level skipped)
    Exit,
}

fn op_json(o: &Op) -> serde_json::Value {
    match o {
        Op::Write(d) => json!({"write": hex(d)}),
        Op::Extend(d) => json!({"extend": hex(d)}),
        Op::Nested(ops, cap) => json!({"nested": ops.iter().map(op_json).collect::<Vec<_>>(), "cap_at": cap}),
        Op::Read(d) => json!({"read_from": hex(d)}),
        Op::Remaining => json!("remaining"),
        Op::Exit => json!("exit"),
    }
}

fn gen_ops(rng: &mut Rng, depth: usize) -> Vec<Op> {
    let n = rng.range(0, 6) as usize;
    let mut v = Vec::new();
    for _ in 0..n {
        let len = match rng.below(5) {
            0 => 0,
            1 => 1,
            2 => rng.usize_below(8),
            3 => rng.usize_below(40),
            _ => rng.usize_below(90),
        };
        let kinds = if depth < 3 { 10 } else { 8 };
        v.push(match rng.below(kinds) {
            0..=2 => Op::Write(rng.bytes(len)),
            3..=4 => Op::Extend(rng.bytes(len)),
            5 => Op::Read(rng.bytes(len)),
            6 => Op::Remaining,
            7 => {
                if rng.chance(1, 4) {
                    Op::Exit
                } else {
                    Op::Write(rng.bytes(len))
                }
            }
            _ => {
                let cap = if rng.bool() { Some(rng.usize_below(70)) } else { None };
                Op::Nested(gen_ops(rng, depth + 1), cap)
            }
        });
    }
    v
}

struct Flaw(String, String);

/// Iterator over `data` whose `size_hint` is chosen by `mode`: a size hint is
/// advisory, so what `extend` stores and counts must not depend on it.
struct Hinted<'a> {
    data: &'a [u8],
    pos: usize,
    mode: usize,
}

impl<'a> Iterator for Hinted<'a> {
    type Item = u8;
    fn next(&mut self) -> Option<u8> {
        let b = self.data.get(self.pos).copied();
        if b.is_some() {
            self.pos += 1;
        }
        b
    }
    fn size_hint(&self) -> (usize, Option<usize>) {
        let left = self.data.len() - self.pos;
        match self.mode {
            0 => (left, Some(left)),
            1 => (0, None),
            2 => (left / 2, Some(left / 2)),         // exact but too small
            3 => (left + 1 + self.data.len() % 7, Some(left + 1 + self.data.len() % 7)), // exact but too large
            _ => (left, None),
        }
    }
}

/// Runs `ops` on the real view and on the model. `model` receives the bytes
/// that must have been initialised through this view.
fn run_ops(b: &mut BufferRef, ops: &[Op], model: &mut Vec<u8>, counters: &mut [u64; 8]) -> Result<(), Flaw> {
    for op in ops {
        let before = b.remaining();
        match op {
            Op::Write(d) | Op::Extend(d) => {
                let is_write = matches!(op, Op::Write(_));
                let r = if is_write {
                    b.write(d)
                } else {
                    let mode = (d.len() + d.first().copied().unwrap_or(0) as usize) % 6;
                    if mode == 5 {
                        b.extend(d.iter().cloned())
                    } else {
                        counters[7] += 1;
                        b.extend(Hinted { data: d, pos: 0, mode })
                    }
                };
                let after = b.remaining();
                if after > before {
                    return Err(Flaw("remaining-grew".into(), format!("{} -> {}", before, after)));
                }
                let committed = before - after;
                counters[0] += 1;
                if d.len() <= before {
                    if r.is_err() || committed != d.len() {
                        return Err(Flaw(format!("fitting-{}-refused-or-miscounted", if is_write { "write" } else { "extend" }), format!("len {} remaining {} committed {} result {:?}", d.len(), before, committed, r)));
                    }
                    model.extend_from_slice(d);
                } else {
                    counters[1] += 1;
                    // does not fit: must be a CapacityError; some prefix that still fits may have been committed
                    if r.is_ok() || committed > before || committed > d.len() {
                        return Err(Flaw(format!("overlong-{}-accepted-or-overcommitted", if is_write { "write" } else { "extend" }), format!("len {} remaining {} committed {} result {:?}", d.len(), before, committed, r)));
                    }
                    model.extend_from_slice(&d[..committed]);
                    if committed > 0 {
                        counters[2] += 1;
                    }
                }
            }
            Op::Read(src) => {
                let mut reader: &[u8] = src;
                let r = reader.read_buffer(&mut *b);
                let after = b.remaining();
                counters[3] += 1;
                match r {
                    Ok(got) => {
                        let want = src.len().min(before);
                        if got.len() != want || got != &src[..want] || before - after != want {
                            return Err(Flaw("reader-fill-miscounted".into(), format!("src {} remaining {} got {} committed {}", src.len(), before, got.len(), before - after)));
                        }
                        model.extend_from_slice(&src[..want]);
                    }
                    Err(e) => return Err(Flaw("reader-fill-error".into(), format!("{:?}", e))),
                }
            }
            Op::Remaining => {}
            Op::Exit => {
                counters[4] += 1;
                return Ok(());
            }
            Op::Nested(inner, cap) => {
                counters[5] += 1;
                let mut sub = Vec::new();
                let r = match cap {
                    Some(c) => {
                        let c = (*c).min(before); // cap_at above the remaining capacity is outside the domain
                        counters[6] += 1;
                        with_buffer((&mut *b).cap_at(c), |mut v| {
                            if v.remaining() != c {
                                return Err(Flaw("capped-view-wrong-capacity".into(), format!("{} != {}", v.remaining(), c)));
                            }
                            let r = run_ops(&mut v, inner, &mut sub, counters);
                            let init = v.initialized();
                            if r.is_ok() && init != &sub[..] {
                                return Err(Flaw("nested-initialized-differs".into(), format!("{} vs {}", hex(init), hex(&sub))));
                            }
                            r
                        })
                    }
                    None => with_buffer(&mut *b, |mut v| {
                        if v.remaining() != before {
                            return Err(Flaw("nested-view-wrong-capacity".into(), format!("{} != {}", v.remaining(), before)));
                        }
                        let r = run_ops(&mut v, inner, &mut sub, counters);
                        let init = v.initialized();
                        if r.is_ok() && init != &sub[..] {
                            return Err(Flaw("nested-initialized-differs".into(), format!("{} vs {}", hex(init), hex(&sub))));
                        }
                        r
                    }),
                };
                r?;
                // on release the parent's count grew by exactly what the nested view initialised
                let after = b.remaining();
                if before - after != sub.len() {
                    return Err(Flaw("parent-count-after-nested-release".into(), format!("grew by {} expected {}", before - after, sub.len())));
                }
                model.extend_from_slice(&sub);
            }
        }
    }
    Ok(())
}

#[repr(C)]
struct Guarded<A: arrayvec::Array<Item = u8>> {
    pre: [u8; 32],
    av: ArrayVec<A>,
    post: [u8; 32],
}

/// The intermediate object (`to_to_buffer_ref`) dropped before any view was
/// taken from it, directly and through `cap_at`: the container must be unchanged.
fn unused_intermediate(ctx: &mut Ctx, rng: &mut Rng) {
    use libtw2_buffer::ToBufferRef;
    let cap = rng.usize_below(65);
    let pre_len = rng.usize_below(cap + 1);
    let pre: Vec<u8> = (0..pre_len).map(|i| 0x90 ^ i as u8).collect();
    let case = json!({"unused_intermediate": true, "capacity": cap, "pre_len": pre_len});
    let r = catch(|| -> Result<(), Flaw> {
        // Vec
        let mut v: Vec<u8> = Vec::with_capacity(cap);
        v.extend_from_slice(&pre);
        drop((&mut v).to_to_buffer_ref());
        drop((&mut v).cap_at(0).to_to_buffer_ref());
        {
            // taken, view created but nothing written
            let mut i = (&mut v).to_to_buffer_ref();
            let _ = i.to_buffer_ref();
        }
        if v[..] != pre[..] {
            return Err(Flaw("unused-view-changed-container".into(), format!("vec len {} expected {}", v.len(), pre.len())));
        }
        // ArrayVec
        let mut a: ArrayVec<[u8; 64]> = ArrayVec::new();
        for &x in &pre {
            a.push(x);
        }
        drop((&mut a).to_to_buffer_ref());
        drop((&mut a).cap_at(0).to_to_buffer_ref());
        {
            let mut i = (&mut a).to_to_buffer_ref();
            let _ = i.to_buffer_ref();
        }
        if a[..] != pre[..] {
            return Err(Flaw("unused-view-changed-container".into(), format!("arrayvec len {} expected {}", a.len(), pre.len())));
        }
        // slice reference: an unused view narrows the slice to nothing written = empty
        let mut backing = pre.clone();
        {
            let mut sl: &mut [u8] = &mut backing[..];
            let sl_ref: &mut &mut [u8] = unsafe { &mut *(&mut sl as *mut &mut [u8]) };
            drop(sl_ref.to_to_buffer_ref());
            if !sl.is_empty() {
                return Err(Flaw("unused-view-changed-container".into(), format!("slice ref has {} bytes after an unused view", sl.len())));
            }
        }
        if backing != pre {
            return Err(Flaw("unused-view-changed-container".into(), "slice contents changed".into()));
        }
        Ok(())
    });
    ctx.count("unused_intermediates", 1);
    match r {
        Err(p) => ctx.panic_violation("unused intermediate", "drop-without-view", &p, case),
        Ok(Err(Flaw(what, detail))) => ctx.violation("model", "unused-intermediate", &what, json!({"detail": detail}), case),
        Ok(Ok(())) => {}
    }
    let _ = rng;
}

/// An over-long `advance` (the producer claims more bytes than the view has
/// left) must be refused by the view's assertion *before* anything is committed:
/// after the panic has unwound through the intermediate objects, every owner
/// (container, parent view) has grown by exactly the bytes really written.
fn overadvance(ctx: &mut Ctx, rng: &mut Rng) {
    let cap = rng.usize_below(65);
    let pre_len = rng.usize_below(cap + 1);
    let pre: Vec<u8> = (0..pre_len).map(|i| 0x30 ^ i as u8).collect();
    let store = rng.below(4);
    let names = ["vec", "arrayvec64", "slice-nested", "slice-capped-nested"];
    let name = names[store as usize];
    let avail = match store {
        1 => 64 - pre_len.min(64),
        _ => cap - pre_len,
    };
    let k = rng.usize_below(avail + 1);
    let written = rng.bytes(k);
    let excess = 1 + match rng.below(3) {
        0 => 0,
        1 => rng.usize_below(8),
        _ => rng.usize_below(200),
    };
    let claim = avail - k + excess;
    let case = json!({"overadvance": true, "store": name, "capacity": cap, "pre_len": pre_len, "written_first": k, "advance": claim, "remaining": avail - k});
    // returns Ok(()) when the over-long advance was refused and nothing but the k bytes is visible
    let r = catch(|| -> Result<(), Flaw> {
        let over = |b: &mut BufferRef| -> Result<(), Flaw> {
            b.write(&written).map_err(|_| Flaw("fitting-write-refused".into(), String::new()))?;
            let before = b.remaining();
            let w = written.clone();
            let inner = catch(|| {
                with_buffer(&mut *b, |mut v| {
                    unsafe { v.advance(claim) };
                })
            });
            let _ = w;
            if inner.is_ok() {
                return Err(Flaw("overlong-advance-accepted".into(), format!("advance({}) with {} remaining returned", claim, before)));
            }
            Ok(())
        };
        match store {
            0 => {
                let mut v: Vec<u8> = Vec::with_capacity(cap);
                let real_cap = v.capacity();
                v.extend_from_slice(&pre);
                let claim_v = real_cap - pre_len - k + excess;
                let inner = catch(|| {
                    with_buffer(&mut v, |mut b| {
                        let _ = b.write(&written);
                        unsafe { b.advance(claim_v) };
                    })
                });
                if inner.is_ok() {
                    return Err(Flaw("overlong-advance-accepted".into(), format!("advance({}) returned", claim_v)));
                }
                if v.len() != pre_len + k || v.len() > v.capacity() {
                    return Err(Flaw("container-after-refused-advance".into(), format!("vec len {} expected {} (capacity {})", v.len(), pre_len + k, v.capacity())));
                }
                if v[..pre_len] != pre[..] || v[pre_len..] != written[..] {
                    return Err(Flaw("container-after-refused-advance".into(), "vec contents differ".into()));
                }
            }
            1 => {
                let mut g: Guarded<[u8; 64]> = Guarded { pre: [0x6b; 32], av: ArrayVec::new(), post: [0x6b; 32] };
                let pl = pre_len.min(64);
                for &x in &pre[..pl] {
                    g.av.push(x);
                }
                let inner = catch(|| {
                    with_buffer(&mut g.av, |mut b| {
                        let _ = b.write(&written);
                        unsafe { b.advance(claim) };
                    })
                });
                if inner.is_ok() {
                    return Err(Flaw("overlong-advance-accepted".into(), format!("advance({}) returned", claim)));
                }
                if g.av.len() != pl + k {
                    return Err(Flaw("container-after-refused-advance".into(), format!("arrayvec len {} expected {}", g.av.len(), pl + k)));
                }
                if g.av[pl..] != written[..] || g.pre != [0x6b; 32] || g.post != [0x6b; 32] {
                    return Err(Flaw("container-after-refused-advance".into(), "arrayvec contents or guards differ".into()));
                }
            }
            _ => {
                // nested (and capped nested) view of a slice: the parent's counter is the owner
                let mut can = Canary::new(cap, 0xc3);
                let r = {
                    let win: &mut [u8] = &mut can.window()[pre_len..];
                    with_buffer(win, |mut b| -> Result<(), Flaw> {
                        let before = b.remaining();
                        if store == 3 {
                            let c = avail;
                            let inner = catch(|| {
                                with_buffer((&mut b).cap_at(c), |mut v| {
                                    let _ = v.write(&written);
                                    unsafe { v.advance(claim) };
                                })
                            });
                            if inner.is_ok() {
                                return Err(Flaw("overlong-advance-accepted".into(), format!("advance({}) returned", claim)));
                            }
                        } else {
                            over(&mut b)?;
                        }
                        let after = b.remaining();
                        if after > before || before - after != k {
                            return Err(Flaw("parent-count-after-refused-advance".into(), format!("parent grew by {} expected {}", before.wrapping_sub(after), k)));
                        }
                        if b.initialized() != &written[..] {
                            return Err(Flaw("initialized-differs".into(), String::new()));
                        }
                        Ok(())
                    })
                };
                r?;
                if !can.intact() {
                    return Err(Flaw("wrote-outside-capacity".into(), "canary around the slice changed".into()));
                }
            }
        }
        Ok(())
    });
    ctx.count("overlong_advances_refused", if matches!(r, Ok(Ok(()))) { 1 } else { 0 });
    match r {
        Err(p) => ctx.panic_violation("over-long advance", name, &p, case),
        Ok(Err(Flaw(what, detail))) => ctx.violation("model", name, &what, json!({"detail": detail}), case),
        Ok(Ok(())) => {}
    }
}

fn one(ctx: &mut Ctx, rng: &mut Rng) {
    if rng.chance(1, 16) {
        overadvance(ctx, rng);
    }
    if rng.chance(1, 16) {
        unused_intermediate(ctx, rng);
    }
    let ops = gen_ops(rng, 0);
    let store = rng.below(6);
    let cap = rng.usize_below(65);
    let pre_len = rng.usize_below(cap + 1);
    let pre: Vec<u8> = (0..pre_len).map(|i| 0xe0 ^ i as u8).collect();
    let names = ["vec", "arrayvec16", "arrayvec64", "slice", "slice-ref", "slice-capped"];
    let name = names[store as usize];
    let case = json!({"store": name, "capacity": cap, "pre_len": pre_len, "ops": ops.iter().map(op_json).collect::<Vec<_>>()});
    let mut counters = [0u64; 8];
    let r = catch(|| -> Result<(), Flaw> {
        let mut model = Vec::new();
        match store {
            0 => {
                let mut v: Vec<u8> = Vec::with_capacity(cap);
                let real_cap = v.capacity();
                v.extend_from_slice(&pre);
                let ptr = v.as_ptr();
                let avail = real_cap - pre_len;
                let (r, init) = with_buffer(&mut v, |mut b| {
                    if b.remaining() != avail {
                        return (Err(Flaw("view-wrong-capacity".into(), format!("{} != {}", b.remaining(), avail))), Vec::new());
                    }
                    let r = run_ops(&mut b, &ops, &mut model, &mut counters);
                    (r, b.initialized().to_vec())
                });
                r?;
                if init != model {
                    return Err(Flaw("initialized-differs".into(), format!("{} vs {}", hex(&init), hex(&model))));
                }
                if v.len() != pre_len + model.len() || v[..pre_len] != pre[..] || v[pre_len..] != model[..] || v.as_ptr() != ptr || v.capacity() != real_cap {
                    return Err(Flaw("container-after-release".into(), format!("len {} expected {}", v.len(), pre_len + model.len())));
                }
            }
            1 | 2 => {
                fn go<A: arrayvec::Array<Item = u8>>(pre: &[u8], ops: &[Op], model: &mut Vec<u8>, counters: &mut [u64; 8]) -> Result<(), Flaw> {
                    let mut g: Guarded<A> = Guarded { pre: [0x6b; 32], av: ArrayVec::new(), post: [0x6b; 32] };
                    let pre_len = pre.len().min(g.av.capacity());
                    for &x in &pre[..pre_len] {
                        g.av.push(x);
                    }
                    let avail = g.av.capacity() - pre_len;
                    let (r, init) = with_buffer(&mut g.av, |mut b| {
                        if b.remaining() != avail {
                            return (Err(Flaw("view-wrong-capacity".into(), format!("{} != {}", b.remaining(), avail))), Vec::new());
                        }
                        let r = run_ops(&mut b, ops, model, counters);
                        (r, b.initialized().to_vec())
                    });
                    r?;
                    if init != *model {
                        return Err(Flaw("initialized-differs".into(), format!("{} vs {}", hex(&init), hex(model))));
                    }
                    if g.av.len() != pre_len + model.len() || g.av[..pre_len] != pre[..pre_len] || g.av[pre_len..] != model[..] {
                        return Err(Flaw("container-after-release".into(), format!("len {} expected {}", g.av.len(), pre_len + model.len())));
                    }
                    if g.pre != [0x6b; 32] || g.post != [0x6b; 32] {
                        return Err(Flaw("wrote-outside-capacity".into(), "guard fields around the ArrayVec changed".into()));
                    }
                    Ok(())
                }
                if store == 1 {
                    go::<[u8; 16]>(&pre, &ops, &mut model, &mut counters)?;
                } else {
                    go::<[u8; 64]>(&pre, &ops, &mut model, &mut counters)?;
                }
            }
            3 | 5 => {
                let mut can = Canary::new(cap, 0xc3);
                let capped = if store == 5 { Some(rng.usize_below(cap + 1)) } else { None };
                let avail = capped.unwrap_or(cap);
                let (r, init_ok, init) = {
                    let win: &mut [u8] = can.window();
                    let range = (win.as_ptr() as usize, win.as_ptr() as usize + win.len());
                    let f = |mut b: BufferRef| {
                        if b.remaining() != avail {
                            return (Err(Flaw("view-wrong-capacity".into(), format!("{} != {}", b.remaining(), avail))), true, Vec::new());
                        }
                        let r = run_ops(&mut b, &ops, &mut model, &mut counters);
                        let s = b.initialized();
                        let ok = s.is_empty() || (s.as_ptr() as usize >= range.0 && s.as_ptr() as usize + s.len() <= range.1);
                        (r, ok, s.to_vec())
                    };
                    match capped {
                        Some(c) => with_buffer(win.cap_at(c), f),
                        None => with_buffer(win, f),
                    }
                };
                r?;
                if !init_ok {
                    return Err(Flaw("initialized-slice-outside-store".into(), String::new()));
                }
                if init != model {
                    return Err(Flaw("initialized-differs".into(), format!("{} vs {}", hex(&init), hex(&model))));
                }
                if !can.intact() {
                    return Err(Flaw("wrote-outside-capacity".into(), "canary around the slice changed".into()));
                }
                let w = can.window_ref();
                if w[..model.len()] != model[..] || w[model.len()..].iter().any(|&x| x != 0xc3) {
                    return Err(Flaw("container-after-release".into(), "bytes beyond the initialised count changed or content differs".into()));
                }
            }
            _ => {
                let mut can = Canary::new(cap, 0xc3);
                {
                    let mut sl: &mut [u8] = can.window();
                    let outer = sl.as_ptr() as usize;
                    // The impl wants `&'d mut &'d mut [u8]`, which borrows `sl` for its whole life; detach the
                    // lifetime so that the narrowed slice can be inspected afterwards.
                    let sl_ref: &mut &mut [u8] = unsafe { &mut *(&mut sl as *mut &mut [u8]) };
                    let (r, init) = with_buffer(sl_ref, |mut b| {
                        if b.remaining() != cap {
                            return (Err(Flaw("view-wrong-capacity".into(), format!("{} != {}", b.remaining(), cap))), Vec::new());
                        }
                        let r = run_ops(&mut b, &ops, &mut model, &mut counters);
                        (r, b.initialized().to_vec())
                    });
                    r?;
                    if init != model {
                        return Err(Flaw("initialized-differs".into(), format!("{} vs {}", hex(&init), hex(&model))));
                    }
                    // the slice reference now denotes exactly the initialised part
                    if sl.len() != model.len() || sl[..] != model[..] || (!sl.is_empty() && sl.as_ptr() as usize != outer) {
                        return Err(Flaw("container-after-release".into(), format!("slice ref has {} bytes, expected {}", sl.len(), model.len())));
                    }
                    let _ = inside(sl, sl);
                }
                if !can.intact() {
                    return Err(Flaw("wrote-outside-capacity".into(), "canary around the slice changed".into()));
                }
                if can.window_ref()[model.len()..].iter().any(|&x| x != 0xc3) {
                    return Err(Flaw("container-after-release".into(), "bytes beyond the initialised count changed".into()));
                }
            }
        }
        Ok(())
    });
    ctx.count(&format!("programs[{}]", name), 1);
    ctx.count("writes", counters[0]);
    ctx.count("writes_not_fitting", counters[1]);
    ctx.count("prefix_commits_on_failure", counters[2]);
    ctx.count("reader_fills", counters[3]);
    ctx.count("early_exits", counters[4]);
    ctx.count("nested_views", counters[5]);
    ctx.count("capped_views", counters[6]);
    ctx.count("extends_with_unreliable_size_hint", counters[7]);
    match r {
        Err(p) => ctx.panic_violation("buffer program", name, &p, case),
        Ok(Err(Flaw(what, detail))) => ctx.violation("model", name, &what, json!({"detail": detail}), case),
        Ok(Ok(())) => {}
    }
    ctx.case(if ops.len() >= 2 { Some(verif_harness::fnv1a(format!("{}|{}|{}|{:?}", store, cap, pre_len, ops).as_bytes())) } else { None });
    if ctx.want_sample() && ops.len() >= 3 && rng.chance(1, 50) {
        ctx.sample(json!({"store": name, "capacity": cap, "pre_len": pre_len, "ops": ops.iter().map(op_json).collect::<Vec<_>>()}));
    }
}

fn main() {
    let mut ctx = Ctx::from_args("C19");
    ctx.rule = "a case = one PRNG program (writes, iterator extends (from slice iterators and from iterators with absent, too small and too large size hints), nested views up to depth 3, capped views with cap <= remaining, reader fills, early exits) run against one backing store (Vec, ArrayVec<16>, ArrayVec<64>, byte slice, slice reference, capped slice) with capacity 0..64 and pre-existing length 0..capacity, compared with a byte-string model; non-trivial = at least two top-level ops; distinct = hash of store, capacity, pre-length and program".into();
    ctx.assumptions = vec![
        "a write that does not fit may commit any prefix that still fits before it reports CapacityError (both all-or-nothing and the current prefix-commit behaviour satisfy the statement)".into(),
        "cap_at with a length above the remaining capacity is outside the domain (it panics when the view is created)".into(),
        "an over-long advance (unsafe, used by the reader/decompressor glue) must be refused by the view's assertion before anything is committed: after the panic has unwound, the owner has grown by exactly the bytes really written".into(),
        "memory half: this monitor and all others are re-run under Miri (without an aliasing model: the crate deliberately holds two unique references) and AddressSanitizer by the thorough tier; canaries and guard fields catch adjacent overwrites natively".into(),
    ];
    ctx.arm("c19", 1800.0);
    let n = ctx.volume(60_000, 1_000_000, 120, 5_000);
    ctx.run_cases("programs", n, |ctx, _i, rng| one(ctx, rng));
    ctx.disarm();
    ctx.finish();
}
