//! C04 — everything the connection layer sends is well-formed; bad sends are
//! refused; no sequence of valid API calls panics. Wire oracle in
//! netsim::Sim::wire_oracle (the library's own reader must accept every emitted
//! datagram without error or warning, chunk count and contents must match).

use libtw2_net::connection as c6;
use libtw2_net::connection7 as c7;
use serde_json::json;
use verif_harness::netsim::*;
use verif_harness::Ctx;
use verif_harness::Rng;
use verif_harness::Tier;

const OWN: [&str; 10] = [
    "wire-too-long",
    "wire-unparseable",
    "wire-warning",
    "wire-chunk-count",
    "wire-chunk-differs",
    "panic",
    "too-long-accepted",
    "refusal-changed-state",
    "refused-within-limit",
    "no-return",
];

fn finish_case<C: Conn>(ctx: &mut Ctx, sim: &Sim<C>, kind: &str, extra: serde_json::Value) {
    fold_stats(ctx, sim);
    let case_data = json!({"kind": kind, "variant": sim.variant.name(), "params": extra});
    forward_findings(ctx, sim, &OWN, &case_data);
    let nontrivial = sim.stats.emitted >= 3;
    let mut h = verif_harness::fnv1a(kind.as_bytes());
    for s in &sim.states_seen {
        h ^= *s;
    }
    ctx.case(if nontrivial { Some(h) } else { None });
    if ctx.want_sample() && nontrivial && sim.log.len() >= 10 && ctx.samples.iter().all(|s| s["kind"] != kind) {
        let n = sim.log.len().min(25);
        ctx.sample(json!({"kind": kind, "variant": sim.variant.name(), "params": case_data["params"],
            "first_moves": sim.log[..n].iter().map(|m| m.to_json()).collect::<Vec<_>>(), "total_moves": sim.log.len(),
            "datagrams_emitted": sim.stats.emitted, "too_long_refused": sim.stats.too_long_refused}));
    }
}

fn chaos<C: Conn>(ctx: &mut Ctx, rng: &mut Rng, variant: Variant, moves: usize) {
    let mut hp = HistoryParams::random(rng, variant, moves);
    hp.max_len = 2000;
    hp.personality.big_pct = *rng.pick(&[5, 20, 60]);
    hp.personality.w_connless = rng.range(0, 6) as u32;
    hp.disconnect_pct = *rng.pick(&[0, 0, 10, 50]);
    let sim: Sim<C> = run_history(rng, &hp, |_, _| true);
    finish_case(ctx, &sim, "chaos", json!({"moves": moves, "personality": hp.personality.to_json(), "disconnect_pct": hp.disconnect_pct}));
}

/// Many small chunks queued without a flush; then loss and resends that span
/// several datagrams.
fn burst<C: Conn>(ctx: &mut Ctx, rng: &mut Rng, variant: Variant) {
    let mut sim: Sim<C> = Sim::new(variant, rng.u64());
    if !sim.handshake() {
        finish_case(ctx, &sim, "burst", json!({"handshake": false}));
        return;
    }
    let n = *rng.pick(&[10usize, 100, 254, 255, 256, 257, 300, 499, 600, 1000]);
    let maxlen = *rng.pick(&[0usize, 1, 3, 3, 8]);
    let vital_pct = *rng.pick(&[0u64, 50, 100]);
    let side = rng.usize_below(2);
    for _ in 0..n {
        if sim.ended {
            break;
        }
        let vital = rng.below(100) < vital_pct;
        sim.apply(Move::Send { side, len: rng.usize_below(maxlen + 1), vital, fill: rng.u8() });
    }
    sim.apply(Move::Flush(side));
    // lose a random part of what is in flight, deliver the rest
    let to = 1 - side;
    let mut i = 0;
    while i < sim.wire[to].len() {
        if rng.chance(1, 2) {
            sim.apply(Move::Drop { to, idx: i });
        } else {
            i += 1;
        }
    }
    sim.deliver_all(4);
    // big vital chunks so that a resend needs several datagrams
    let big = rng.range(0, 6) as usize;
    for _ in 0..big {
        let len = rng.range(300, 1023) as usize;
        sim.apply(Move::Send { side, len, vital: true, fill: rng.u8() });
    }
    sim.apply(Move::Flush(side));
    while !sim.wire[to].is_empty() {
        sim.apply(Move::Drop { to, idx: 0 });
    }
    for _ in 0..6 {
        sim.apply(Move::Advance(1_000_000));
        sim.apply(Move::Tick(0));
        sim.apply(Move::Tick(1));
        if rng.bool() {
            sim.deliver_all(2);
        }
    }
    sim.deliver_all(8);
    finish_case(ctx, &sim, "burst", json!({"chunks": n, "maxlen": maxlen, "vital_pct": vital_pct, "side": side, "big": big}));
}

/// Payload lengths swept over a contiguous range, vital and not, with and
/// without already queued data; connless sends; refusals must leave the
/// connection usable (the history continues under all oracles).
fn boundary<C: Conn>(ctx: &mut Ctx, rng: &mut Rng, variant: Variant, lo: usize, hi: usize) {
    let mut sim: Sim<C> = Sim::new(variant, rng.u64());
    if !sim.handshake() {
        finish_case(ctx, &sim, "boundary", json!({"handshake": false}));
        return;
    }
    for len in lo..hi {
        if sim.ended {
            break;
        }
        let side = rng.usize_below(2);
        if rng.chance(1, 3) {
            // something already queued
            sim.apply(Move::Send { side, len: rng.usize_below(40), vital: rng.bool(), fill: 1 });
        }
        match rng.below(5) {
            0 => sim.apply(Move::Connless { side, len }),
            1 | 2 => sim.apply(Move::Send { side, len, vital: false, fill: rng.u8() }),
            _ => sim.apply(Move::Send { side, len, vital: true, fill: rng.u8() }),
        };
        if rng.chance(2, 3) {
            sim.apply(Move::Flush(side));
        }
        if rng.chance(1, 2) {
            sim.deliver_all(3);
        }
        if rng.chance(1, 10) {
            sim.apply(Move::Advance(1_000_000));
            sim.apply(Move::Tick(0));
            sim.apply(Move::Tick(1));
        }
    }
    sim.deliver_all(8);
    finish_case(ctx, &sim, "boundary", json!({"len_from": lo, "len_to": hi}));
}

/// `disconnect` in every state that permits it, every reason length 0..=127.
fn disconnects<C: Conn>(ctx: &mut Ctx, rng: &mut Rng, variant: Variant, reason_len: usize) {
    // state to reach: 0 Unconnected (acceptor that never saw anything), 1 connecting, 2 pending, 3 online (both), 4 online with data in flight
    for target in 0..5 {
        for side in 0..2 {
            let mut sim: Sim<C> = Sim::new(variant, rng.u64());
            sim.allow_disconnect_unconnected = true;
            match target {
                0 => {}
                1 => {
                    sim.apply(Move::Connect);
                }
                2 => {
                    sim.apply(Move::Connect);
                    // deliver only the connector's datagrams for a while
                    for _ in 0..3 {
                        if !sim.wire[1].is_empty() {
                            sim.apply(Move::Deliver { to: 1, idx: 0 });
                        }
                        if C::V7 && !sim.wire[0].is_empty() {
                            sim.apply(Move::Deliver { to: 0, idx: 0 });
                        }
                    }
                }
                3 => {
                    sim.handshake();
                }
                _ => {
                    sim.handshake();
                    for _ in 0..rng.range(1, 5) {
                        let s = rng.usize_below(2);
                        sim.apply(Move::Send { side: s, len: rng.usize_below(300), vital: rng.bool(), fill: rng.u8() });
                    }
                }
            }
            let st = sim.sides[side].conn.state_name();
            ctx.seen("disconnect_from_state", &format!("{}:{}", variant.name(), st));
            sim.apply(Move::Disconnect { side, reason_len });
            sim.deliver_all(4);
            finish_case(ctx, &sim, "disconnect", json!({"target": target, "side": side, "reason_len": reason_len, "state": st}));
        }
    }
}

fn dispatch<F6: FnOnce(&mut Ctx, &mut Rng), F7: FnOnce(&mut Ctx, &mut Rng)>(ctx: &mut Ctx, rng: &mut Rng, v: Variant, f6: F6, f7: F7) {
    if v == Variant::V7 {
        f7(ctx, rng)
    } else {
        f6(ctx, rng)
    }
}

fn main() {
    let mut ctx = Ctx::from_args("C04");
    ctx.rule = "cases are histories of valid API calls on two real endpoints (chaos with payload lengths 0..2000 and disconnects; bursts of up to 1000 tiny chunks without flush followed by loss and multi-datagram resends; contiguous payload-length sweeps 0..1500 vital/non-vital/connless; disconnect from every state with every reason length 0..127); every datagram passed to Callback::send is parsed by the library's reader with the true token mode; non-trivial = at least 3 datagrams emitted; distinct = hash of workload kind and visited endpoint-state set".into();
    ctx.assumptions = vec![
        "validity of a call is read off the API's own assertions: send/flush/send_connless need Online, connect needs Unconnected, disconnect anything but Disconnected (Net::reject calls it on an unconnected connection), tick/feed any state".into(),
        "a refusal (TooLongData) is accepted for any payload of 1024 bytes or more (0.6 cannot carry it in a 10-bit chunk size); below that it is a violation".into(),
    ];
    ctx.arm("c04", 1800.0);
    let n = ctx.volume(250, 5_000, 3, 10);
    ctx.run_cases("chaos", n, |ctx, idx, rng| {
        let v = Variant::all()[(idx % 3) as usize];
        let moves = match ctx.tier {
            Tier::Miri => 100,
            _ => *rng.pick(&[100usize, 300, 1000, 3000]),
        };
        dispatch(ctx, rng, v, |c, r| chaos::<c6::Connection>(c, r, v, moves), |c, r| chaos::<c7::Connection>(c, r, v, moves));
    });
    let n = ctx.volume(80, 1_500, 0, 3);
    ctx.run_cases("burst", n, |ctx, idx, rng| {
        let v = Variant::all()[(idx % 3) as usize];
        dispatch(ctx, rng, v, |c, r| burst::<c6::Connection>(c, r, v), |c, r| burst::<c7::Connection>(c, r, v));
    });
    // length sweep: each shard takes a slice of 0..1504 per variant
    let per = 1504 / ctx.nshards as usize + 1;
    let reps = ctx.volume(1, 20, 0, 1);
    ctx.run_cases("boundary", 3 * reps, |ctx, idx, rng| {
        let v = Variant::all()[(idx % 3) as usize];
        let lo = per * ctx.shard as usize;
        let (lo, hi) = if ctx.tier == Tier::Miri { (1386, 1392) } else { (lo, (lo + per).min(1504)) };
        dispatch(ctx, rng, v, |c, r| boundary::<c6::Connection>(c, r, v, lo, hi), |c, r| boundary::<c7::Connection>(c, r, v, lo, hi));
    });
    // reason lengths 0..=127 split over shards
    let nshards = ctx.nshards;
    let shard = ctx.shard;
    ctx.run_cases("disconnect", 3 * 128, |ctx, idx, rng| {
        let reason_len = (idx / 3) as usize;
        if reason_len as u64 % nshards != shard && ctx.replay.is_none() {
            return;
        }
        if ctx.tier == Tier::Miri && ![0usize, 127].contains(&reason_len) {
            return;
        }
        let v = Variant::all()[(idx % 3) as usize];
        dispatch(ctx, rng, v, |c, r| disconnects::<c6::Connection>(c, r, v, reason_len), |c, r| disconnects::<c7::Connection>(c, r, v, reason_len));
    });
    ctx.disarm();
    ctx.finish();
}
