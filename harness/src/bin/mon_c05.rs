//! C05 — packet encoding and decoding are mutually inverse.
//!
//! Generated packet *values* (both versions) are written by the library's
//! writer and read back by its reader (told the true token mode): field-by-field
//! equality, empty warning sink. Headers: exhaustive/strided sweeps of the
//! bit-field pack/unpack pairs.

use libtw2_common::bytes::AsBytesExt;
use libtw2_common::bytes::FromBytesExt;
use libtw2_net::protocol as p6;
use libtw2_net::protocol7 as p7;
use serde_json::json;
use verif_harness::catch;
use verif_harness::hex;
use verif_harness::hex_short;
use verif_harness::pktgen::*;
use verif_harness::Ctx;
use verif_harness::Rng;
use verif_harness::Tier;
use verif_harness::Warnings;

fn roundtrip6(ctx: &mut Ctx, rng: &mut Rng, recorded: &[Vec<u8>]) {
    let (p, class) = gen6(rng, recorded);
    let case = json!({"version": "0.6", "packet": p.to_json()});
    let kind = p.kind();
    let mut wbuf = [0u8; 1400];
    let bytes = match catch(|| p.write(&mut wbuf[..])) {
        Ok(Ok(b)) => b,
        Ok(Err(e)) => {
            ctx.violation("write-refused", "Packet::write", &format!("0.6|{}|{}", kind, e), json!({}), case);
            return;
        }
        Err(pn) => {
            ctx.panic_violation("Packet::write", &format!("0.6|{}", kind), &pn, case);
            return;
        }
    };
    let compressed = bytes.len() >= 3 && (bytes[0] >> 4) & p6::PACKETFLAG_COMPRESSION != 0 && (bytes[0] >> 4) & p6::PACKETFLAG_CONNLESS == 0;
    if matches!(p, Pkt6::Chunks { .. }) {
        ctx.count(if compressed { "v6_chunks_compressed" } else { "v6_chunks_uncompressed" }, 1);
    }
    ctx.count(&format!("v6[{}]", kind), 1);
    let hint = p.has_token().or(Some(rng.bool()));
    // scratch buffer: exactly the documented minimum or larger
    let mut rbuf = [0u8; 2048];
    let rcap = if rng.bool() { 1400 } else { 2048 };
    let r = catch(|| {
        let mut w = Warnings::new();
        let r = p6::Packet::read(&mut w, &bytes, hint, &mut rbuf[..rcap]).map(|q| Pkt6::from_lib(&q));
        (r, w)
    });
    match r {
        Err(pn) => ctx.panic_violation("Packet::read", &format!("0.6|{}", kind), &pn, case),
        Ok((Err(e), _)) => ctx.violation("value-differs", "Packet::read", &format!("0.6|{}|error={:?}", kind, e), json!({"bytes": hex_short(&bytes), "compressed": compressed}), case),
        Ok((Ok(q), w)) => {
            if q != p {
                ctx.violation("value-differs", "Packet::read", &format!("0.6|{}|compressed={}", kind, compressed), json!({"bytes": hex_short(&bytes), "read_back": q.to_json()}), case);
                return;
            }
            // the single value-level exception: Chunks(false, 0, _) is *expected* to warn ChunksNoChunks
            let expected: Vec<String> = match &p {
                Pkt6::Chunks { request_resend: false, num_chunks: 0, .. } => vec!["ChunksNoChunks".into()],
                _ => vec![],
            };
            if w.0 != expected {
                let mut ws = w.0.clone();
                ws.sort();
                ws.dedup();
                ctx.violation("warning", "Packet::read", &format!("0.6|{}|{}", kind, ws.join("+")), json!({"bytes": hex_short(&bytes), "warnings": w.0, "expected": expected}), case);
            }
        }
    }
    ctx.case(Some(verif_harness::fnv1a(&bytes) ^ class as u64));
    if ctx.want_sample() && rng.chance(1, 50) {
        ctx.sample(json!({"version": "0.6", "kind": kind, "content": format!("{:?}", class), "wire_len": bytes.len(), "compressed": compressed, "wire": hex_short(&bytes)}));
    }
}

fn roundtrip7(ctx: &mut Ctx, rng: &mut Rng, recorded: &[Vec<u8>]) {
    let (p, class) = gen7(rng, recorded);
    let case = json!({"version": "0.7", "packet": p.to_json()});
    let kind = p.kind();
    let mut wbuf = [0u8; 1400];
    let bytes = match catch(|| p.write(&mut wbuf[..])) {
        Ok(Ok(b)) => b,
        Ok(Err(e)) => {
            ctx.violation("write-refused", "Packet::write", &format!("0.7|{}|{}", kind, e), json!({}), case);
            return;
        }
        Err(pn) => {
            ctx.panic_violation("Packet::write", &format!("0.7|{}", kind), &pn, case);
            return;
        }
    };
    let flags = (bytes[0] >> 2) & 0xf;
    let compressed = flags & p7::PACKETFLAG_COMPRESSION != 0 && flags & p7::PACKETFLAG_CONNLESS == 0;
    if matches!(p, Pkt7::Chunks { .. }) {
        ctx.count(if compressed { "v7_chunks_compressed" } else { "v7_chunks_uncompressed" }, 1);
    }
    ctx.count(&format!("v7[{}]", kind), 1);
    let mut rbuf = [0u8; 2048];
    let rcap = if rng.bool() { 1400 } else { 2048 };
    let r = catch(|| {
        let mut w = Warnings::new();
        let r = p7::Packet::read(&mut w, &bytes, &mut rbuf[..rcap]).map(|q| Pkt7::from_lib(&q));
        (r, w)
    });
    match r {
        Err(pn) => ctx.panic_violation("Packet::read", &format!("0.7|{}", kind), &pn, case),
        Ok((Err(e), _)) => ctx.violation("value-differs", "Packet::read", &format!("0.7|{}|error={:?}", kind, e), json!({"bytes": hex_short(&bytes), "compressed": compressed}), case),
        Ok((Ok(q), w)) => {
            if q != p {
                ctx.violation("value-differs", "Packet::read", &format!("0.7|{}|compressed={}", kind, compressed), json!({"bytes": hex_short(&bytes), "read_back": q.to_json()}), case);
                return;
            }
            let expected: Vec<String> = match &p {
                Pkt7::Chunks { request_resend: false, num_chunks: 0, .. } => vec!["ChunksNoChunks".into()],
                _ => vec![],
            };
            if w.0 != expected {
                let mut ws = w.0.clone();
                ws.sort();
                ws.dedup();
                ctx.violation("warning", "Packet::read", &format!("0.7|{}|{}", kind, ws.join("+")), json!({"bytes": hex_short(&bytes), "warnings": w.0, "expected": expected}), case);
            }
        }
    }
    ctx.case(Some(verif_harness::fnv1a(&bytes) ^ class as u64));
    if ctx.want_sample() && rng.chance(1, 50) {
        ctx.sample(json!({"version": "0.7", "kind": kind, "content": format!("{:?}", class), "wire_len": bytes.len(), "compressed": compressed, "wire": hex_short(&bytes)}));
    }
}

/// Chunk sequences written by `write_chunk` come back from `ChunksIter`
/// identically and warning-free.
fn chunk_level(ctx: &mut Ctx, rng: &mut Rng, v7: bool) {
    let n = match rng.below(4) {
        0 => 0,
        1 => 1,
        _ => rng.range(0, 40) as usize,
    };
    let mut chunks: Vec<(Vec<u8>, Option<(u16, bool)>)> = Vec::new();
    let mut buf: Vec<u8> = Vec::with_capacity(4096);
    let cap = 1393usize;
    for _ in 0..n {
        let maxlen = if v7 { 1390 } else { 1023 };
        let len = match rng.below(6) {
            0 => 0,
            1 => rng.usize_below(4),
            2 => *rng.pick(&[15usize, 16, 17, 63, 64, 65, 255, 256, 1023]),
            3 => maxlen,
            _ => rng.usize_below(100),
        }
        .min(maxlen);
        let vital = if rng.bool() { Some((rng.below(1024) as u16, rng.bool())) } else { None };
        if buf.len() + len + 3 > cap {
            break;
        }
        let data = rng.bytes(len);
        let r = catch(|| {
            let mut tmp = [0u8; 2048];
            if v7 { p7::write_chunk(&data, vital, &mut tmp[..]).map(|b| b.to_vec()) } else { p6::write_chunk(&data, vital, &mut tmp[..]).map(|b| b.to_vec()) }
        });
        match r {
            Ok(Ok(b)) => buf.extend(b),
            Ok(Err(_)) => {
                ctx.violation("write-refused", "write_chunk", if v7 { "0.7" } else { "0.6" }, json!({"len": len}), json!({"len": len, "vital": format!("{:?}", vital)}));
                return;
            }
            Err(p) => {
                ctx.panic_violation("write_chunk", if v7 { "0.7" } else { "0.6" }, &p, json!({"len": len, "vital": format!("{:?}", vital)}));
                return;
            }
        }
        chunks.push((data, vital));
    }
    let case = json!({"v7": v7, "chunks": chunks.iter().map(|(d, v)| json!({"len": d.len(), "vital": format!("{:?}", v)})).collect::<Vec<_>>(), "bytes": hex(&buf)});
    let got = catch(|| {
        let mut w = Warnings::new();
        let mut out: Vec<(Vec<u8>, Option<(u16, bool)>)> = Vec::new();
        if v7 {
            let mut it = p7::ChunksIter::new(&buf, chunks.len() as u8);
            while let Some(c) = it.next_warn(&mut w) {
                out.push((c.data.to_vec(), c.vital));
            }
        } else {
            let mut it = p6::ChunksIter::new(&buf, chunks.len() as u8);
            while let Some(c) = it.next_warn(&mut w) {
                out.push((c.data.to_vec(), c.vital));
            }
        }
        (out, w)
    });
    let vn = if v7 { "0.7" } else { "0.6" };
    match got {
        Err(p) => ctx.panic_violation("ChunksIter::next_warn", vn, &p, case),
        Ok((out, w)) => {
            if out != chunks {
                ctx.violation("value-differs", "ChunksIter", vn, json!({"got": out.len(), "want": chunks.len()}), case);
            } else if !w.is_empty() {
                let mut ws = w.0.clone();
                ws.sort();
                ws.dedup();
                ctx.violation("warning", "ChunksIter", &format!("{}|{}", vn, ws.join("+")), json!({"warnings": w.0}), case);
            }
        }
    }
    ctx.count(if v7 { "v7_chunk_sequences" } else { "v6_chunk_sequences" }, 1);
    ctx.case(if chunks.len() >= 2 { Some(verif_harness::fnv1a(&buf)) } else { None });
}

struct CountWarn(u32);
impl<W> libtw2_warn::Warn<W> for CountWarn {
    fn warn(&mut self, _: W) {
        self.0 += 1;
    }
}

/// Exhaustive / strided sweeps over the header bit patterns.
fn headers(ctx: &mut Ctx) {
    if !ctx.set_phase("headers") {
        return;
    }
    let stride: u32 = match ctx.tier {
        Tier::Thorough => 1,
        Tier::Quick => 7,
        Tier::Asan => 1021,
        Tier::Miri => 65_537,
    };
    let (shard, nshards) = (ctx.shard as u32, ctx.nshards as u32);
    let mut n = 0u64;
    let mut canonical = 0u64;
    ctx.arm("headers", 900.0);
    // --- 0.6 packet header: all 2^24 three-byte patterns
    let mut x = shard * stride;
    while x < 1 << 24 {
        let b = [(x >> 16) as u8, (x >> 8) as u8, x as u8];
        let packed = p6::PacketHeaderPacked::from_array(b);
        let mut w = CountWarn(0);
        let h = packed.unpack_warn(&mut w);
        let canon = b[0] & 0b0000_1100 == 0;
        n += 1;
        if canon {
            canonical += 1;
            let back = *h.pack().as_byte_array();
            if back != b || w.0 != 0 {
                ctx.set_case(x as u64);
                ctx.violation("header", "0.6 PacketHeader", if back != b { "unpack-pack-not-identity" } else { "warning-on-canonical" }, json!({"bytes": hex(&b), "back": hex(&back)}), json!({"bytes": hex(&b)}));
            }
        } else if b[0] & 0b0010_0000 == 0 && w.0 == 0 {
            ctx.set_case(x as u64);
            ctx.violation("header", "0.6 PacketHeader", "no-warning-on-padding", json!({"bytes": hex(&b)}), json!({"bytes": hex(&b)}));
        }
        // in-range tuple -> pack -> unpack
        let t = p6::PacketHeader { flags: (x >> 18) as u8 & 0xf, ack: (x >> 8) as u16 & 0x3ff, num_chunks: x as u8 };
        if t.pack().unpack() != t {
            ctx.set_case(x as u64);
            ctx.violation("header", "0.6 PacketHeader", "pack-unpack-not-identity", json!({"tuple": format!("{:?}", t)}), json!({"tuple": format!("{:?}", t)}));
        }
        x += stride * nshards;
    }
    // --- 0.6 / 0.7 vital chunk headers: all 2^24 patterns, non-vital: all 2^16
    let mut x = shard * stride;
    while x < 1 << 24 {
        let b = [(x >> 16) as u8, (x >> 8) as u8, x as u8];
        n += 2;
        {
            let packed = p6::ChunkHeaderVitalPacked::from_array(b);
            let mut w = CountWarn(0);
            let h = packed.unpack_warn(&mut w);
            let canon = (b[1] & 0b0011_0000) >> 4 == (b[2] & 0b1100_0000) >> 6;
            if canon {
                canonical += 1;
                let back = *h.pack().as_byte_array();
                if back != b || w.0 != 0 {
                    ctx.set_case(x as u64);
                    ctx.violation("header", "0.6 ChunkHeaderVital", if back != b { "unpack-pack-not-identity" } else { "warning-on-canonical" }, json!({"bytes": hex(&b), "back": hex(&back)}), json!({"bytes": hex(&b)}));
                }
            }
            let t = p6::ChunkHeaderVital { h: p6::ChunkHeader { flags: (x >> 22) as u8 & 3, size: (x >> 12) as u16 & 0x3ff }, sequence: x as u16 & 0x3ff };
            if t.pack().unpack() != t {
                ctx.set_case(x as u64);
                ctx.violation("header", "0.6 ChunkHeaderVital", "pack-unpack-not-identity", json!({"tuple": format!("{:?}", t)}), json!({"tuple": format!("{:?}", t)}));
            }
        }
        {
            let packed = p7::ChunkHeaderVitalPacked::from_array(b);
            let mut w = CountWarn(0);
            let h = packed.unpack_warn(&mut w);
            canonical += 1;
            let back = *h.pack().as_byte_array();
            if back != b || w.0 != 0 {
                ctx.set_case(x as u64);
                ctx.violation("header", "0.7 ChunkHeaderVital", if back != b { "unpack-pack-not-identity" } else { "warning-on-canonical" }, json!({"bytes": hex(&b), "back": hex(&back)}), json!({"bytes": hex(&b)}));
            }
            let t = p7::ChunkHeaderVital { h: p7::ChunkHeader { flags: (x >> 22) as u8 & 3, size: (x >> 10) as u16 & 0xfff }, sequence: x as u16 & 0x3ff };
            if t.pack().unpack() != t {
                ctx.set_case(x as u64);
                ctx.violation("header", "0.7 ChunkHeaderVital", "pack-unpack-not-identity", json!({"tuple": format!("{:?}", t)}), json!({"tuple": format!("{:?}", t)}));
            }
        }
        x += stride * nshards;
    }
    let mut x = shard;
    while x < 1 << 16 {
        let b = [(x >> 8) as u8, x as u8];
        n += 2;
        {
            let packed = p6::ChunkHeaderPacked::from_array(b);
            let mut w = CountWarn(0);
            let h = packed.unpack_warn(&mut w);
            if b[1] & 0xf0 == 0 {
                canonical += 1;
                let back = *h.pack().as_byte_array();
                if back != b || w.0 != 0 {
                    ctx.set_case(x as u64);
                    ctx.violation("header", "0.6 ChunkHeader", if back != b { "unpack-pack-not-identity" } else { "warning-on-canonical" }, json!({"bytes": hex(&b), "back": hex(&back)}), json!({"bytes": hex(&b)}));
                }
            }
            let t = p6::ChunkHeader { flags: (x >> 10) as u8 & 3, size: x as u16 & 0x3ff };
            if t.pack().unpack() != t {
                ctx.violation("header", "0.6 ChunkHeader", "pack-unpack-not-identity", json!({"tuple": format!("{:?}", t)}), json!({"tuple": format!("{:?}", t)}));
            }
        }
        {
            let packed = p7::ChunkHeaderPacked::from_array(b);
            let mut w = CountWarn(0);
            let h = packed.unpack_warn(&mut w);
            if b[1] & 0xc0 == 0 {
                canonical += 1;
                let back = *h.pack().as_byte_array();
                if back != b || w.0 != 0 {
                    ctx.set_case(x as u64);
                    ctx.violation("header", "0.7 ChunkHeader", if back != b { "unpack-pack-not-identity" } else { "warning-on-canonical" }, json!({"bytes": hex(&b), "back": hex(&back)}), json!({"bytes": hex(&b)}));
                }
            }
            let t = p7::ChunkHeader { flags: (x >> 12) as u8 & 3, size: x as u16 & 0xfff };
            if t.pack().unpack() != t {
                ctx.violation("header", "0.7 ChunkHeader", "pack-unpack-not-identity", json!({"tuple": format!("{:?}", t)}), json!({"tuple": format!("{:?}", t)}));
            }
        }
        x += nshards;
    }
    // --- 0.7 packet header (7 bytes) and connless header (9 bytes): all
    // first-three-byte patterns x sampled tokens
    let toks: [[u8; 4]; 4] = [[0; 4], [0xff; 4], [0x12, 0x34, 0x56, 0x78], [0x80, 0x00, 0x00, 0x01]];
    let mut x = shard * stride;
    while x < 1 << 24 {
        let tok = toks[(x as usize / 7) % 4];
        let b = [(x >> 16) as u8, (x >> 8) as u8, x as u8, tok[0], tok[1], tok[2], tok[3]];
        n += 1;
        let packed = p7::PacketHeaderPacked::from_array(b);
        let mut w = CountWarn(0);
        let h = packed.unpack_warn(&mut w);
        if b[0] & 0xc0 == 0 {
            canonical += 1;
            let back = *h.pack().as_byte_array();
            if back != b || w.0 != 0 {
                ctx.set_case(x as u64);
                ctx.violation("header", "0.7 PacketHeader", if back != b { "unpack-pack-not-identity" } else { "warning-on-canonical" }, json!({"bytes": hex(&b), "back": hex(&back)}), json!({"bytes": hex(&b)}));
            }
        } else if w.0 == 0 {
            ctx.violation("header", "0.7 PacketHeader", "no-warning-on-padding", json!({"bytes": hex(&b)}), json!({"bytes": hex(&b)}));
        }
        let t = p7::PacketHeader { flags: (x >> 18) as u8 & 0xf, ack: (x >> 8) as u16 & 0x3ff, num_chunks: x as u8, token: p7::Token(tok) };
        if t.pack().unpack() != t {
            ctx.violation("header", "0.7 PacketHeader", "pack-unpack-not-identity", json!({"tuple": format!("{:?}", t)}), json!({"tuple": format!("{:?}", t)}));
        }
        if x < 256 * stride * nshards {
            let first = (x / (stride * nshards).max(1)) as u8;
            for t1 in &toks {
                for t2 in &toks {
                    let b9 = [first, t1[0], t1[1], t1[2], t1[3], t2[0], t2[1], t2[2], t2[3]];
                    let packed = p7::PacketHeaderConnlessPacked::from_array(b9);
                    let mut w = CountWarn(0);
                    let h = packed.unpack_warn(&mut w);
                    n += 1;
                    if first & 0xc0 == 0 {
                        canonical += 1;
                        let back = *h.pack().as_byte_array();
                        if back != b9 || w.0 != 0 {
                            ctx.violation("header", "0.7 PacketHeaderConnless", if back != b9 { "unpack-pack-not-identity" } else { "warning-on-canonical" }, json!({"bytes": hex(&b9), "back": hex(&back)}), json!({"bytes": hex(&b9)}));
                        }
                    }
                }
            }
        }
        x += stride * nshards;
    }
    ctx.disarm();
    ctx.count("header_patterns", n);
    ctx.count("header_patterns_canonical", canonical);
    ctx.cases_bulk(n, n);
    if ctx.tier == Tier::Thorough {
        ctx.exhaustive = Some(true);
        ctx.note("headers: all 2^24 0.6 packet headers, all 2^24 vital and 2^16 non-vital chunk headers of both versions and all 2^24 first-three-byte patterns of the 0.7 packet header enumerated (exhaustive for those sub-spaces); packet values are sampled");
    }
}

fn main() {
    let mut ctx = Ctx::from_args("C05");
    ctx.rule = "packet values (connless, every control message with/without token, close reasons 0..127 bytes, chunk packets with both flags, ack 0..1023, chunk count 0..255, payload 0..max, five content classes from all-zero to PRNG noise) are written and read back with the true token mode; chunk sequences through write_chunk/ChunksIter; header bit patterns swept (exhaustively in thorough, stride 7 in quick; distinct by construction); a value case is distinct by the hash of its wire bytes".into();
    ctx.assumptions = vec![
        "values stay inside the writer's documented preconditions: NUL-free close reasons of at most 127 bytes, 0.7 response tokens other than ffffffff, uncompressed packet size <= 1400".into(),
        "Chunks(false, 0, _) is expected to produce exactly the ChunksNoChunks warning (the repository's own tests treat that value the same way)".into(),
    ];
    let recorded = recorded_traffic();
    headers(&mut ctx);
    ctx.arm("values", 1800.0);
    let n = ctx.volume(30_000, 400_000, 30, 2_000);
    ctx.run_cases("v6", n, |ctx, _i, rng| roundtrip6(ctx, rng, &recorded));
    ctx.run_cases("v7", n, |ctx, _i, rng| roundtrip7(ctx, rng, &recorded));
    ctx.run_cases("chunks6", n / 4, |ctx, _i, rng| chunk_level(ctx, rng, false));
    ctx.run_cases("chunks7", n / 4, |ctx, _i, rng| chunk_level(ctx, rng, true));
    ctx.disarm();
    ctx.finish();
}
