//! C16 — datafile and map readers are total; accepted files are fully
//! traversable; well-formed files (both versions) come back exactly.
//!
//! Writer/oracle: harness/src/refmodel/datafile.rs (from doc/datafile.md and
//! doc/map.md). Drivers: `datafile::raw::Reader` over in-memory callbacks and
//! `datafile::Reader` / `map::Reader` over files in /dev/shm.

use libtw2_datafile as df;
use libtw2_datafile::format as dff;
use libtw2_datafile::raw;
use libtw2_map as tmap;
use libtw2_map::format as mf;
use libtw2_map::format::EnvpointExt;
use libtw2_map::format::MapItemExt;
use libtw2_map::reader as mr;
use serde_json::json;
use std::cell::Cell;
use std::collections::BTreeSet;
use std::fmt::Debug;
use std::path::Path;
use std::path::PathBuf;
use verif_harness::catch;
use verif_harness::fnv1a;
use verif_harness::hex;
use verif_harness::hex_short;
use verif_harness::refmodel::datafile as wr;
use verif_harness::refmodel::datafile::map as wm;
use verif_harness::refmodel::datafile::Field;
use verif_harness::refmodel::datafile::FieldKind;
use verif_harness::refmodel::datafile::RawFile;
use verif_harness::refmodel::datafile::Spec;
use verif_harness::refmodel::datafile::TypeSpec;
use verif_harness::Ctx;
use verif_harness::Rng;
use verif_harness::Tier;

// ---------------------------------------------------------------- zlib

#[derive(Clone, Copy, Debug)]
enum Zmode {
    /// Stored deflate blocks of at most this many bytes (own writer).
    Stored(usize),
    /// zlib's `compress` through the repo's thin wrapper.
    Lib,
}

#[cfg(feature = "ffi")]
fn lib_compress(d: &[u8]) -> Vec<u8> {
    libtw2_zlib_minimal::compress_vec(d).expect("zlib compress")
}
#[cfg(not(feature = "ffi"))]
fn lib_compress(d: &[u8]) -> Vec<u8> {
    wr::zlib_stored(d, 65535)
}

fn compress(z: Zmode, d: &[u8]) -> Vec<u8> {
    match z {
        Zmode::Stored(b) => wr::zlib_stored(d, b),
        Zmode::Lib => lib_compress(d),
    }
}

/// zlib (C) may be called: not under Miri and only with the `ffi` feature.
fn zlib_ok(ctx: &Ctx) -> bool {
    cfg!(feature = "ffi") && !cfg!(miri) && ctx.tier != Tier::Miri
}

// ---------------------------------------------------------------- error names

fn zlib_err_name(e: &libtw2_zlib_minimal::Error) -> &'static str {
    use libtw2_zlib_minimal::ErrorKind::*;
    match e.kind() {
        Ok(OutOfMemory) => "Df.CompressionError.OutOfMemory",
        Ok(OutputBufferTooSmall) => "Df.CompressionError.OutputBufferTooSmall",
        Ok(InvalidInput) => "Df.CompressionError.InvalidInput",
        Err(()) => "Df.CompressionError.Unknown",
    }
}

fn df_err_name(e: &dff::Error) -> &'static str {
    match e {
        dff::Error::WrongMagic(_) => "Df.WrongMagic",
        dff::Error::UnsupportedVersion(_) => "Df.UnsupportedVersion",
        dff::Error::MalformedHeader => "Df.MalformedHeader",
        dff::Error::Malformed => "Df.Malformed",
        dff::Error::CompressionWrongSize => "Df.CompressionWrongSize",
        dff::Error::CompressionError(z) => zlib_err_name(z),
        dff::Error::TooShort => "Df.TooShort",
        dff::Error::TooShortHeaderVersion => "Df.TooShortHeaderVersion",
        dff::Error::TooShortHeader => "Df.TooShortHeader",
    }
}

fn raw_err_name(e: &raw::Error) -> &'static str {
    match e {
        raw::Error::Callback => "Callback",
        raw::Error::Df(d) => df_err_name(d),
    }
}

fn file_err_name(e: &df::Error) -> String {
    match e {
        df::Error::Df(d) => df_err_name(d).to_string(),
        df::Error::Io(io) => format!("Io.{:?}", io.kind()),
    }
}

/// `Map(Layer(5, Tilemap(InvalidWidth(0))))` -> `Map.Layer.Tilemap.InvalidWidth`
fn debug_variant_name<E: Debug>(e: &E) -> String {
    let s = format!("{:?}", e);
    let mut out: Vec<&str> = Vec::new();
    for tok in s.split(|c: char| !c.is_ascii_alphanumeric() && c != '_') {
        if tok.chars().next().map(|c| c.is_ascii_uppercase()).unwrap_or(false) {
            out.push(tok);
            if out.len() >= 5 {
                break;
            }
        }
    }
    out.join(".")
}

fn map_err_name(e: &tmap::Error) -> String {
    match e {
        tmap::Error::Df(d) => format!("Df:{}", file_err_name(d)),
        tmap::Error::Map(m) => format!("Map.{}", debug_variant_name(m)),
    }
}

// ---------------------------------------------------------------- in-memory callbacks

#[derive(Clone, Copy, Default)]
struct Fail {
    /// Fail the n-th call (1-based) of the `CallbackNew` / `CallbackReadData` callbacks.
    new_at: Option<u64>,
    data_at: Option<u64>,
}

struct MemNew<'a> {
    buf: &'a [u8],
    pos: usize,
    seek_base: Option<usize>,
    calls: u64,
    fail_at: Option<u64>,
}

impl<'a> MemNew<'a> {
    fn tick(&mut self) -> Result<(), raw::CallbackError> {
        self.calls += 1;
        if Some(self.calls) == self.fail_at {
            return Err(raw::CallbackError);
        }
        Ok(())
    }
}

impl<'a> raw::CallbackNew for MemNew<'a> {
    fn read(&mut self, buffer: &mut [u8]) -> Result<usize, raw::CallbackError> {
        self.tick()?;
        let n = buffer.len().min(self.buf.len() - self.pos);
        buffer[..n].copy_from_slice(&self.buf[self.pos..self.pos + n]);
        self.pos += n;
        Ok(n)
    }
    fn set_seek_base(&mut self) -> Result<(), raw::CallbackError> {
        self.tick()?;
        self.seek_base = Some(self.pos);
        Ok(())
    }
    fn ensure_filesize(&mut self, filesize: u32) -> Result<Result<(), ()>, raw::CallbackError> {
        self.tick()?;
        Ok(if self.buf.len() as u64 >= filesize as u64 { Ok(()) } else { Err(()) })
    }
}

struct MemData<'a> {
    buf: &'a [u8],
    seek_base: usize,
    out: Vec<u8>,
    calls: u64,
    fail_at: Option<u64>,
}

impl<'a> MemData<'a> {
    fn tick(&mut self) -> Result<(), raw::CallbackError> {
        self.calls += 1;
        if Some(self.calls) == self.fail_at {
            return Err(raw::CallbackError);
        }
        Ok(())
    }
}

impl<'a> raw::CallbackReadData for MemData<'a> {
    fn seek_read(&mut self, start: u32, buffer: &mut [u8]) -> Result<usize, raw::CallbackError> {
        self.tick()?;
        let off = self.seek_base + start as usize;
        let avail = self.buf.len().saturating_sub(off);
        let n = buffer.len().min(avail);
        if n > 0 {
            buffer[..n].copy_from_slice(&self.buf[off..off + n]);
        }
        Ok(n)
    }
    fn alloc_data_buffer(&mut self, length: usize) -> Result<(), raw::CallbackError> {
        self.tick()?;
        // calloc: huge declared sizes stay virtual until written.
        self.out = vec![0u8; length];
        Ok(())
    }
    fn data_buffer(&mut self) -> &mut [u8] {
        &mut self.out
    }
}

// ---------------------------------------------------------------- what a traversal returns

#[derive(Default, Debug)]
struct Got {
    version: Option<raw::Version>,
    counts: (usize, usize, usize),
    types: Vec<u16>,
    items: Vec<(u16, u16, Vec<i32>)>,
    /// (type_id, start, end) for every probed type id
    ranges: Vec<(u16, usize, usize)>,
    /// find_item(type, id) for every item, in item order
    find: Vec<Option<(u16, u16, Vec<i32>)>>,
    data: Vec<Result<Vec<u8>, String>>,
    data_read: bool,
    /// Two accessors that are defined in terms of each other disagreed.
    inconsistent: Option<&'static str>,
    new_calls: u64,
    data_calls: u64,
}

/// Calls every item accessor of a reader (`raw::Reader` and `datafile::Reader`
/// expose the same set).
macro_rules! traverse_items {
    ($r:expr, $got:expr) => {{
        let r = &$r;
        let got: &mut Got = &mut $got;
        let nt = r.num_item_types();
        let ni = r.num_items();
        let nd = r.num_data();
        got.counts = (nt, ni, nd);
        for i in 0..nt {
            got.types.push(r.item_type(i));
        }
        let via_iter: Vec<u16> = r.item_types().collect();
        if via_iter != got.types {
            got.inconsistent = Some("item_types() vs item_type(i)");
        }
        for i in 0..ni {
            let it = r.item(i);
            got.items.push((it.type_id, it.id, it.data.to_vec()));
        }
        let mut k = 0;
        for it in r.items() {
            if k >= ni || (it.type_id, it.id, it.data) != (got.items[k].0, got.items[k].1, &got.items[k].2[..]) {
                got.inconsistent = Some("items() vs item(i)");
            }
            k += 1;
        }
        if k != ni {
            got.inconsistent = Some("items() length vs num_items()");
        }
        let mut probe: Vec<u16> = got.types.clone();
        probe.extend_from_slice(&[0, 1, 5, 0x8000, 0xffff, 0x1234]);
        for &t in &probe {
            let range = r.item_type_indices(t);
            got.ranges.push((t, range.start, range.end));
            let mut n = 0;
            for (it, i) in r.item_type_items(t).zip(range.clone()) {
                if i >= ni || (it.type_id, it.id, it.data) != (got.items[i].0, got.items[i].1, &got.items[i].2[..]) {
                    got.inconsistent = Some("item_type_items(t) vs item(i)");
                }
                n += 1;
            }
            if n != range.len() || r.item_type_items(t).count() != range.len() {
                got.inconsistent = Some("item_type_items(t) length vs item_type_indices(t)");
            }
        }
        for i in 0..ni {
            let (t, id) = (got.items[i].0, got.items[i].1);
            let f = r.find_item(t, id).map(|it| (it.type_id, it.id, it.data.to_vec()));
            if let Some(ref f) = f {
                if f.0 != t || f.1 != id {
                    got.inconsistent = Some("find_item returned another (type, id)");
                }
            }
            got.find.push(f);
        }
        let _ = r.find_item(0x1234, 0x4321);
    }};
}

/// Opens `bytes` through the raw reader with in-memory callbacks and calls
/// everything.
fn mem_open_traverse(bytes: &[u8], read_data: bool, fail: Fail, stage: &Cell<&'static str>) -> Result<Got, raw::Error> {
    stage.set("Reader::new");
    let mut cbn = MemNew { buf: bytes, pos: 0, seek_base: None, calls: 0, fail_at: fail.new_at };
    let reader = raw::Reader::new(&mut cbn)?;
    let mut got = Got::default();
    got.new_calls = cbn.calls;
    stage.set("raw::Reader accessors");
    got.version = Some(reader.version());
    traverse_items!(reader, got);
    if read_data {
        stage.set("raw::Reader::read_data");
        got.data_read = true;
        let mut cbd = MemData { buf: bytes, seek_base: cbn.seek_base.unwrap_or(0), out: Vec::new(), calls: 0, fail_at: fail.data_at };
        for i in 0..reader.num_data() {
            match reader.read_data(&mut cbd, i) {
                Ok(()) => got.data.push(Ok(std::mem::take(&mut cbd.out))),
                Err(e) => {
                    cbd.out = Vec::new();
                    got.data.push(Err(raw_err_name(&e).to_string()))
                }
            }
        }
        stage.set("raw::Reader::debug_dump");
        let _ = reader.debug_dump(&mut cbd);
        got.data_calls = cbd.calls;
    }
    Ok(got)
}

#[derive(Clone, Copy, Debug, PartialEq, Eq)]
enum OpenMode {
    /// `Reader::open(path)`
    Open,
    /// `Reader::new(file)` with the file positioned at the start
    NewAtZero,
}

/// Opens a file through `datafile::Reader` and calls everything. The file is
/// unlinked as soon as it is open.
fn file_open_traverse(path: &Path, mode: OpenMode, stage: &Cell<&'static str>) -> Result<Got, df::Error> {
    stage.set("Reader::new");
    let opened = match mode {
        OpenMode::Open => df::Reader::open(path),
        OpenMode::NewAtZero => std::fs::File::open(path).map_err(df::Error::Io).and_then(df::Reader::new),
    };
    let _ = std::fs::remove_file(path);
    let mut reader = opened?;
    let mut got = Got::default();
    stage.set("datafile::Reader accessors");
    got.version = Some(reader.version());
    traverse_items!(reader, got);
    stage.set("datafile::Reader::read_data");
    got.data_read = true;
    for i in 0..reader.num_data() {
        got.data.push(reader.read_data(i).map_err(|e| file_err_name(&e)));
    }
    stage.set("datafile::Reader::data_iter");
    let via_iter: Vec<Result<Vec<u8>, String>> = reader.data_iter().map(|r| r.map_err(|e| file_err_name(&e))).collect();
    if via_iter != got.data {
        got.inconsistent = Some("data_iter() vs read_data(i)");
    }
    stage.set("datafile::Reader::debug_dump");
    let _ = reader.debug_dump();
    Ok(got)
}

fn hex_cap(bytes: &[u8]) -> String {
    if bytes.len() <= 8192 {
        hex(bytes)
    } else {
        hex_short(bytes)
    }
}

// ---------------------------------------------------------------- content oracle

/// Well-formed file: what came back must be exactly what the writer stored.
fn compare_content(ctx: &mut Ctx, spec: &Spec, version: i32, got: &Got, medium: &str, case_data: &serde_json::Value) -> bool {
    let mut bad: Option<(&'static str, String)> = None;
    let want_version = if version == 3 { raw::Version::V3 } else { raw::Version::V4 };
    let flat = spec.flat_items();
    if got.version != Some(want_version) {
        bad = Some(("version", format!("{:?} != {:?}", got.version, want_version)));
    } else if got.counts != (spec.types.len(), flat.len(), spec.data.len()) {
        bad = Some(("counts", format!("{:?}", got.counts)));
    } else if got.types != spec.types.iter().map(|t| t.type_id).collect::<Vec<_>>() {
        bad = Some(("types", format!("{:?}", got.types)));
    } else if got.items.len() != flat.len() || got.items.iter().zip(&flat).any(|(g, w)| (g.0, g.1, &g.2[..]) != *w) {
        bad = Some(("items", format!("{:?}", got.items)));
    } else if let Some(why) = got.inconsistent {
        bad = Some(("accessor-consistency", why.to_string()));
    } else {
        for &(t, s, e) in &got.ranges {
            match spec.type_range(t) {
                Some((ws, we)) => {
                    if (s, e) != (ws, we) {
                        bad = Some(("item_type_indices", format!("type {} -> {}..{}, expected {}..{}", t, s, e, ws, we)));
                    }
                }
                None => {
                    if s != e {
                        bad = Some(("item_type_indices", format!("absent type {} -> {}..{}", t, s, e)));
                    }
                }
            }
        }
        for (i, f) in got.find.iter().enumerate() {
            let ok = match f {
                Some(f) => (f.0, f.1, &f.2[..]) == flat[i],
                None => false,
            };
            if !ok {
                bad = Some(("find_item", format!("item {} -> {:?}", i, f)));
            }
        }
        if got.data_read {
            if got.data.len() != spec.data.len() {
                bad = Some(("data", format!("{} blocks", got.data.len())));
            } else {
                for (i, d) in got.data.iter().enumerate() {
                    match d {
                        Ok(b) if *b == spec.data[i] => {}
                        Ok(b) => bad = Some(("data", format!("block {}: got {} expected {}", i, hex_short(b), hex_short(&spec.data[i])))),
                        Err(e) => bad = Some(("data", format!("block {}: error {} (stored {} bytes)", i, e, spec.data[i].len()))),
                    }
                }
            }
        }
    }
    ctx.count("wellformed_compared", 1);
    ctx.count("items_compared", flat.len() as u64);
    if got.data_read {
        ctx.count("data_blocks_compared", spec.data.len() as u64);
    }
    if let Some((aspect, detail)) = bad {
        ctx.violation("value-differs", medium, &format!("v{}|{}", version, aspect), json!({"aspect": aspect, "detail": detail}), case_data.clone());
        return false;
    }
    true
}

// ---------------------------------------------------------------- PRNG content

fn rbytes(rng: &mut Rng, lo: i64, hi: i64) -> Vec<u8> {
    let n = rng.range(lo, hi) as usize;
    rng.bytes(n)
}

fn edgy_u16(rng: &mut Rng) -> u16 {
    match rng.below(9) {
        0 => 0,
        1 => 1,
        2 => 0xffff,
        3 => 0x7fff,
        4 => 0x8000,
        5 => 0xfffe,
        6 => rng.below(10) as u16,
        _ => rng.u32() as u16,
    }
}

fn gen_blob(rng: &mut Rng, allow_big: bool) -> Vec<u8> {
    let len = match rng.below(14) {
        0 | 1 => 0,
        2 => 1,
        3 => 2,
        4 => 3,
        5 => 4,
        6 => 5,
        7 => rng.range(6, 20) as usize,
        8 => rng.range(20, 70) as usize,
        9 => rng.range(70, 300) as usize,
        10 if allow_big && rng.chance(1, 8) => rng.range(65_000, 140_000) as usize,
        _ => rng.range(0, 40) as usize,
    };
    match rng.below(3) {
        0 => rng.bytes(len),
        1 => vec![rng.u8(); len],
        _ => {
            // runs, compressible
            let mut v = Vec::with_capacity(len);
            while v.len() < len {
                let b = rng.u8() % 4;
                let n = rng.range(1, 30) as usize;
                for _ in 0..n.min(len - v.len()) {
                    v.push(b);
                }
            }
            v
        }
    }
}

/// PRNG item and data sets (doc/datafile.md "Terminology"): item types in
/// ascending type_id order, unique ids per type, arbitrary i32 data.
fn gen_spec(rng: &mut Rng, allow_big: bool) -> Spec {
    let nt = rng.weighted(&[1, 3, 4, 4, 2, 1]);
    let mut ids: BTreeSet<u16> = BTreeSet::new();
    while ids.len() < nt {
        ids.insert(edgy_u16(rng));
    }
    let mut types = Vec::new();
    for type_id in ids {
        let n = rng.weighted(&[1, 8, 6, 3, 1]);
        let mut item_ids: Vec<u16> = Vec::new();
        while item_ids.len() < n {
            let id = if rng.chance(2, 3) { item_ids.len() as u16 } else { edgy_u16(rng) };
            if !item_ids.contains(&id) {
                item_ids.push(id);
            }
        }
        let items = item_ids
            .into_iter()
            .map(|id| {
                let len = *rng.pick(&[0usize, 1, 1, 2, 3, 5, 8, 20]);
                (id, (0..len).map(|_| rng.edgy_i32()).collect::<Vec<i32>>())
            })
            .collect();
        types.push(TypeSpec { type_id, items });
    }
    let nd = rng.weighted(&[2, 3, 3, 2, 1]);
    let data = (0..nd).map(|_| gen_blob(rng, allow_big)).collect();
    Spec { types, data }
}

fn gen_zmode(rng: &mut Rng, zlib: bool) -> Zmode {
    if zlib && rng.chance(1, 2) {
        Zmode::Lib
    } else {
        Zmode::Stored(*rng.pick(&[1usize, 7, 100, 65535, 65535]))
    }
}

// ---------------------------------------------------------------- variants

/// Boundary values for one field: 0, +-1, unaligned (+1/+2/+3), +-4, MIN, MAX,
/// "just past the end" (and its neighbours), negation, 16-bit limits.
fn candidates(f: &Field) -> Vec<i32> {
    let v = f.value;
    let l = f.limit;
    let mut c = vec![
        0,
        1,
        -1,
        v.wrapping_add(1),
        v.wrapping_sub(1),
        v.wrapping_add(2),
        v.wrapping_add(3),
        v.wrapping_add(4),
        v.wrapping_sub(4),
        i32::MIN,
        i32::MAX,
        i32::MIN + 1,
        l,
        l.wrapping_add(1),
        l.wrapping_sub(1),
        l.wrapping_add(4),
        v.wrapping_neg(),
        0xffff,
        0x10000,
    ];
    match f.kind {
        FieldKind::Magic => {
            c.push(i32::from_le_bytes(*b"ATAD"));
            c.push(i32::from_le_bytes(*b"DATA"));
            c.push(i32::from_le_bytes(*b"DATB"));
        }
        FieldKind::Version => c.extend_from_slice(&[2, 3, 4, 5]),
        FieldKind::ItemTypeIdAndId => {
            c.push(v ^ 0x1_0000);
            c.push(v.wrapping_add(0x1_0000));
            c.push(v.wrapping_sub(0x1_0000));
            c.push(v ^ 1);
            c.push(v ^ i32::MIN);
        }
        FieldKind::UncompSize => c.extend_from_slice(&[v / 2, 1 << 20, 1 << 30]),
        _ => {}
    }
    c.sort_unstable();
    c.dedup();
    c.retain(|&x| x != v);
    c
}

struct Opts {
    /// C zlib may be called (block corruption needs honest streams either way,
    /// but reading them back needs zlib).
    zlib: bool,
    /// Keep one variant in `sample` (1 = all).
    sample: u64,
    /// Truncate at every position when the file is at most this long.
    trunc_all_below: usize,
    trunc_samples: usize,
    /// Consistent headers that declare huge tables.
    huge: bool,
}

/// A variant handed to the sink: bytes, class, sub-class and a lazy recipe.
type Sink<'s> = dyn FnMut(&[u8], &'static str, &'static str, &dyn Fn() -> String) + 's;

fn keep(rng: &mut Rng, o: &Opts) -> bool {
    o.sample <= 1 || rng.below(o.sample) == 0
}

/// Enumerates the honest file and every derived broken file.
fn for_variants(raw: &RawFile, spec: &Spec, z: Zmode, rng: &mut Rng, o: &Opts, sink: &mut Sink) {
    let (bytes, layout) = raw.serialise();
    sink(&bytes, "wellformed", "", &|| "the honest file".to_string());

    // single-field corruption
    let mut buf = bytes.clone();
    for f in &layout.fields {
        for new in candidates(f) {
            if !keep(rng, o) {
                continue;
            }
            // a declared uncompressed size of a gigabyte makes the reader map and
            // unmap that much; once per file is enough
            if f.kind == FieldKind::UncompSize && f.index > 0 && new >= 1 << 24 {
                continue;
            }
            buf[f.pos..f.pos + 4].copy_from_slice(&new.to_le_bytes());
            sink(&buf, "field", f.kind.name(), &|| format!("{}[{}] at byte {}: {} -> {}", f.kind.name(), f.index, f.pos, f.value, new));
        }
        buf[f.pos..f.pos + 4].copy_from_slice(&bytes[f.pos..f.pos + 4]);
    }

    // truncation
    let mut cuts: Vec<usize> = Vec::new();
    if bytes.len() <= o.trunc_all_below {
        cuts.extend(0..bytes.len());
    } else {
        cuts.extend(0..40.min(bytes.len()));
        for &b in &[layout.items_start, layout.data_start, bytes.len()] {
            for d in 0..6 {
                if b >= d && b - d < bytes.len() {
                    cuts.push(b - d);
                }
                if b + d < bytes.len() {
                    cuts.push(b + d);
                }
            }
        }
        for _ in 0..o.trunc_samples {
            cuts.push(rng.usize_below(bytes.len()));
        }
        cuts.sort_unstable();
        cuts.dedup();
    }
    for cut in cuts {
        if !keep(rng, o) {
            continue;
        }
        sink(&bytes[..cut], "truncate", "", &|| format!("truncated to {} of {} bytes", cut, bytes.len()));
    }

    // trailing garbage
    {
        let mut b = bytes.clone();
        b.extend(rbytes(rng, 1, 16));
        sink(&b, "consistent", "trailing-garbage", &|| "honest file followed by garbage".to_string());
    }

    // compressed blocks (version 4)
    if raw.version == 4 && o.zlib {
        for i in 0..spec.data.len() {
            let plain = &spec.data[i];
            let s = compress(z, plain);
            let mut alts: Vec<(&'static str, Vec<u8>)> = Vec::new();
            let mut t = s.clone();
            let n = t.len();
            t[n - 1] ^= 0x01;
            alts.push(("bad-adler", t));
            let mut t = s.clone();
            t[0] ^= 0x07;
            alts.push(("bad-header", t));
            let mut t = s.clone();
            t[1] ^= 0x20; // FDICT / check bits
            alts.push(("bad-header", t));
            if s.len() <= 48 {
                for cut in 0..s.len() {
                    alts.push(("truncated-stream", s[..cut].to_vec()));
                }
            } else {
                for _ in 0..12 {
                    alts.push(("truncated-stream", s[..rng.usize_below(s.len())].to_vec()));
                }
                alts.push(("truncated-stream", s[..s.len() - 1].to_vec()));
                alts.push(("truncated-stream", s[..s.len() - 4].to_vec()));
                alts.push(("truncated-stream", Vec::new()));
            }
            let mut t = s.clone();
            t.extend(rbytes(rng, 1, 9));
            alts.push(("stream-trailing-garbage", t));
            alts.push(("random-stream", rbytes(rng, 1, 40)));
            for _ in 0..4 {
                let mut t = s.clone();
                let p = rng.usize_below(t.len());
                t[p] ^= 1 << rng.below(8);
                alts.push(("flipped-bit", t));
            }
            // content larger / smaller than the declared uncompressed size
            let mut more = plain.clone();
            more.extend(rbytes(rng, 1, 20));
            alts.push(("oversized-content", compress(z, &more)));
            if !plain.is_empty() {
                alts.push(("undersized-content", compress(z, &plain[..plain.len() / 2])));
            }
            if let Zmode::Lib = z {
                // decompression bomb: 256 KiB of zeroes behind a small declared size
                alts.push(("bomb", compress(z, &vec![0u8; 256 * 1024])));
            }
            for (sub, stream) in alts {
                if !keep(rng, o) {
                    continue;
                }
                let mut r = raw.clone();
                r.replace_block(i, &stream);
                let b = r.to_bytes();
                sink(&b, "zblock", sub, &|| format!("data block {} ({} plain bytes) stored as {} [{}]", i, plain.len(), hex_short(&stream), sub));
            }
        }
    }

    // consistent (multi-field) deviations
    let n_items = raw.item_offsets.len();
    for k in 0..n_items {
        for d in 1..=3usize {
            if !keep(rng, o) {
                continue;
            }
            // item k is d bytes longer than a multiple of four; everything else
            // (later offsets, item_size, size, swaplen) agrees with that.
            let mut r = raw.clone();
            r.grow_item(k, d, 0x5a);
            if k + 1 < n_items {
                let j = k + 1 + rng.usize_below(n_items - k - 1);
                r.grow_item(j, 4 - d, 0xa5);
                let b = r.to_bytes();
                sink(&b, "consistent", "unaligned-item-size", &|| format!("item {} grown by {} bytes and item {} by {} bytes, offsets/item_size/size/swaplen consistent", k, d, j, 4 - d));
            }
            let mut r = raw.clone();
            r.grow_item(k, d, 0x5a);
            r.items.extend(std::iter::repeat(0).take(4 - d));
            r.item_size = r.items.len() as i32;
            r.fix_sizes();
            let b = r.to_bytes();
            sink(&b, "consistent", "unaligned-item-size", &|| format!("item {} grown by {} bytes, item section padded by {} bytes, offsets/item_size/size/swaplen consistent", k, d, 4 - d));
        }
    }
    if raw.version == 4 {
        // size computed without the data sizes table (accepted by the reader as "crude" version 4)
        let mut r = raw.clone();
        r.size -= 4 * r.num_data;
        r.swaplen -= 4 * r.num_data;
        let b = r.to_bytes();
        sink(&b, "consistent", "crude-v4-size", &|| "size and swaplen do not count the data sizes table".to_string());
    }
    {
        // an item type without items, keeping type ids ascending
        let mut r = raw.clone();
        let pos = rng.usize_below(r.types.len() + 1);
        let lo = if pos == 0 { -1 } else { r.types[pos - 1][0] };
        let hi = if pos == r.types.len() { 0x10000 } else { r.types[pos][0] };
        if hi - lo >= 2 {
            let start = if pos == r.types.len() { r.num_items } else { r.types[pos][1] };
            r.types.insert(pos, [lo + 1, start, 0]);
            r.fix_counts();
            r.fix_sizes();
            let b = r.to_bytes();
            sink(&b, "consistent", "empty-type", &|| format!("item type {} with num=0 inserted at table position {}", lo + 1, pos));
        }
    }
    if spec.types.len() >= 2 {
        // doc/datafile.md only asks for unique type ids, not for ascending order
        let mut s2 = spec.clone();
        s2.types.reverse();
        let mut r = RawFile::from_spec(&s2, raw.version, false, &mut |_, d| compress(z, d));
        let b = r.to_bytes();
        sink(&b, "consistent", "descending-type-ids", &|| "item types written in descending type_id order (unique ids, items consecutive)".to_string());
        // the same type id twice
        r = raw.clone();
        r.types[1][0] = r.types[0][0];
        let b = r.to_bytes();
        sink(&b, "consistent", "duplicate-type-id", &|| "second table entry repeats the first type_id".to_string());
    }
    if o.huge {
        for which in 0..5 {
            if !keep(rng, o) {
                continue;
            }
            let mut r = raw.clone();
            let big = 1i32 << *rng.pick(&[16, 20, 24, 26, 27]);
            let what = match which {
                0 => {
                    r.num_item_types = big;
                    "num_item_types"
                }
                1 => {
                    r.num_items = big;
                    "num_items"
                }
                2 => {
                    r.num_data = big;
                    "num_data"
                }
                3 => {
                    r.item_size = big.wrapping_mul(4);
                    "item_size"
                }
                _ => {
                    r.data_size = big.wrapping_mul(4);
                    "data_size"
                }
            };
            r.fix_sizes();
            let b = r.to_bytes();
            sink(&b, "consistent", "huge-declared-count", &|| format!("{} declared as 2^k-ish ({}), size/swaplen consistent with the declaration", what, big));
        }
    }
}

// ---------------------------------------------------------------- phase: raw reader, in memory

fn sig_class(class: &str, sub: &str) -> String {
    if sub.is_empty() {
        class.to_string()
    } else {
        format!("{}:{}", class, sub)
    }
}

/// Runs one in-memory file; reports a panic; returns the outcome.
fn run_mem(ctx: &mut Ctx, bytes: &[u8], class: &str, sub: &str, desc: &dyn Fn() -> String, read_data: bool, fail: Fail) -> Option<Result<Got, raw::Error>> {
    let stage = Cell::new("Reader::new");
    match catch(|| mem_open_traverse(bytes, read_data, fail, &stage)) {
        Ok(x) => Some(x),
        Err(p) => {
            ctx.count("panics", 1);
            ctx.panic_violation(stage.get(), &sig_class(class, sub), &p, json!({"recipe": desc(), "file_hex": hex_cap(bytes), "driver": "raw::Reader over in-memory callbacks"}));
            None
        }
    }
}

fn note_outcome_mem(ctx: &mut Ctx, class: &str, sub: &str, out: &Option<Result<Got, raw::Error>>) {
    match out {
        None => {}
        Some(Ok(got)) => {
            if class != "wellformed" {
                ctx.count("accepted_corrupted", 1);
                ctx.count(&format!("accepted.{}", sig_class(class, sub)), 1);
            }
            for d in &got.data {
                match d {
                    Ok(_) => ctx.count("read_data_ok", 1),
                    Err(e) => {
                        ctx.count("read_data_err", 1);
                        ctx.seen("errors", &format!("read_data:{}", e));
                    }
                }
            }
        }
        Some(Err(e)) => {
            ctx.count("rejected", 1);
            ctx.seen("errors", raw_err_name(e));
        }
    }
}

fn mem_case(ctx: &mut Ctx, rng: &mut Rng) {
    let miri = ctx.tier == Tier::Miri;
    let zlib = zlib_ok(ctx);
    ctx.arm("raw::Reader", 120.0);
    let spec = gen_spec(rng, !miri);
    let big = spec.data.iter().any(|d| d.len() > 4096);
    let o = Opts {
        zlib,
        // bases with 65-140 KB blocks cost ~100x per file: one variant in 16
        sample: if miri { 23 } else if big { 16 } else { 1 },
        trunc_all_below: if ctx.tier == Tier::Thorough { 4096 } else { 1200 },
        trunc_samples: if miri { 4 } else { 200 },
        huge: !ctx.is_sanitizer_tier() && rng.chance(1, 6),
    };
    let reversed = rng.chance(1, 12);
    let mut hash = 0u64;
    let mut nfiles = 0u64;
    for version in [3, 4] {
        let z = gen_zmode(rng, zlib);
        let raw = RawFile::from_spec(&spec, version, reversed, &mut |_, d| compress(z, d));
        // version 3 data is a plain copy; version 4 needs zlib to read back
        let read_data = version == 3 || zlib;
        let spec_ref = &spec;
        let mut honest: Vec<u8> = Vec::new();
        let mut honest_calls = (0u64, 0u64);
        let mut sink = |bytes: &[u8], class: &'static str, sub: &'static str, desc: &dyn Fn() -> String| {
            nfiles += 1;
            ctx.count(if version == 3 { "files_mem_v3" } else { "files_mem_v4" }, 1);
            match class {
                "field" => {
                    ctx.count("corruptions_field", 1);
                    ctx.count(&format!("corrupt.{}", sub), 1);
                }
                "truncate" => ctx.count("truncations", 1),
                "zblock" => {
                    ctx.count("corruptions_zblock", 1);
                    ctx.count(&format!("zblock.{}", sub), 1);
                }
                "consistent" => {
                    ctx.count("corruptions_consistent", 1);
                    ctx.count(&format!("consistent.{}", sub), 1);
                }
                _ => {}
            }
            let out = run_mem(ctx, bytes, class, sub, desc, read_data, Fail::default());
            note_outcome_mem(ctx, class, sub, &out);
            if class == "wellformed" {
                honest = bytes.to_vec();
                ctx.count(if version == 3 { "wellformed_v3" } else { "wellformed_v4" }, 1);
                if reversed {
                    ctx.count("wellformed_reversed_magic", 1);
                }
                let case_data = json!({"recipe": desc(), "version": version, "zmode": format!("{:?}", z), "file_hex": hex_cap(bytes)});
                match &out {
                    Some(Ok(got)) => {
                        honest_calls = (got.new_calls, got.data_calls);
                        compare_content(ctx, spec_ref, version, got, "raw::Reader", &case_data);
                    }
                    Some(Err(e)) => ctx.violation("value-differs", "raw::Reader", &format!("v{}|wellformed-rejected|{}", version, raw_err_name(e)), json!({"error": format!("{:?}", e)}), case_data),
                    None => {}
                }
            } else if sub == "trailing-garbage" || sub == "crude-v4-size" {
                // same content expected? The document is silent; only counted.
                if let Some(Ok(got)) = &out {
                    let same = got.items.len() == spec_ref.num_items() && got.data.iter().zip(&spec_ref.data).all(|(g, w)| g.as_ref().ok() == Some(w));
                    ctx.count(if same { "benign_variant_same_content" } else { "benign_variant_other_content" }, 1);
                }
            }
        };
        for_variants(&raw, &spec, z, rng, &o, &mut sink);
        drop(sink);
        hash ^= fnv1a(&honest).rotate_left(version as u32);

        // callback failures at every call position
        if !honest.is_empty() {
            let step = if miri { 5 } else { 1 };
            let mut k = 1;
            while k <= honest_calls.0 {
                let out = run_mem(ctx, &honest, "cb-error", "new", &|| format!("CallbackNew call {} fails", k), read_data, Fail { new_at: Some(k), data_at: None });
                ctx.count("callback_failures", 1);
                match &out {
                    Some(Err(raw::Error::Callback)) => ctx.seen("errors", "Callback"),
                    Some(Ok(_)) => ctx.violation("value-differs", "raw::Reader::new", "callback-error-swallowed", json!({"call": k}), json!({"file_hex": hex_cap(&honest), "fail_call": k})),
                    Some(Err(e)) => ctx.seen("errors", &format!("cb-error-as:{}", raw_err_name(e))),
                    None => {}
                }
                k += step;
                nfiles += 1;
            }
            if read_data {
                let mut k = 1;
                while k <= honest_calls.1 {
                    let out = run_mem(ctx, &honest, "cb-error", "read_data", &|| format!("CallbackReadData call {} fails", k), true, Fail { new_at: None, data_at: Some(k) });
                    ctx.count("callback_failures", 1);
                    if let Some(Ok(got)) = &out {
                        if got.data.iter().any(|d| d.as_ref().err().map(|e| e == "Callback").unwrap_or(false)) {
                            ctx.seen("errors", "read_data:Callback");
                        }
                    }
                    k += step;
                    nfiles += 1;
                }
            }
        }
    }
    ctx.disarm();
    let nontrivial = spec.num_items() + spec.data.len() >= 1;
    ctx.case(if nontrivial { Some(hash) } else { None });
    ctx.cases_bulk(nfiles, nfiles);
    ctx.max("max_files_per_base", nfiles);
    if big {
        ctx.count("bases_with_multi_block_data", 1);
    }
    if ctx.want_sample() && spec.num_items() >= 2 && !spec.data.is_empty() && !big {
        let raw = RawFile::from_spec(&spec, 4, reversed, &mut |_, d| wr::zlib_stored(d, 65535));
        ctx.sample(json!({"phase": "raw-mem", "types": spec.types.iter().map(|t| json!({"type_id": t.type_id, "items": t.items.iter().map(|(id, d)| json!({"id": id, "data": d})).collect::<Vec<_>>()})).collect::<Vec<_>>(),
            "data": spec.data.iter().map(|d| hex_short(d)).collect::<Vec<_>>(), "v4_file_with_stored_blocks": hex_short(&raw.to_bytes()), "derived_files": nfiles}));
    }
}

// ---------------------------------------------------------------- phase: PRNG bytes / PRNG structure behind a valid magic

fn small_or_edgy(rng: &mut Rng, nominal: i32) -> i32 {
    match rng.below(12) {
        0 => rng.range(-2, 12) as i32,
        1 => rng.edgy_i32(),
        2 => nominal.wrapping_add(rng.range(-4, 4) as i32),
        _ => nominal,
    }
}

fn gen_random_file(rng: &mut Rng) -> (Vec<u8>, &'static str) {
    let magic: &[u8; 4] = if rng.chance(1, 8) { b"ATAD" } else { b"DATA" };
    match rng.below(8) {
        0 => {
            let mut b = magic.to_vec();
            b.extend(rbytes(rng, 0, 120));
            (b, "magic+bytes")
        }
        1 => {
            let mut b = magic.to_vec();
            b.extend(&(*rng.pick(&[3i32, 4])).to_le_bytes());
            b.extend(rbytes(rng, 0, 200));
            (b, "magic+version+bytes")
        }
        2 => {
            // header of small PRNG numbers, rest PRNG bytes
            let mut b = magic.to_vec();
            b.extend(&(*rng.pick(&[3i32, 4])).to_le_bytes());
            for _ in 0..7 {
                b.extend(&(rng.range(0, 64) as i32).to_le_bytes());
            }
            b.extend(rbytes(rng, 0, 300));
            (b, "magic+small-header+bytes")
        }
        _ => {
            // structure-aware: every table entry is the consistent value most of
            // the time and a small/boundary number otherwise; size and swaplen
            // agree with the declared counts.
            let version = *rng.pick(&[3i32, 4]);
            let nt = rng.range(0, 4) as usize;
            let mut types = Vec::new();
            let mut item_offsets = Vec::new();
            let mut items: Vec<u8> = Vec::new();
            let mut start = 0i32;
            let mut tid = rng.range(0, 3) as i32;
            for _ in 0..nt {
                let n = rng.range(0, 3) as i32;
                types.push([small_or_edgy(rng, tid), small_or_edgy(rng, start), small_or_edgy(rng, n)]);
                for id in 0..n {
                    item_offsets.push(small_or_edgy(rng, items.len() as i32));
                    let size: i32 = if rng.chance(1, 5) { rng.range(0, 21) as i32 } else { 4 * rng.range(0, 4) as i32 };
                    let head = if rng.chance(1, 10) { rng.edgy_i32() } else { (tid << 16) | id };
                    items.extend(&head.to_le_bytes());
                    items.extend(&small_or_edgy(rng, size).to_le_bytes());
                    items.extend(rng.bytes(size as usize));
                }
                start += n;
                tid += rng.range(1, 3) as i32;
            }
            if rng.chance(7, 8) {
                while items.len() % 4 != 0 {
                    items.push(0);
                }
            }
            let nd = rng.range(0, 3) as usize;
            let mut data_offsets = Vec::new();
            let mut sizes = Vec::new();
            let mut data = Vec::new();
            for _ in 0..nd {
                data_offsets.push(small_or_edgy(rng, data.len() as i32));
                let plain = rbytes(rng, 0, 12);
                sizes.push(small_or_edgy(rng, plain.len() as i32));
                if version == 4 && rng.chance(3, 4) {
                    data.extend(wr::zlib_stored(&plain, 65535));
                } else {
                    data.extend(plain);
                }
            }
            let mut r = RawFile {
                magic: *magic,
                version,
                size: 0,
                swaplen: 0,
                num_item_types: 0,
                num_items: 0,
                num_data: 0,
                item_size: 0,
                data_size: 0,
                types,
                item_offsets,
                data_offsets,
                data_sizes: if version == 4 { Some(sizes) } else { None },
                items,
                data,
            };
            r.fix_counts();
            r.fix_sizes();
            if rng.chance(1, 10) {
                r.size = small_or_edgy(rng, r.size);
            }
            let mut b = r.to_bytes();
            if rng.chance(1, 10) {
                let n = rng.usize_below(b.len() + 1);
                b.truncate(n);
            }
            (b, "structured")
        }
    }
}

fn random_case(ctx: &mut Ctx, idx: u64, rng: &mut Rng, distinct: &mut std::collections::HashSet<u64>) {
    // reading the process CPU clock is a system call: re-arm once per 1024 files
    if idx % 1024 == 0 || ctx.replay.is_some() {
        ctx.arm("raw::Reader", 300.0);
    }
    let (bytes, kind) = gen_random_file(rng);
    // version 4 blocks need zlib; decide by peeking at the version field ourselves
    let is_v4 = bytes.len() >= 8 && bytes[4..8] == 4i32.to_le_bytes();
    let read_data = !is_v4 || zlib_ok(ctx);
    let out = run_mem(ctx, &bytes, "random", kind, &|| format!("PRNG file, generator {}", kind), read_data, Fail::default());
    ctx.count("files_random", 1);
    ctx.count(&format!("random.{}", kind), 1);
    note_outcome_mem(ctx, "random", kind, &out);
    let accepted = matches!(out, Some(Ok(_)));
    // distinct files are counted in a local set (reported in bulk) to keep the shard output small
    ctx.case(None);
    if bytes.len() >= 36 {
        distinct.insert(fnv1a(&bytes));
    }
    if accepted && ctx.want_sample() && ctx.samples.iter().all(|s| s["phase"] != "random") {
        ctx.sample(json!({"phase": "random", "generator": kind, "accepted": true, "file": hex_short(&bytes)}));
    }
}

// ---------------------------------------------------------------- files on disk

struct Tmp {
    dir: PathBuf,
}

impl Tmp {
    fn new(ctx: &Ctx) -> Tmp {
        let base = if Path::new("/dev/shm").is_dir() { PathBuf::from("/dev/shm") } else { std::env::temp_dir() };
        let dir = base.join(format!("verif-c16-{}-{}", std::process::id(), ctx.shard));
        std::fs::create_dir_all(&dir).expect("create scratch directory");
        Tmp { dir }
    }
    fn write(&self, name: &str, bytes: &[u8]) -> PathBuf {
        let p = self.dir.join(name);
        std::fs::write(&p, bytes).expect("write scratch file");
        p
    }
    fn cleanup(&self) {
        let _ = std::fs::remove_dir_all(&self.dir);
    }
}

impl Drop for Tmp {
    fn drop(&mut self) {
        self.cleanup();
    }
}

struct Chosen {
    bytes: Vec<u8>,
    class: &'static str,
    sub: &'static str,
    desc: String,
}

/// Picks one variant: first the class by weight, then uniformly inside it.
fn choose_variant(raw: &RawFile, spec: &Spec, z: Zmode, rng: &mut Rng, o: &Opts, weights: &[(&'static str, u32)]) -> Chosen {
    // The enumeration draws from the PRNG itself; both passes start from the
    // same PRNG state so that they enumerate the same variants.
    let pick_class = rng.u64();
    let pick_index = rng.u64();
    let base = rng.clone();
    let mut counts: Vec<usize> = vec![0; weights.len()];
    let mut rng1 = base.clone();
    for_variants(raw, spec, z, &mut rng1, o, &mut |_, class, _, _| {
        if let Some(i) = weights.iter().position(|w| w.0 == class) {
            counts[i] += 1;
        }
    });
    let w: Vec<u32> = weights.iter().zip(&counts).map(|(w, &c)| if c > 0 { w.1 } else { 0 }).collect();
    let ci = Rng::new(pick_class).weighted(&w);
    let target = (pick_index % counts[ci] as u64) as usize;
    let want = weights[ci].0;
    let mut seen = 0usize;
    let mut chosen: Option<Chosen> = None;
    let mut rng2 = base;
    for_variants(raw, spec, z, &mut rng2, o, &mut |bytes, class, sub, desc| {
        if class == want {
            if seen == target {
                chosen = Some(Chosen { bytes: bytes.to_vec(), class, sub, desc: desc() });
            }
            seen += 1;
        }
    });
    *rng = rng2;
    chosen.expect("variant enumeration is deterministic")
}

const DISK_OPTS: Opts = Opts { zlib: true, sample: 1, trunc_all_below: 0, trunc_samples: 12, huge: true };

fn disk_df_case(ctx: &mut Ctx, rng: &mut Rng, tmp: &Tmp) {
    ctx.arm("datafile::Reader", 120.0);
    let spec = gen_spec(rng, true);
    let version = *rng.pick(&[3, 4]);
    let z = gen_zmode(rng, true);
    let reversed = rng.chance(1, 12);
    let raw = RawFile::from_spec(&spec, version, reversed, &mut |_, d| compress(z, d));
    let ch = choose_variant(&raw, &spec, z, rng, &DISK_OPTS, &[("wellformed", 30), ("field", 35), ("truncate", 10), ("zblock", 12), ("consistent", 13)]);
    let wellformed = ch.class == "wellformed";
    // Reader::new(File) on a file positioned behind a prefix: the datafile is
    // embedded in a larger file.
    let prefix: usize = if wellformed && rng.chance(1, 6) { rng.range(1, 64) as usize } else { 0 };
    let mode = if prefix == 0 && rng.chance(1, 5) { OpenMode::NewAtZero } else { OpenMode::Open };
    let stage = Cell::new("Reader::new");
    let res = if prefix > 0 {
        let mut content = rng.bytes(prefix);
        content.extend_from_slice(&ch.bytes);
        let path = tmp.write("f.dat", &content);
        let r = catch(|| embedded_open_traverse(&path, prefix as u64, &stage));
        let _ = std::fs::remove_file(&path);
        r
    } else {
        let path = tmp.write("f.dat", &ch.bytes);
        let r = catch(|| file_open_traverse(&path, mode, &stage));
        let _ = std::fs::remove_file(&path);
        r
    };
    ctx.disarm();
    ctx.count("files_disk", 1);
    ctx.count(if version == 3 { "files_disk_v3" } else { "files_disk_v4" }, 1);
    ctx.count(&format!("disk.{}", ch.class), 1);
    if prefix > 0 {
        ctx.count("disk_embedded_at_offset", 1);
    }
    ctx.seen("disk_drivers", if prefix > 0 { "Reader::new(file at offset)" } else if mode == OpenMode::Open { "Reader::open" } else { "Reader::new(file)" });
    let case_data = json!({"recipe": ch.desc, "version": version, "zmode": format!("{:?}", z), "file_hex": hex_cap(&ch.bytes), "prefix_bytes": prefix, "driver": "datafile::Reader over a file"});
    let site = if prefix > 0 { "datafile::Reader::new(file at offset)" } else { "datafile::Reader" };
    match res {
        Err(p) => {
            ctx.count("panics", 1);
            ctx.panic_violation(stage.get(), &sig_class(ch.class, ch.sub), &p, case_data);
        }
        Ok(Ok(got)) => {
            for d in &got.data {
                match d {
                    Ok(_) => ctx.count("read_data_ok", 1),
                    Err(e) => {
                        ctx.count("read_data_err", 1);
                        ctx.seen("errors", &format!("read_data:{}", e));
                    }
                }
            }
            if wellformed {
                ctx.count(if version == 3 { "wellformed_disk_v3" } else { "wellformed_disk_v4" }, 1);
                compare_content(ctx, &spec, version, &got, site, &case_data);
            } else {
                ctx.count("accepted_corrupted", 1);
                ctx.count(&format!("accepted.{}", sig_class(ch.class, ch.sub)), 1);
                if let Some(why) = got.inconsistent {
                    ctx.violation("value-differs", site, "accessor-consistency", json!({"why": why}), case_data);
                }
            }
        }
        Ok(Err(e)) => {
            ctx.count("rejected", 1);
            ctx.seen("errors", &file_err_name(&e));
            if wellformed {
                ctx.violation("value-differs", site, &format!("v{}|wellformed-rejected|{}", version, file_err_name(&e)), json!({"error": format!("{:?}", e)}), case_data);
            }
        }
    }
    ctx.case(Some(fnv1a(&ch.bytes) ^ fnv1a(ch.class.as_bytes())));
}

fn embedded_open_traverse(path: &Path, prefix: u64, stage: &Cell<&'static str>) -> Result<Got, df::Error> {
    use std::io::Seek;
    stage.set("Reader::new");
    let mut file = std::fs::File::open(path).map_err(df::Error::Io)?;
    file.seek(std::io::SeekFrom::Start(prefix)).map_err(df::Error::Io)?;
    let _ = std::fs::remove_file(path);
    let mut reader = df::Reader::new(file)?;
    let mut got = Got::default();
    stage.set("datafile::Reader accessors");
    got.version = Some(reader.version());
    traverse_items!(reader, got);
    stage.set("datafile::Reader::read_data");
    got.data_read = true;
    for i in 0..reader.num_data() {
        got.data.push(reader.read_data(i).map_err(|e| file_err_name(&e)));
    }
    Ok(got)
}

// ---------------------------------------------------------------- maps: generator (doc/map.md)

fn gen_name(rng: &mut Rng, max: usize) -> Vec<u8> {
    let n = rng.range(0, max as i64) as usize;
    (0..n)
        .map(|_| match rng.below(12) {
            0 => rng.range(0x80, 0xff) as u8,
            1 => b' ',
            _ => *rng.pick(b"abcdefghijklmnopqrstuvwxyzABCXYZ0123456789_-"),
        })
        .collect()
}

fn opt_index(rng: &mut Rng, n: usize) -> Option<usize> {
    if n > 0 && rng.bool() {
        Some(rng.usize_below(n))
    } else {
        None
    }
}

fn gen_tile_layer(rng: &mut Rng, kind: wm::TileKind, w: i32, h: i32, n_env: usize, n_img: usize) -> wm::Layer {
    let cells = (w * h) as usize;
    let physics_ext = kind.ext_slot().is_some();
    let (tiles, special) = if physics_ext {
        (vec![0u8; cells * 4], Some(rng.bytes(cells * kind.tile_size())))
    } else {
        (rng.bytes(cells * 4), None)
    };
    let mut color = [0u8; 4];
    rng.fill(&mut color);
    wm::Layer {
        garbage: rng.edgy_i32(),
        detail: rng.chance(1, 4),
        kind: wm::LayerKind::Tilemap {
            version: *rng.pick(&[2, 3, 3]),
            width: w,
            height: h,
            kind,
            color,
            color_env: opt_index(rng, n_env),
            color_env_offset: rng.edgy_i32(),
            image: opt_index(rng, n_img),
            name: gen_name(rng, 11),
            tiles,
            special,
            ddnet_ext: physics_ext || rng.bool(),
        },
    }
}

fn gen_other_layer(rng: &mut Rng, n_env: usize, n_img: usize, n_snd: usize) -> wm::Layer {
    match rng.below(4) {
        0 | 1 => {
            let w = rng.range(1, 5) as i32;
            let h = rng.range(1, 5) as i32;
            gen_tile_layer(rng, wm::TileKind::Tiles, w, h, n_env, n_img)
        }
        2 => {
            let n = rng.range(0, 3) as i32;
            wm::Layer {
                garbage: rng.edgy_i32(),
                detail: rng.chance(1, 4),
                kind: wm::LayerKind::Quads { version: *rng.pick(&[1, 2, 2]), num_quads: n, quads: rng.bytes(n as usize * 152), image: opt_index(rng, n_img), name: gen_name(rng, 11) },
            }
        }
        _ => {
            let deprecated = rng.chance(1, 3);
            let n = rng.range(0, 3) as i32;
            wm::Layer {
                garbage: rng.edgy_i32(),
                detail: rng.chance(1, 4),
                kind: wm::LayerKind::Sounds {
                    deprecated,
                    // the document does not say; DDNet writes 2 for the current and 1 for the deprecated layer
                    version: if deprecated { *rng.pick(&[1, 2]) } else { 2 },
                    num_sources: n,
                    sources: rng.bytes(n as usize * if deprecated { 36 } else { 52 }),
                    sound: opt_index(rng, n_snd),
                    name: gen_name(rng, 11),
                },
            }
        }
    }
}

/// Where the physics layers of the game group are (layer position inside the group).
#[derive(Clone, Debug, Default)]
struct GameExpect {
    group: usize,
    width: i32,
    height: i32,
    /// game, tele, speedup, front, switch, tune
    layers: [Option<usize>; 6],
}

const PHYSICS: [wm::TileKind; 6] = [wm::TileKind::Game, wm::TileKind::Tele, wm::TileKind::Speedup, wm::TileKind::Front, wm::TileKind::Switch, wm::TileKind::Tune];

fn gen_map(rng: &mut Rng) -> (wm::MapModel, GameExpect) {
    let mut m = wm::MapModel { version: 1, ..Default::default() };
    for _ in 0..rng.range(0, 3) {
        m.filler_data.push(rbytes(rng, 0, 9));
    }
    if rng.chance(7, 8) {
        let opt_s = |rng: &mut Rng, max: usize| if rng.bool() { Some(gen_name(rng, max)) } else { None };
        m.info = Some(wm::Info {
            author: opt_s(rng, 31),
            version: opt_s(rng, 15),
            credits: opt_s(rng, 127),
            license: opt_s(rng, 31),
            settings: match rng.below(3) {
                0 => None,
                1 => Some(None),
                _ => Some(Some((0..rng.range(1, 3)).map(|_| gen_name(rng, 20)).collect())),
            },
        });
    }
    for _ in 0..rng.range(0, 3) {
        let version = *rng.pick(&[1, 1, 2]);
        let variant = if version == 2 { rng.range(0, 1) as i32 } else { 1 };
        let w = rng.range(1, 4) as i32;
        let h = rng.range(1, 4) as i32;
        let external = rng.chance(1, 3);
        let bpp = if variant == 0 { 3 } else { 4 };
        m.images.push(wm::Image { version, width: w, height: h, name: gen_name(rng, 20), data: if external { None } else { Some(rng.bytes((w * h * bpp) as usize)) }, variant });
    }
    let n_env = rng.range(0, 3) as usize;
    let all_v3 = rng.chance(1, 4);
    for _ in 0..n_env {
        let np = rng.range(0, 3) as i32;
        let start = m.envpoints.len() as i32;
        for _ in 0..np {
            let mut p: Vec<i32> = vec![rng.range(0, 100_000) as i32, rng.range(0, 5) as i32];
            for _ in 0..4 {
                p.push(rng.edgy_i32());
            }
            if all_v3 {
                for _ in 0..16 {
                    p.push(rng.edgy_i32());
                }
            }
            m.envpoints.push(p);
        }
        m.envelopes.push(wm::Envelope { version: if all_v3 { 3 } else { *rng.pick(&[1, 2, 2]) }, channels: *rng.pick(&[1, 3, 4]), start_point: start, num_points: np, name: gen_name(rng, 31), synchronized: rng.bool() });
    }
    for _ in 0..rng.range(0, 2) {
        m.sounds.push(wm::Sound { name: gen_name(rng, 20), data: rbytes(rng, 0, 40) });
    }
    let (ne, ni, ns) = (m.envelopes.len(), m.images.len(), m.sounds.len());
    let n_groups = rng.range(1, 3) as usize;
    let game_group = rng.usize_below(n_groups);
    let mut ge = GameExpect { group: game_group, width: rng.range(1, 6) as i32, height: rng.range(1, 6) as i32, layers: [None; 6] };
    for gi in 0..n_groups {
        let mut layers = Vec::new();
        if gi == game_group {
            let mut kinds: Vec<usize> = vec![0];
            for k in 1..6 {
                if rng.chance(1, 2) {
                    kinds.push(k);
                }
            }
            rng.shuffle(&mut kinds);
            for k in kinds {
                if rng.chance(1, 3) {
                    layers.push(gen_other_layer(rng, ne, ni, ns));
                }
                ge.layers[k] = Some(layers.len());
                layers.push(gen_tile_layer(rng, PHYSICS[k], ge.width, ge.height, ne, ni));
            }
        } else {
            for _ in 0..rng.range(0, 3) {
                layers.push(gen_other_layer(rng, ne, ni, ns));
            }
        }
        let game = gi == game_group && rng.chance(2, 3);
        m.groups.push(wm::Group {
            version: *rng.pick(&[1, 2, 3, 3]),
            x_offset: if game { 0 } else { rng.edgy_i32() },
            y_offset: if game { 0 } else { rng.edgy_i32() },
            x_parallax: if game { 100 } else { rng.range(0, 200) as i32 },
            y_parallax: if game { 100 } else { rng.range(0, 200) as i32 },
            clipping: !game && rng.bool(),
            clip: if game { [0; 4] } else { [rng.edgy_i32(), rng.edgy_i32(), rng.edgy_i32(), rng.edgy_i32()] },
            name: if game { b"Game".to_vec() } else { gen_name(rng, 11) },
            layers,
        });
    }
    (m, ge)
}

/// Df-valid but map-level questionable variations of the model.
fn mutate_model(rng: &mut Rng, m: &mut wm::MapModel, ge: &GameExpect) -> &'static str {
    let g = ge.group;
    match rng.below(6) {
        0 => {
            let pos = ge.layers[0].unwrap();
            m.groups[g].layers.remove(pos);
            "no-game-layer"
        }
        1 => {
            let k = rng.usize_below(6);
            if let Some(pos) = ge.layers[k] {
                let l = m.groups[g].layers[pos].clone();
                m.groups[g].layers.push(l);
                "duplicate-physics-layer"
            } else {
                m.version = rng.edgy_i32();
                "map-version"
            }
        }
        2 => {
            let pos = ge.layers[0].unwrap();
            if let wm::LayerKind::Tilemap { width, .. } = &mut m.groups[g].layers[pos].kind {
                *width += 1;
            }
            "game-layer-width-vs-data"
        }
        3 => {
            let l = gen_tile_layer(rng, *rng.clone().pick(&PHYSICS), ge.width, ge.height, m.envelopes.len(), m.images.len());
            let other = wm::Group { version: 3, x_offset: 0, y_offset: 0, x_parallax: 100, y_parallax: 100, clipping: false, clip: [0; 4], name: b"Game2".to_vec(), layers: vec![l] };
            m.groups.push(other);
            "physics-layer-in-second-group"
        }
        4 => {
            let pos = ge.layers[0].unwrap();
            if let wm::LayerKind::Tilemap { version, .. } = &mut m.groups[g].layers[pos].kind {
                *version = *rng.pick(&[0, 1, 4, 5, -1, i32::MAX]);
            }
            "tilemap-version"
        }
        _ => {
            m.groups.clear();
            "no-groups"
        }
    }
}

// ---------------------------------------------------------------- maps: tolerant walk over every accessor

#[derive(Default)]
struct Trace {
    accessors: BTreeSet<&'static str>,
    errors: BTreeSet<String>,
    ok_calls: u64,
    err_calls: u64,
}

impl Trace {
    fn rec<T, E>(&mut self, name: &'static str, r: Result<T, E>, err_name: impl Fn(&E) -> String) -> Option<T> {
        self.accessors.insert(name);
        match r {
            Ok(v) => {
                self.ok_calls += 1;
                Some(v)
            }
            Err(e) => {
                self.err_calls += 1;
                if self.errors.len() < 200 {
                    self.errors.insert(err_name(&e));
                }
                None
            }
        }
    }
}

fn me(e: &mf::Error) -> String {
    format!("Map.{}", debug_variant_name(e))
}

fn walk_layer(r: &mut tmap::Reader, l: &mr::Layer, tr: &mut Trace) {
    match l.t {
        mr::LayerType::Tilemap(tm) => {
            tr.accessors.insert("LayerTilemapType::to_normal/tiles");
            let _ = tm.type_.to_normal();
            let _ = tm.type_.tiles();
            match tm.type_ {
                mr::LayerTilemapType::Normal(n) => {
                    tr.rec("layer_tiles", r.layer_tiles(tm.tiles(n.data)), map_err_name);
                    if let Some(im) = n.image {
                        tr.rec("image", r.image(im), me);
                    }
                }
                mr::LayerTilemapType::Game(d) => {
                    tr.rec("layer_tiles", r.layer_tiles(tm.tiles(d)), map_err_name);
                }
                mr::LayerTilemapType::RaceTeleport(d, z) => {
                    tr.rec("tele_layer_tiles", r.tele_layer_tiles(tm.tiles(d)), map_err_name);
                    tr.rec("layer_tiles", r.layer_tiles(tm.tiles(z)), map_err_name);
                }
                mr::LayerTilemapType::RaceSpeedup(d, z) => {
                    tr.rec("speedup_layer_tiles", r.speedup_layer_tiles(tm.tiles(d)), map_err_name);
                    tr.rec("layer_tiles", r.layer_tiles(tm.tiles(z)), map_err_name);
                }
                mr::LayerTilemapType::DdraceFront(d, z) => {
                    tr.rec("layer_tiles", r.layer_tiles(tm.tiles(d)), map_err_name);
                    tr.rec("layer_tiles", r.layer_tiles(tm.tiles(z)), map_err_name);
                }
                mr::LayerTilemapType::DdraceSwitch(d, z) => {
                    tr.rec("switch_layer_tiles", r.switch_layer_tiles(tm.tiles(d)), map_err_name);
                    tr.rec("layer_tiles", r.layer_tiles(tm.tiles(z)), map_err_name);
                }
                mr::LayerTilemapType::DdraceTune(d, z) => {
                    tr.rec("tune_layer_tiles", r.tune_layer_tiles(tm.tiles(d)), map_err_name);
                    tr.rec("layer_tiles", r.layer_tiles(tm.tiles(z)), map_err_name);
                }
            }
        }
        mr::LayerType::Quads(q) => {
            tr.rec("read_data(quads)", r.reader.read_data(q.data), file_err_name);
            if let Some(im) = q.image {
                tr.rec("image", r.image(im), me);
            }
        }
        mr::LayerType::DdraceSounds(s) => {
            tr.rec("read_data(sound sources)", r.reader.read_data(s.data), file_err_name);
            if let Some(snd) = s.sound {
                let item = r.reader.item(snd);
                tr.rec("MapItemDdraceSoundV1::from_slice", mf::MapItemDdraceSoundV1::from_slice(item.data), |_| "TooShort".to_string());
            }
        }
    }
}

fn walk_map(r: &mut tmap::Reader, tr: &mut Trace, stage: &Cell<&'static str>) {
    stage.set("map::Reader::version");
    tr.rec("version", r.version(), me);
    tr.rec("check_version", r.check_version(), me);
    stage.set("map::Reader::info");
    if let Some(info) = tr.rec("info", r.info(), me) {
        for idx in [info.author, info.version, info.credits, info.license].iter().flatten() {
            tr.rec("string", r.string(*idx), map_err_name);
        }
        if let Some(s) = info.settings {
            if let Some(st) = tr.rec("settings", r.settings(s), map_err_name) {
                tr.accessors.insert("Settings::iter");
                let _ = st.iter().map(|s| s.len()).sum::<usize>();
            }
        }
    }
    if let Some(item) = r.reader.find_item(mf::MAP_ITEMTYPE_INFO, 0) {
        tr.rec("MapItemInfoV1ExtraRace::from_slice", mf::MapItemInfoV1ExtraRace::from_slice(item.data), |_| "TooShort".to_string());
    }
    stage.set("map::Reader::group/layer");
    for i in r.group_indices() {
        if let Some(g) = tr.rec("group", r.group(i), me) {
            for k in g.layer_indices.clone() {
                if let Some(l) = tr.rec("layer", r.layer(k), me) {
                    walk_layer(r, &l, tr);
                }
            }
        }
    }
    stage.set("map::Reader::image");
    for i in r.reader.item_type_indices(mf::MAP_ITEMTYPE_IMAGE) {
        if let Some(im) = tr.rec("image", r.image(i), me) {
            tr.rec("image_name", r.image_name(im.name), map_err_name);
            if let Some(d) = im.data {
                tr.rec("image_data", r.image_data(d), map_err_name);
            }
        }
        tr.rec("MapItemImageV2::from_slice", mf::MapItemImageV2::from_slice(r.reader.item(i).data), |_| "TooShort".to_string());
    }
    stage.set("map::Reader::game_layers");
    if let Some(gl) = tr.rec("game_layers", r.game_layers(), me) {
        tr.rec("layer_tiles(game)", r.layer_tiles(gl.game()), map_err_name);
        if let Some(t) = gl.teleport() {
            tr.rec("tele_layer_tiles(game_layers)", r.tele_layer_tiles(t), map_err_name);
        }
        if let Some(t) = gl.speedup() {
            tr.rec("speedup_layer_tiles(game_layers)", r.speedup_layer_tiles(t), map_err_name);
        }
        if let Some(t) = gl.front() {
            tr.rec("layer_tiles(front)", r.layer_tiles(t), map_err_name);
        }
        if let Some(t) = gl.switch() {
            tr.rec("switch_layer_tiles(game_layers)", r.switch_layer_tiles(t), map_err_name);
        }
        if let Some(t) = gl.tune() {
            tr.rec("tune_layer_tiles(game_layers)", r.tune_layer_tiles(t), map_err_name);
        }
    }
    // item kinds that have a format description but no Reader method
    stage.set("map::format envelopes/envpoints/sounds");
    let mut env_version = 1;
    for item in r.reader.item_type_items(mf::MAP_ITEMTYPE_ENVELOPE) {
        if let Some(&v) = item.data.first() {
            env_version = v;
        }
        if let Some(Some(e)) = tr.rec("MapItemEnvelopeV1::from_slice", mf::MapItemEnvelopeV1::from_slice(item.data), |_| "TooShort".to_string()) {
            let _ = e.name_get();
            let _ = format!("{:?}", e);
        }
        tr.rec("MapItemEnvelopeV1Legacy::from_slice", mf::MapItemEnvelopeV1Legacy::from_slice(item.data), |_| "TooShort".to_string());
        tr.rec("MapItemEnvelopeV2::from_slice", mf::MapItemEnvelopeV2::from_slice(item.data), |_| "TooShort".to_string());
    }
    for item in r.reader.item_type_items(mf::MAP_ITEMTYPE_ENVPOINTS) {
        tr.accessors.insert("MapItemEnvpointV1/V2::from_slice");
        for v in [env_version, 1, 3] {
            if let Some(p) = mf::MapItemEnvpointV1::from_slice(item.data, v) {
                let _ = p.iter().map(|x| format!("{:?}", x).len()).sum::<usize>();
            }
            if let Some(p) = mf::MapItemEnvpointV2::from_slice(item.data, v) {
                let _ = p.iter().map(|x| format!("{:?}", x).len()).sum::<usize>();
            }
        }
    }
    for item in r.reader.item_type_items(mf::MAP_ITEMTYPE_DDRACE_SOUND) {
        tr.rec("MapItemDdraceSoundV1::from_slice", mf::MapItemDdraceSoundV1::from_slice(item.data), |_| "TooShort".to_string());
    }
    // every data item through every byte-level accessor
    stage.set("map::Reader data accessors");
    for i in 0..r.reader.num_data() {
        tr.rec("string", r.string(i), map_err_name);
        tr.rec("settings", r.settings(i), map_err_name);
        tr.rec("image_name", r.image_name(i), map_err_name);
        tr.rec("layer_tiles_raw", r.layer_tiles_raw(i), map_err_name);
        tr.rec("tele_layer_tiles_raw", r.tele_layer_tiles_raw(i), map_err_name);
        tr.rec("speedup_layer_tiles_raw", r.speedup_layer_tiles_raw(i), map_err_name);
        tr.rec("switch_layer_tiles_raw", r.switch_layer_tiles_raw(i), map_err_name);
        tr.rec("tune_layer_tiles_raw", r.tune_layer_tiles_raw(i), map_err_name);
    }
}

// ---------------------------------------------------------------- maps: the values written come back through the typed accessors

fn pad<const N: usize>(name: &[u8]) -> [u8; N] {
    let mut a = [0u8; N];
    a[..name.len()].copy_from_slice(name);
    a
}

type Mismatch = (&'static str, String);

macro_rules! chk {
    ($cond:expr, $aspect:expr, $($fmt:tt)*) => {
        if !($cond) {
            return Err(($aspect, format!($($fmt)*)));
        }
    };
}

fn e2<E: Debug>(aspect: &'static str) -> impl Fn(E) -> Mismatch {
    move |e| (aspect, format!("unexpected error {:?}", e))
}

fn check_tiles(r: &mut tmap::Reader, idx: mr::LayerTilesIndex, w: i32, h: i32, want: &[u8]) -> Result<(), Mismatch> {
    let a = r.layer_tiles(idx).map_err(e2("tiles"))?;
    let got: Vec<u8> = a.iter().flat_map(|t| [t.index, t.flags, t.skip, t.reserved]).collect();
    chk!(a.dim() == (h as usize, w as usize) && got == want, "tiles", "layer_tiles: dim {:?} data {}", a.dim(), hex_short(&got));
    Ok(())
}

fn check_special(r: &mut tmap::Reader, kind: wm::TileKind, idx: mr::LayerTilesIndex, w: i32, h: i32, want: &[u8]) -> Result<(), Mismatch> {
    let dim_want = (h as usize, w as usize);
    let (dim, got): ((usize, usize), Vec<u8>) = match kind {
        wm::TileKind::Tele => {
            let a = r.tele_layer_tiles(idx).map_err(e2("tiles"))?;
            (a.dim(), a.iter().flat_map(|t| [t.number, t.index]).collect())
        }
        wm::TileKind::Speedup => {
            let a = r.speedup_layer_tiles(idx).map_err(e2("tiles"))?;
            (a.dim(), a.iter().flat_map(|t| { let an = t.angle.get().to_le_bytes(); [t.force, t.max_speed, t.index, t.padding, an[0], an[1]] }).collect())
        }
        wm::TileKind::Switch => {
            let a = r.switch_layer_tiles(idx).map_err(e2("tiles"))?;
            (a.dim(), a.iter().flat_map(|t| [t.number, t.index, t.flags, t.delay]).collect())
        }
        wm::TileKind::Tune => {
            let a = r.tune_layer_tiles(idx).map_err(e2("tiles"))?;
            (a.dim(), a.iter().flat_map(|t| [t.number, t.index]).collect())
        }
        _ => {
            let a = r.layer_tiles(idx).map_err(e2("tiles"))?;
            (a.dim(), a.iter().flat_map(|t| [t.index, t.flags, t.skip, t.reserved]).collect())
        }
    };
    chk!(dim == dim_want && got == want, "tiles", "{:?} tiles: dim {:?} data {}", kind, dim, hex_short(&got));
    Ok(())
}

fn check_map(r: &mut tmap::Reader, m: &wm::MapModel, b: &wm::Built, ge: &GameExpect) -> Result<u64, Mismatch> {
    let mut n = 0u64; // values compared
    let start_of = |t: u16| b.spec.type_range(t).map(|x| x.0).unwrap_or(0);
    let (img0, env0, grp0, lay0, snd0) = (start_of(wm::T_IMAGE), start_of(wm::T_ENVELOPE), start_of(wm::T_GROUP), start_of(wm::T_LAYER), start_of(wm::T_SOUND));

    chk!(r.version() == Ok(m.version), "version", "{:?}", r.version());
    chk!(r.check_version().is_ok(), "version", "check_version {:?}", r.check_version());
    n += 1;

    match &m.info {
        None => chk!(matches!(r.info(), Err(mf::Error::MissingInfo)), "info", "info() without an info item"),
        Some(inf) => {
            let i = r.info().map_err(e2("info"))?;
            chk!((i.author, i.version, i.credits, i.license, i.settings) == (b.idx.author, b.idx.version, b.idx.credits, b.idx.license, b.idx.settings), "info",
                "indices {:?}", (i.author, i.version, i.credits, i.license, i.settings));
            for (idx, want) in [(i.author, &inf.author), (i.version, &inf.version), (i.credits, &inf.credits), (i.license, &inf.license)] {
                if let (Some(idx), Some(want)) = (idx, want) {
                    let s = r.string(idx).map_err(e2("info"))?;
                    chk!(&s == want, "info", "string({}) = {:?}", idx, s);
                    n += 1;
                }
            }
            if let (Some(idx), Some(Some(list))) = (i.settings, &inf.settings) {
                let st = r.settings(idx).map_err(e2("settings"))?;
                let got: Vec<Vec<u8>> = st.iter().map(|s| s.to_vec()).collect();
                chk!(&got == list, "settings", "settings({}) = {:?}", idx, got);
                n += 1;
            }
        }
    }

    for (k, im) in m.images.iter().enumerate() {
        let g = r.image(img0 + k).map_err(e2("image"))?;
        chk!((g.width, g.height, g.name, g.data) == (im.width as u32, im.height as u32, b.idx.image_name[k], b.idx.image_data[k]), "image", "image {}: {:?}", k, (g.width, g.height, g.name, g.data));
        let name = r.image_name(g.name).map_err(e2("image"))?;
        chk!(name == im.name, "image", "image_name {:?}", name);
        if let (Some(d), Some(want)) = (g.data, &im.data) {
            let got = r.image_data(d).map_err(e2("image"))?;
            chk!(&got == want, "image", "image_data {}", hex_short(&got));
        }
        let item = r.reader.item(img0 + k);
        let v2 = mf::MapItemImageV2::from_slice(item.data).map_err(|_| ("image", "ImageV2 too short".to_string()))?;
        chk!(v2.map(|v| v.format) == if im.version >= 2 { Some(im.variant) } else { None }, "image", "ImageV2 {:?}", v2);
        n += 4;
    }

    for (k, e) in m.envelopes.iter().enumerate() {
        let item = r.reader.item(env0 + k);
        let v1 = mf::MapItemEnvelopeV1::from_slice(item.data).map_err(|_| ("envelope", "too short".to_string()))?.ok_or(("envelope", "version".to_string()))?;
        chk!((v1.channels, v1.start_points, v1.num_points) == (e.channels, e.start_point, e.num_points) && v1.name_get() == pad::<32>(&e.name), "envelope", "{:?}", v1);
        let v2 = mf::MapItemEnvelopeV2::from_slice(item.data).map_err(|_| ("envelope", "v2 too short".to_string()))?;
        chk!(v2.map(|v| v.synchronized) == if e.version >= 2 { Some(e.synchronized as i32) } else { None }, "envelope", "v2 {:?}", v2);
        n += 2;
    }
    if !m.envelopes.is_empty() {
        let item = r.reader.find_item(wm::T_ENVPOINTS, 0).ok_or(("envelope", "envpoints item missing".to_string()))?;
        let all_v3 = m.envelopes.iter().all(|e| e.version == 3);
        let ver = m.envelopes[0].version;
        let (l1, l2) = (mf::MapItemEnvpointV1::from_slice(item.data, ver).map(|p| p.len()), mf::MapItemEnvpointV2::from_slice(item.data, ver).map(|p| p.len()));
        if all_v3 {
            chk!(l2 == Some(m.envpoints.len()) && l1.is_none(), "envelope", "envpoints v3: {:?} {:?}", l1, l2);
        } else {
            chk!(l1 == Some(m.envpoints.len()) && l2.is_none(), "envelope", "envpoints: {:?} {:?}", l1, l2);
            if let (Some(p), Some(w)) = (mf::MapItemEnvpointV1::from_slice(item.data, ver).and_then(|p| p.first()), m.envpoints.first()) {
                let s = format!("{:?}", p);
                chk!(s.starts_with(&format!("time={} curve_type={} ", w[0], w[1])), "envelope", "point {}", s);
            }
        }
        n += 1;
    }

    for (k, s) in m.sounds.iter().enumerate() {
        let item = r.reader.item(snd0 + k);
        let v1 = mf::MapItemDdraceSoundV1::from_slice(item.data).map_err(|_| ("sound", "too short".to_string()))?.ok_or(("sound", "version".to_string()))?;
        chk!((v1.external, v1.name as usize, v1.data as usize, v1.data_size as usize) == (0, b.idx.sound_name[k], b.idx.sound_data[k], s.data.len()), "sound", "{:?}", v1);
        let name = r.string(b.idx.sound_name[k]).map_err(e2("sound"))?;
        chk!(name == s.name, "sound", "name {:?}", name);
        n += 2;
    }

    chk!(r.group_indices() == (grp0..grp0 + m.groups.len()) || m.groups.is_empty() && r.group_indices().len() == 0, "group", "group_indices {:?}", r.group_indices());
    let mut lay = lay0;
    for (gi, g) in m.groups.iter().enumerate() {
        let got = r.group(grp0 + gi).map_err(e2("group"))?;
        let clip = got.clipping.map(|c| [c.x, c.y, c.width, c.height]);
        let want_clip = if g.version >= 2 && g.clipping { Some(g.clip) } else { None };
        let want_name = if g.version >= 3 { pad::<12>(&g.name) } else { [0; 12] };
        chk!((got.offset_x, got.offset_y, got.parallax_x, got.parallax_y) == (g.x_offset, g.y_offset, g.x_parallax, g.y_parallax) && got.layer_indices == (lay..lay + g.layers.len()) && clip == want_clip && got.name == want_name,
            "group", "group {}: offsets {:?} layers {:?} clip {:?} name {:?}", gi, (got.offset_x, got.offset_y, got.parallax_x, got.parallax_y), got.layer_indices, clip, got.name);
        n += 1;
        for (li, l) in g.layers.iter().enumerate() {
            let gl = r.layer(lay + li).map_err(e2("layer"))?;
            chk!(gl.detail == l.detail, "layer", "detail");
            let main = b.idx.layer_data[gi][li];
            match (&l.kind, gl.t) {
                (wm::LayerKind::Tilemap { version, width, height, kind, color, color_env, color_env_offset, image, name, tiles, special, .. }, mr::LayerType::Tilemap(tm)) => {
                    let want_name = if *version >= 3 { pad::<12>(name) } else { [0; 12] };
                    chk!((tm.width, tm.height) == (*width as u32, *height as u32) && tm.name == want_name, "layer", "tilemap {}x{} name {:?}", tm.width, tm.height, tm.name);
                    let sp = b.idx.layer_special[gi][li];
                    let ok = match (kind, tm.type_) {
                        (wm::TileKind::Tiles, mr::LayerTilemapType::Normal(nm)) => {
                            [nm.color.red, nm.color.green, nm.color.blue, nm.color.alpha] == *color
                                && nm.color_env_and_offset == color_env.map(|e| (env0 + e, *color_env_offset))
                                && nm.image == image.map(|i| img0 + i)
                                && nm.data == main
                                && tm.type_.tiles() == Some(main)
                                && tm.type_.to_normal().is_some()
                        }
                        (wm::TileKind::Game, mr::LayerTilemapType::Game(d)) => d == main && tm.type_.tiles() == Some(main),
                        (wm::TileKind::Tele, mr::LayerTilemapType::RaceTeleport(d, z)) => Some(d) == sp && z == main,
                        (wm::TileKind::Speedup, mr::LayerTilemapType::RaceSpeedup(d, z)) => Some(d) == sp && z == main,
                        (wm::TileKind::Front, mr::LayerTilemapType::DdraceFront(d, z)) => Some(d) == sp && z == main && tm.type_.tiles() == sp,
                        (wm::TileKind::Switch, mr::LayerTilemapType::DdraceSwitch(d, z)) => Some(d) == sp && z == main,
                        (wm::TileKind::Tune, mr::LayerTilemapType::DdraceTune(d, z)) => Some(d) == sp && z == main,
                        _ => false,
                    };
                    chk!(ok, "layer", "tilemap kind/fields of layer {} ({:?})", lay + li, kind);
                    check_tiles(r, tm.tiles(main), *width, *height, tiles)?;
                    if let (Some(sp), Some(want)) = (sp, special) {
                        check_special(r, *kind, tm.tiles(sp), *width, *height, want)?;
                    }
                    n += 3;
                }
                (wm::LayerKind::Quads { version, num_quads, quads, image, name }, mr::LayerType::Quads(q)) => {
                    let want_name = if *version >= 2 { pad::<12>(name) } else { [0; 12] };
                    chk!((q.num_quads, q.data, q.image, q.name) == (*num_quads as usize, main, image.map(|i| img0 + i), want_name), "layer", "quads {:?}", (q.num_quads, q.data, q.image, q.name));
                    let d = r.reader.read_data(q.data).map_err(e2("layer"))?;
                    chk!(&d == quads, "layer", "quads data");
                    n += 2;
                }
                (wm::LayerKind::Sounds { deprecated, num_sources, sources, sound, name, .. }, mr::LayerType::DdraceSounds(s)) => {
                    chk!((s.num_sources, s.data, s.sound, s.legacy, s.name) == (*num_sources as usize, main, sound.map(|i| snd0 + i), *deprecated, pad::<12>(name)), "layer", "sounds {:?}", (s.num_sources, s.data, s.sound, s.legacy, s.name));
                    let d = r.reader.read_data(s.data).map_err(e2("layer"))?;
                    chk!(&d == sources, "layer", "sound sources data");
                    n += 2;
                }
                _ => return Err(("layer", format!("layer {} has another type than written", lay + li))),
            }
        }
        lay += g.layers.len();
    }

    let gl = r.game_layers().map_err(e2("game_layers"))?;
    let g = ge.group;
    let idx_of = |k: usize| ge.layers[k].map(|pos| if k == 0 { b.idx.layer_data[g][pos] } else { b.idx.layer_special[g][pos].unwrap() });
    chk!((gl.width, gl.height) == (ge.width as u32, ge.height as u32) && Some(gl.game_raw) == idx_of(0) && gl.teleport_raw == idx_of(1) && gl.speedup_raw == idx_of(2) && gl.front_raw == idx_of(3) && gl.switch_raw == idx_of(4) && gl.tune_raw == idx_of(5)
        && (gl.group.offset_x, gl.group.parallax_x) == (m.groups[g].x_offset, m.groups[g].x_parallax),
        "game_layers", "{}x{} game {} tele {:?} speedup {:?} front {:?} switch {:?} tune {:?}", gl.width, gl.height, gl.game_raw, gl.teleport_raw, gl.speedup_raw, gl.front_raw, gl.switch_raw, gl.tune_raw);
    let physics_data = |k: usize| -> &[u8] {
        match &m.groups[g].layers[ge.layers[k].unwrap()].kind {
            wm::LayerKind::Tilemap { tiles, special, .. } => if k == 0 { tiles } else { special.as_ref().unwrap() },
            _ => unreachable!(),
        }
    };
    check_tiles(r, gl.game(), ge.width, ge.height, physics_data(0))?;
    let accessors = [None, gl.teleport(), gl.speedup(), gl.front(), gl.switch(), gl.tune()];
    for (k, a) in accessors.into_iter().enumerate() {
        if let Some(a) = a {
            check_special(r, PHYSICS[k], a, ge.width, ge.height, physics_data(k))?;
            n += 1;
        }
    }
    n += 2;
    Ok(n)
}

// ---------------------------------------------------------------- phase: maps on disk

fn spec_json(spec: &Spec) -> serde_json::Value {
    json!({
        "types": spec.types.iter().map(|t| json!({"type_id": t.type_id, "items": t.items.iter().map(|(id, d)| json!({"id": id, "data": d})).collect::<Vec<_>>()})).collect::<Vec<_>>(),
        "data": spec.data.iter().map(|d| hex_short(d)).collect::<Vec<_>>(),
    })
}

/// Changes one thing in the item/data sets of a well-formed map.
fn mutate_spec(rng: &mut Rng, spec: &mut Spec) -> (&'static str, String) {
    let nd = spec.data.len() as i32;
    let ni = spec.num_items() as i32;
    let nonempty: Vec<usize> = (0..spec.types.len()).filter(|&t| !spec.types[t].items.is_empty()).collect();
    match rng.below(10) {
        0..=4 => {
            // one integer of one item
            let t = *rng.pick(&nonempty);
            let i = rng.usize_below(spec.types[t].items.len());
            let type_id = spec.types[t].type_id;
            let d = &mut spec.types[t].items[i].1;
            if d.is_empty() {
                d.push(rng.edgy_i32());
                return ("map-item-length", format!("type {} item {}: one integer appended to an empty item", type_id, i));
            }
            let w = rng.usize_below(d.len());
            let old = d[w];
            let new = match rng.below(16) {
                0 => 0,
                1 => 1,
                2 => -1,
                3 => -2,
                4 => i32::MIN,
                5 => i32::MAX,
                6 => old.wrapping_add(1),
                7 => old.wrapping_sub(1),
                8 => nd,
                9 => nd - 1,
                10 => ni,
                11 => 255,
                12 => 256,
                13 => rng.range(0, 64) as i32,
                14 => 1 << rng.below(31),
                _ => rng.edgy_i32(),
            };
            d[w] = new;
            ("map-item-word", format!("type {} item {} word {}: {} -> {}", type_id, i, w, old, new))
        }
        5 | 6 => {
            let t = *rng.pick(&nonempty);
            let i = rng.usize_below(spec.types[t].items.len());
            let type_id = spec.types[t].type_id;
            let d = &mut spec.types[t].items[i].1;
            let old = d.len();
            if rng.chance(3, 4) && old > 0 {
                d.truncate(rng.usize_below(old));
            } else {
                for _ in 0..rng.range(1, 5) {
                    d.push(rng.edgy_i32());
                }
            }
            ("map-item-length", format!("type {} item {}: {} -> {} integers", type_id, i, old, d.len()))
        }
        7 | 8 => {
            if spec.data.is_empty() {
                spec.data.push(Vec::new());
                return ("map-data", "one empty data item added".to_string());
            }
            let k = rng.usize_below(spec.data.len());
            let d = &mut spec.data[k];
            let old = d.len();
            let what = match rng.below(6) {
                0 => {
                    d.pop();
                    "last byte removed"
                }
                1 => {
                    d.clear();
                    "emptied"
                }
                2 => {
                    d.push(rng.u8());
                    "one byte appended"
                }
                3 => {
                    for b in d.iter_mut() {
                        *b = 0;
                    }
                    "zeroed"
                }
                4 => {
                    *d = rbytes(rng, 0, 40);
                    "replaced by PRNG bytes"
                }
                _ => {
                    if !d.is_empty() {
                        let p = rng.usize_below(d.len());
                        d[p] = *rng.pick(&[0u8, b'/', b'\\', 0xff]);
                    }
                    "one byte set to NUL, slash, backslash or ff"
                }
            };
            ("map-data", format!("data item {} ({} bytes): {}", k, old, what))
        }
        _ => {
            // structure: drop a whole item type, duplicate an item, add an unknown / uuid-index type
            match rng.below(3) {
                0 => {
                    let t = rng.usize_below(spec.types.len());
                    let id = spec.types[t].type_id;
                    spec.types.remove(t);
                    ("map-structure", format!("item type {} removed", id))
                }
                1 => {
                    let t = *rng.pick(&nonempty);
                    let it = spec.types[t].items[0].clone();
                    let new_id = spec.types[t].items.len() as u16;
                    spec.types[t].items.push((new_id, it.1));
                    ("map-structure", format!("first item of type {} duplicated", spec.types[t].type_id))
                }
                _ => {
                    spec.types.push(TypeSpec { type_id: 0xffff, items: vec![(8, vec![rng.i32(), rng.i32(), rng.i32()])] });
                    ("map-structure", "uuid index item type added".to_string())
                }
            }
        }
    }
}

fn disk_map_case(ctx: &mut Ctx, rng: &mut Rng, tmp: &Tmp) {
    ctx.arm("map::Reader", 120.0);
    let (mut model, ge) = gen_map(rng);
    let version = *rng.pick(&[3, 4]);
    let z = gen_zmode(rng, true);
    let kind = rng.weighted(&[35, 15, 40, 10]);
    let mut class: &'static str = "wellformed";
    let mut sub: &'static str = "";
    let mut desc = "well-formed map".to_string();
    if kind == 1 {
        class = "map-semantic";
        sub = mutate_model(rng, &mut model, &ge);
        desc = format!("model variation: {}", sub);
    }
    let built = wm::build(&model);
    let mut spec = built.spec.clone();
    if kind == 2 {
        let (c, d) = mutate_spec(rng, &mut spec);
        class = c;
        desc = d;
    }
    let raw = RawFile::from_spec(&spec, version, false, &mut |_, d| compress(z, d));
    let bytes = if kind == 3 {
        let ch = choose_variant(&raw, &spec, z, rng, &DISK_OPTS, &[("field", 60), ("truncate", 10), ("zblock", 15), ("consistent", 15)]);
        class = ch.class;
        sub = ch.sub;
        desc = ch.desc;
        ch.bytes
    } else {
        raw.to_bytes()
    };
    let wellformed = kind == 0;
    let path = tmp.write("m.map", &bytes);
    let stage = Cell::new("Reader::new");
    let mut trace = Trace::default();
    let res = catch(|| -> Result<Option<Result<u64, Mismatch>>, tmap::Error> {
        let opened = tmap::Reader::open(&path);
        let _ = std::fs::remove_file(&path);
        let mut r = opened?;
        walk_map(&mut r, &mut trace, &stage);
        if wellformed {
            stage.set("map::Reader (typed comparison)");
            Ok(Some(check_map(&mut r, &model, &built, &ge)))
        } else {
            Ok(None)
        }
    });
    let _ = std::fs::remove_file(&path);
    ctx.disarm();
    ctx.count("maps_disk", 1);
    ctx.count(if version == 3 { "maps_disk_v3" } else { "maps_disk_v4" }, 1);
    ctx.count(&format!("map.{}", class), 1);
    ctx.count("map_accessor_calls_ok", trace.ok_calls);
    ctx.count("map_accessor_calls_err", trace.err_calls);
    for a in &trace.accessors {
        ctx.seen("map_accessors", a);
    }
    for e in &trace.errors {
        ctx.seen("map_errors", e);
    }
    let case_data = json!({"recipe": desc, "class": class, "version": version, "zmode": format!("{:?}", z), "file_hex": hex_cap(&bytes), "items_and_data": spec_json(&spec), "driver": "map::Reader over a file"});
    match res {
        Err(p) => {
            ctx.count("panics", 1);
            ctx.panic_violation(stage.get(), &sig_class(class, sub), &p, case_data);
        }
        Ok(Err(e)) => {
            ctx.count("maps_rejected_at_open", 1);
            ctx.seen("errors", &map_err_name(&e));
            if wellformed {
                ctx.violation("value-differs", "map::Reader::open", &format!("v{}|wellformed-rejected|{}", version, map_err_name(&e)), json!({"error": format!("{:?}", e)}), case_data);
            }
        }
        Ok(Ok(None)) => {
            ctx.count("maps_corrupted_walked", 1);
        }
        Ok(Ok(Some(Ok(n)))) => {
            ctx.count("maps_wellformed_compared", 1);
            ctx.count("map_values_compared", n);
            for g in &model.groups {
                for l in &g.layers {
                    match &l.kind {
                        wm::LayerKind::Tilemap { kind, .. } => ctx.seen("map_layer_kinds_compared", &format!("{:?}", kind)),
                        wm::LayerKind::Quads { .. } => ctx.seen("map_layer_kinds_compared", "Quads"),
                        wm::LayerKind::Sounds { deprecated, .. } => ctx.seen("map_layer_kinds_compared", if *deprecated { "SoundsDeprecated" } else { "Sounds" }),
                    }
                }
            }
        }
        Ok(Ok(Some(Err((aspect, detail))))) => {
            ctx.violation("value-differs", "map::Reader", &format!("v{}|{}", version, aspect), json!({"aspect": aspect, "detail": detail}), case_data);
        }
    }
    ctx.case(Some(fnv1a(&bytes)));
    if wellformed && ctx.want_sample() && ctx.samples.iter().all(|s| s["phase"] != "disk-map") {
        ctx.sample(json!({"phase": "disk-map", "version": version, "items_and_data": spec_json(&spec), "file": hex_short(&bytes)}));
    }
}

// ---------------------------------------------------------------- main

/// Declared sizes of up to 2 GiB make the readers allocate (and barely touch)
/// huge buffers; with transparent huge pages every such touch zeroes 2 MiB.
/// Purely a speed matter.
#[cfg(all(target_os = "linux", not(miri)))]
fn disable_thp() {
    const PR_SET_THP_DISABLE: libc::c_int = 41;
    unsafe {
        libc::prctl(PR_SET_THP_DISABLE, 1 as libc::c_ulong, 0 as libc::c_ulong, 0 as libc::c_ulong, 0 as libc::c_ulong);
        // serve buffers of up to 32 MiB from the heap instead of mmap/munmap pairs
        libc::mallopt(libc::M_MMAP_THRESHOLD, 32 << 20);
        libc::mallopt(libc::M_TRIM_THRESHOLD, 256 << 20);
    }
}
#[cfg(not(all(target_os = "linux", not(miri))))]
fn disable_thp() {}

fn main() {
    disable_thp();
    let mut ctx = Ctx::from_args("C16");
    ctx.rule = "raw-mem: a PRNG item/data set (0-5 item types, 0-4 items each, 0-20 ints, 0-4 data items of 0-300 bytes, sometimes 65-140 KB) is written by the independent writer as version 3 and version 4 (zlib via own stored-block writer or zlib compress); from each honest file every derived file is produced and opened through raw::Reader with in-memory callbacks: every 32-bit field of header, type table, offset tables, data sizes, item headers set to each of {0,1,-1,v+1,v-1,v+2,v+3,v+4,v-4,MIN,MIN+1,MAX,just-past-the-end and its neighbours,-v,0xffff,0x10000}, truncation at every length (files up to 1200 bytes; sampled above), trailing garbage, per data block: bad adler/header, every stream truncation, garbage, flipped bits, content larger/smaller than declared, a 256 KiB bomb; consistent multi-field deviations (item sizes not divisible by four with matching offsets, crude v4 size, empty type, descending/duplicate type ids, huge declared counts); a failing callback at every call position. random: PRNG bytes behind a valid magic and PRNG tables with consistent size fields. disk-df / disk-map: one PRNG-chosen variant per case written to /dev/shm and opened with datafile::Reader / map::Reader, every accessor called. Non-trivial = at least one item or data item; distinct = hash of the honest files / of the file bytes.".into();
    ctx.assumptions = vec![
        "harness/src/refmodel/datafile.rs is a faithful reading of doc/datafile.md and doc/map.md".into(),
        "item types are written in ascending type_id order (the document only asks for unique ids; descending order is exercised separately and only counted)".into(),
        "index arguments passed to accessors come from the reader itself (num_*, *_indices, layer_indices); out-of-range indices are an undocumented precondition and are not passed".into(),
        "sounds layer version: 2 (1 or 2 for the deprecated layer); tile layer versions 2 and 3 only (version 4 run-length tiles are only walked, not compared)".into(),
        "out-of-bounds reads are left to the Miri/ASan tiers; this monitor checks panics, CPU budget and returned values".into(),
    ];
    let miri = ctx.tier == Tier::Miri || cfg!(miri);

    let n_mem = ctx.volume(600, 18_000, 3, 12);
    ctx.run_cases("raw-mem", n_mem, |ctx, _idx, rng| mem_case(ctx, rng));
    let n_rand = ctx.volume(150_000, 4_500_000, 100, 3_000);
    let mut distinct_random = std::collections::HashSet::new();
    ctx.run_cases("random", n_rand, |ctx, idx, rng| random_case(ctx, idx, rng, &mut distinct_random));
    ctx.disarm();
    ctx.cases_bulk(0, distinct_random.len() as u64);
    ctx.count("random_distinct_files", distinct_random.len() as u64);

    if !miri {
        let tmp = Tmp::new(&ctx);
        let n_df = ctx.volume(300, 9_000, 0, 100);
        ctx.run_cases("disk-df", n_df, |ctx, _idx, rng| disk_df_case(ctx, rng, &tmp));
        let n_map = ctx.volume(300, 9_000, 0, 100);
        ctx.run_cases("disk-map", n_map, |ctx, _idx, rng| disk_map_case(ctx, rng, &tmp));
        tmp.cleanup();
        if tmp.dir.exists() {
            ctx.note("scratch directory could not be removed");
        }
    } else {
        ctx.note("miri tier: raw reader over in-memory callbacks only; no zlib (version 4 data blocks are not read), no file system");
    }
    ctx.finish();
}
