//! C03 — datagrams without the agreed token are inert.
//!
//! At random points of chaos histories where an endpoint has fixed a token, the
//! endpoint is forked (verif_clone hook); foreign datagrams are fed to the fork:
//! no event, no Callback::send, no secure_random draw, identical state
//! fingerprint; for a sample, the fork and an untouched twin are then driven by
//! the same continuation and must produce identical traces.

use libtw2_net::connection as c6;
use libtw2_net::connection7 as c7;
use libtw2_net::protocol as p6;
use libtw2_net::protocol7 as p7;
use serde_json::json;
use verif_harness::catch;
use verif_harness::hex_short;
use verif_harness::netsim::*;
use verif_harness::Ctx;
use verif_harness::Rng;
use verif_harness::Tier;

#[derive(Clone, Debug)]
struct Foreign {
    kind: String,
    bytes: Vec<u8>,
}

fn wrong_tokens(rng: &mut Rng, agreed: [u8; 4], peer: Option<[u8; 4]>) -> Vec<([u8; 4], &'static str)> {
    let mut v = Vec::new();
    let mut t = agreed;
    t[rng.usize_below(4)] ^= 1 << rng.below(8);
    v.push((t, "bitflip"));
    v.push(([agreed[1], agreed[2], agreed[3], agreed[0]], "rotated"));
    if let Some(p) = peer {
        v.push((p, "peer-token"));
    }
    // related tokens: comparisons that fold, truncate or reorder bytes accept some of these
    let mut t = agreed;
    let x = 1 + rng.below(255) as u8;
    let i = rng.usize_below(4);
    let j = (i + 1 + rng.usize_below(3)) % 4;
    t[i] ^= x;
    t[j] ^= x;
    v.push((t, "pair-xor"));
    v.push(([agreed[3], agreed[2], agreed[1], agreed[0]], "reversed"));
    let mut t = agreed;
    let k = if rng.bool() { 0 } else { 3 };
    t[k] = t[k].wrapping_add(1 + rng.below(255) as u8);
    v.push((t, "one-end-byte"));
    let d = 1 + rng.below(255) as u8;
    v.push(([agreed[0].wrapping_add(d), agreed[1].wrapping_add(d), agreed[2].wrapping_add(d), agreed[3].wrapping_add(d)], "all-bytes-shifted"));
    v.push(([0xff; 4], "ffffffff"));
    v.push(([0; 4], "00000000"));
    let mut r = [0u8; 4];
    rng.fill(&mut r);
    v.push((r, "random"));
    v.retain(|(t, _)| *t != agreed);
    v
}

fn write6(p: p6::Packet) -> Option<Vec<u8>> {
    let mut buf = [0u8; 2048];
    catch(|| p.write(&mut buf[..]).ok().map(|b| b.to_vec())).ok().flatten()
}
fn write7(p: p7::Packet) -> Option<Vec<u8>> {
    let mut buf = [0u8; 2048];
    catch(|| p.write(&mut buf[..]).ok().map(|b| b.to_vec())).ok().flatten()
}

/// A plausible chunk payload: the next vital sequence numbers the endpoint
/// expects, so that a missing token check would have a visible effect.
fn plausible_chunks(v7: bool, ack_expected: u16, rng: &mut Rng) -> (u8, Vec<u8>) {
    let mut data: Vec<u8> = Vec::new();
    let n = rng.range(1, 3) as u8;
    for i in 0..n {
        let seq = (ack_expected + 1 + i as u16) % 1024;
        let body: Vec<u8> = match rng.below(3) {
            0 => vec![0; rng.usize_below(40)],
            1 => {
                let l = rng.usize_below(40);
                rng.bytes(l)
            }
            _ => b"hello world hello world".to_vec(),
        };
        let mut tmp = [0u8; 256];
        let vital = if rng.chance(3, 4) { Some((seq, rng.bool())) } else { None };
        let w = if v7 { p7::write_chunk(&body, vital, &mut tmp[..]).map(|b| b.to_vec()) } else { p6::write_chunk(&body, vital, &mut tmp[..]).map(|b| b.to_vec()) };
        data.extend(w.unwrap());
    }
    (n, data)
}

fn foreign6(rng: &mut Rng, agreed: [u8; 4], conn_ack: u16, unacked_seq: u16, real: &[Vec<u8>]) -> Vec<Foreign> {
    let mut out = Vec::new();
    let reason: Vec<u8> = b"bye".to_vec();
    for (tok, tname) in wrong_tokens(rng, agreed, None) {
        for with_token in [true, false] {
            let token = if with_token { Some(p6::Token(tok)) } else { None };
            let tn = if with_token { tname } else { "tokenless" };
            let ack = if rng.bool() { unacked_seq } else { rng.below(1024) as u16 };
            for ctrl in 0..5 {
                let c = match ctrl {
                    0 => p6::ControlPacket::KeepAlive,
                    1 => p6::ControlPacket::Connect,
                    2 => p6::ControlPacket::ConnectAccept,
                    3 => p6::ControlPacket::Accept,
                    _ => p6::ControlPacket::Close(&reason),
                };
                if let Some(b) = write6(p6::Packet::Connected(p6::ConnectedPacket { ack, token, type_: p6::ConnectedPacketType::Control(c) })) {
                    out.push(Foreign { kind: format!("control{}|{}", ctrl, tn), bytes: b });
                }
            }
            // close messages with the shortest possible payloads (shorter than a token)
            for r in [&b""[..], &b"a"[..], &b"ab"[..]] {
                if let Some(b) = write6(p6::Packet::Connected(p6::ConnectedPacket { ack, token, type_: p6::ConnectedPacketType::Control(p6::ControlPacket::Close(r)) })) {
                    out.push(Foreign { kind: format!("control4-short|{}", tn), bytes: b });
                }
            }
            let (n, data) = plausible_chunks(false, conn_ack, rng);
            if let Some(b) = write6(p6::Packet::Connected(p6::ConnectedPacket { ack, token, type_: p6::ConnectedPacketType::Chunks(rng.bool(), n, &data) })) {
                out.push(Foreign { kind: format!("chunks|{}", tn), bytes: b });
            }
            if !with_token {
                break;
            }
        }
    }
    // real datagrams of this very history, re-written with another token (the
    // writer compresses again where it pays off)
    for r in real.iter().take(4) {
        let mut buf = [0u8; 2048];
        let mut w = verif_harness::Warnings::new();
        if let Ok(p6::Packet::Connected(c)) = p6::Packet::read(&mut w, r, Some(true), &mut buf[..]) {
            let toks = wrong_tokens(rng, agreed, None);
            let (tok, tname) = toks[rng.usize_below(toks.len())];
            let mut c2 = c;
            c2.token = Some(p6::Token(tok));
            if let Some(b) = write6(p6::Packet::Connected(c2)) {
                out.push(Foreign { kind: format!("real-retokened|{}", tname), bytes: b.clone() });
                if b.len() > 4 {
                    let cut = rng.range(3, b.len() as i64 - 1) as usize;
                    out.push(Foreign { kind: "real-retokened-truncated".into(), bytes: b[..cut].to_vec() });
                }
            }
        }
        // raw: patch the last four bytes (uncompressed form only makes this a token change)
        if r.len() >= 7 {
            let mut b = r.clone();
            let l = b.len();
            b[l - 1] ^= 0x10;
            out.push(Foreign { kind: "real-last-byte-flipped".into(), bytes: b });
            let cut = rng.range(3, r.len() as i64 - 1) as usize;
            out.push(Foreign { kind: "real-truncated".into(), bytes: r[..cut].to_vec() });
        }
    }
    // bare control datagrams: header + control byte only, any ack
    for ctrl in 0..6u8 {
        let ack = if rng.bool() { unacked_seq } else { rng.below(1024) as u16 };
        out.push(Foreign { kind: "bare-control".into(), bytes: vec![0x10 | (ack >> 8) as u8, ack as u8, 0, ctrl] });
    }
    // random bytes with a connection-oriented flag pattern
    for _ in 0..3 {
        let l = rng.range(3, 60) as usize;
        let mut b = rng.bytes(l);
        b[0] &= !(2 << 4); // not connless
        b[0] &= 0xf3; // padding zero
        out.push(Foreign { kind: "random".into(), bytes: b });
    }
    out
}

fn foreign7(rng: &mut Rng, agreed: [u8; 4], peer: Option<[u8; 4]>, conn_ack: u16, unacked_seq: u16, real: &[Vec<u8>]) -> Vec<Foreign> {
    let mut out = Vec::new();
    let reason: Vec<u8> = b"bye".to_vec();
    for (tok, tname) in wrong_tokens(rng, agreed, peer) {
        let token = p7::Token(tok);
        let ack = if rng.bool() { unacked_seq } else { rng.below(1024) as u16 };
        let mut rt = [0u8; 4];
        rng.fill(&mut rt);
        if rt == [0xff; 4] {
            rt[0] = 1;
        }
        for ctrl in 0..5 {
            let c = match ctrl {
                0 => p7::ControlPacket::KeepAlive,
                1 => p7::ControlPacket::Connect(p7::Token(rt)),
                2 => p7::ControlPacket::Accept,
                3 => p7::ControlPacket::Close(&reason),
                _ => p7::ControlPacket::Token(p7::Token(rt)),
            };
            if let Some(b) = write7(p7::Packet::Connected(p7::ConnectedPacket { ack, token, type_: p7::ConnectedPacketType::Control(c) })) {
                out.push(Foreign { kind: format!("control{}|{}", ctrl, tname), bytes: b });
            }
        }
        let (n, data) = plausible_chunks(true, conn_ack, rng);
        if let Some(b) = write7(p7::Packet::Connected(p7::ConnectedPacket { ack, token, type_: p7::ConnectedPacketType::Chunks(rng.bool(), n, &data) })) {
            out.push(Foreign { kind: format!("chunks|{}", tname), bytes: b });
        }
    }
    for r in real.iter().take(4) {
        if r.len() >= 7 && (r[0] >> 2) & 8 == 0 {
            let toks = wrong_tokens(rng, agreed, peer);
            let (tok, tname) = toks[rng.usize_below(toks.len())];
            let mut b = r.clone();
            b[3..7].copy_from_slice(&tok);
            out.push(Foreign { kind: format!("real-retokened|{}", tname), bytes: b.clone() });
            if b.len() > 8 {
                let cut = rng.range(7, b.len() as i64 - 1) as usize;
                out.push(Foreign { kind: "real-retokened-truncated".into(), bytes: b[..cut].to_vec() });
            }
        }
    }
    for _ in 0..3 {
        let l = rng.range(7, 60) as usize;
        let mut b = rng.bytes(l);
        b[0] &= 0x1f; // padding zero, not connless (flag bit 3 of the 4-bit field = 0x20)
        out.push(Foreign { kind: "random".into(), bytes: b });
    }
    out
}

/// The token a datagram carries, by the harness's own reading (None = none).
fn carried_token(v7: bool, d: &[u8]) -> Option<[u8; 4]> {
    if v7 {
        if d.len() < 7 {
            return None;
        }
        return Some([d[3], d[4], d[5], d[6]]);
    }
    if d.len() < 3 {
        return None;
    }
    let flags = d[0] >> 4;
    let payload: Vec<u8> = if flags & 8 != 0 {
        match libtw2_huffman::instances::TEEWORLDS.decompress_into_vec(&d[3..]) {
            Ok(p) => p,
            Err(_) => return None,
        }
    } else {
        d[3..].to_vec()
    };
    if payload.len() < 4 {
        return None;
    }
    let l = payload.len();
    Some([payload[l - 4], payload[l - 3], payload[l - 2], payload[l - 1]])
}

#[derive(Clone, Debug)]
enum Solo {
    Tick,
    Advance(u64),
    Send(usize, bool),
    Flush,
    Feed(Vec<u8>),
}

fn solo_trace<C: Conn>(conn: &mut C, cb: &mut Cb, script: &[Solo]) -> Vec<String> {
    let mut trace = Vec::new();
    for (i, s) in script.iter().enumerate() {
        cb.calls = 0;
        let online = conn.state_name() == "Online";
        let dead = conn.state_name() == "Disconnected";
        let r = catch(|| match s {
            Solo::Tick => {
                conn.tick(cb);
                String::new()
            }
            Solo::Advance(us) => {
                cb.now_us += us;
                String::new()
            }
            Solo::Send(len, vital) => {
                if online {
                    format!("{:?}", conn.send(cb, &payload(0, *vital, i as u32, *len, 1), *vital))
                } else {
                    String::new()
                }
            }
            Solo::Flush => {
                if online {
                    conn.flush(cb);
                }
                String::new()
            }
            Solo::Feed(d) => {
                if dead {
                    String::new()
                } else {
                    let (ev, _w) = conn.feed(cb, d);
                    format!("{:?}", ev)
                }
            }
        });
        let sent = std::mem::take(&mut cb.sent);
        match r {
            Ok(x) => trace.push(format!("{}|{}|sent={:?}|tick={:?}|rand={}", i, x, sent, conn.needs_tick(), cb.randoms.len())),
            Err(p) => {
                trace.push(format!("{}|panic {}", i, p.msg_sig));
                break;
            }
        }
    }
    trace
}

struct ForkStats {
    forks: u64,
    foreign: u64,
    twins: u64,
    exceptions: u64,
}

fn experiment<C: Conn>(ctx: &mut Ctx, sim: &mut Sim<C>, rng: &mut Rng, st: &mut ForkStats) {
    let v7 = C::V7;
    let vname = sim.variant.name();
    for side in 0..2 {
        if sim.sides[side].poisoned {
            continue;
        }
        let state = sim.sides[side].conn.state_name();
        if state == "Disconnected" {
            continue;
        }
        let agreed = match sim.sides[side].conn.fixed_token() {
            Some(t) => t,
            None => continue,
        };
        if sim.sides[side].conn.unacked() > 40 {
            continue;
        }
        st.forks += 1;
        ctx.seen("fork_states", &format!("{}:{}:{}", vname, if side == 0 { "connector" } else { "acceptor" }, state));
        let (ack, seq, _) = sim.sides[side].conn.seq().unwrap_or((0, 0, false));
        let real: Vec<Vec<u8>> = sim.wire[side].iter().map(|d| d.bytes.clone()).collect();
        let peer = sim.sides[side].conn.peer_token();
        let foreign = if v7 { foreign7(rng, agreed, peer, ack, seq, &real) } else { foreign6(rng, agreed, ack, seq, &real) };
        let fp0 = sim.sides[side].conn.fingerprint();
        let tick0 = sim.sides[side].conn.needs_tick();
        for f in foreign {
            if carried_token(v7, &f.bytes) == Some(agreed) {
                ctx.count("skipped_carries_agreed_token", 1);
                continue;
            }
            if classify(v7, &f.bytes) == Kind::Connless {
                continue;
            }
            st.foreign += 1;
            ctx.count(&format!("foreign[{}]", f.kind.split('|').next().unwrap()), 1);
            let mut twin = sim.sides[side].conn.clone_hook();
            let mut cb = sim.sides[side].cb.clone();
            cb.sent.clear();
            cb.calls = 0;
            let rand0 = cb.randoms.len();
            let r = catch(|| twin.feed(&mut cb, &f.bytes));
            let case = json!({"variant": vname, "side": side, "state": state, "kind": f.kind, "datagram": verif_harness::hex(&f.bytes), "agreed": verif_harness::hex(&agreed), "prefix": sim.log_json()});
            let fk = f.kind.split('|').next().unwrap().to_string();
            match r {
                Err(p) => {
                    ctx.panic_violation("Connection::feed", &format!("{}|state={}|foreign={}", vname, state, fk), &p, case);
                    continue;
                }
                Ok((events, _warnings)) => {
                    // the one exception: unauthenticated token request while a 0.7
                    // acceptor waits for the connect
                    let exception = v7 && state == "PendingConnect" && classify(true, &f.bytes) == Kind::Control(5) && carried_token(true, &f.bytes) == Some([0xff; 4]);
                    let fp1 = twin.fingerprint();
                    if exception {
                        st.exceptions += 1;
                        let only_token_reply = cb.sent.len() <= 1 && cb.sent.iter().all(|d| classify(true, d) == Kind::Control(5));
                        if !events.is_empty() || !only_token_reply || fp1 != fp0 {
                            ctx.violation("exception-effect", "Connection::feed", &format!("{}|state={}", vname, state), json!({"events": format!("{:?}", events), "sent": cb.sent.len(), "state_changed": fp1 != fp0}), case);
                        }
                        continue;
                    }
                    let mut effects = Vec::new();
                    if !events.is_empty() {
                        effects.push("event");
                    }
                    if !cb.sent.is_empty() {
                        effects.push("datagram");
                    }
                    if cb.randoms.len() != rand0 {
                        effects.push("random-draw");
                    }
                    if fp1 != fp0 || twin.needs_tick() != tick0 {
                        effects.push("state");
                    }
                    if !effects.is_empty() {
                        ctx.violation("not-inert", "Connection::feed", &format!("{}|state={}|foreign={}|effect={}", vname, state, fk, effects.join("+")),
                            json!({"events": format!("{:?}", events), "sent": cb.sent.iter().map(|d| hex_short(d)).collect::<Vec<_>>()}), case);
                        continue;
                    }
                    // shadow-twin differential on a sample
                    if rng.chance(1, 12) {
                        st.twins += 1;
                        let mut script = Vec::new();
                        for _ in 0..50 {
                            script.push(match rng.below(6) {
                                0 => Solo::Tick,
                                1 => Solo::Advance(*rng.pick(&[0u64, 1_000, 500_000, 1_000_000])),
                                2 => Solo::Send(rng.usize_below(100), rng.bool()),
                                3 => Solo::Flush,
                                _ => {
                                    if real.is_empty() {
                                        Solo::Tick
                                    } else {
                                        Solo::Feed(real[rng.usize_below(real.len())].clone())
                                    }
                                }
                            });
                        }
                        let mut a = sim.sides[side].conn.clone_hook();
                        let mut cba = sim.sides[side].cb.clone();
                        cba.sent.clear();
                        let mut cbb = cb.clone();
                        cbb.sent.clear();
                        let ta = solo_trace(&mut a, &mut cba, &script);
                        let tb = solo_trace(&mut twin, &mut cbb, &script);
                        if ta != tb {
                            let at = ta.iter().zip(&tb).position(|(x, y)| x != y).unwrap_or(ta.len().min(tb.len()));
                            ctx.violation("twin-diverges", "Connection::feed", &format!("{}|state={}|foreign={}", vname, state, fk), json!({"first_difference_at_step": at}), case);
                        }
                    }
                }
            }
        }
    }
}

/// Reserved-token clause: every token an acceptor puts on the wire.
fn reserved_oracle<C: Conn>(ctx: &mut Ctx, sim: &Sim<C>, checked: &mut u64) {
    let vname = sim.variant.name();
    for d in &sim.wire[0] {
        // datagrams travelling to the connector = emitted by the acceptor
        let b = &d.bytes;
        let tok: Option<[u8; 4]> = if !C::V7 {
            if classify(false, b) == Kind::Control(2) && b.len() == 12 { Some([b[8], b[9], b[10], b[11]]) } else { None }
        } else if classify(true, b) == Kind::Control(5) && b.len() >= 12 {
            Some([b[8], b[9], b[10], b[11]])
        } else {
            None
        };
        if let Some(t) = tok {
            *checked += 1;
            let reserved = t == [0xff; 4] || (!C::V7 && t == [0; 4]);
            if reserved {
                ctx.violation("reserved-token", "Callback::send", vname, json!({"token": verif_harness::hex(&t), "datagram": hex_short(b)}), json!({"prefix": sim.log_json()}));
            }
        }
    }
}

fn one<C: Conn>(ctx: &mut Ctx, rng: &mut Rng, variant: Variant, moves: usize) {
    let mut hp = HistoryParams::random(rng, variant, moves);
    hp.reserved_random_pct = 60;
    hp.personality.w_send = hp.personality.w_send.min(15);
    hp.disconnect_pct = 0;
    let mut st = ForkStats { forks: 0, foreign: 0, twins: 0, exceptions: 0 };
    let mut rng2 = Rng::new(rng.u64());
    let mut checked = 0u64;
    let budget: u64 = if ctx.tier == Tier::Miri { 2 } else { 20 };
    let p_fork = (budget * 1000 / moves.max(1) as u64).clamp(5, 300);
    let sim: Sim<C> = {
        let ctxr = &mut *ctx;
        run_history(rng, &hp, |sim, _m| {
            reserved_oracle(ctxr, sim, &mut checked);
            if st.forks < budget * 2 && rng2.below(1000) < p_fork {
                experiment(ctxr, sim, &mut rng2, &mut st);
            }
            true
        })
    };
    fold_stats(ctx, &sim);
    ctx.count("fork_points", st.forks);
    ctx.count("foreign_datagrams_fed", st.foreign);
    ctx.count("twin_differentials", st.twins);
    ctx.count("token_request_exceptions", st.exceptions);
    ctx.count("acceptor_tokens_checked", checked);
    ctx.count("scripted_reserved_draws", (sim.sides[0].cb.randoms.iter().chain(&sim.sides[1].cb.randoms)).filter(|r| r[..] == [0xff; 4] || r[..] == [0; 4]).count() as u64);
    for f in &sim.findings {
        ctx.count(&format!("other_clause[{}]", f.clause), 1);
    }
    let nontrivial = st.foreign > 0;
    let mut h = 0u64;
    for s in &sim.states_seen {
        h ^= *s;
    }
    ctx.case(if nontrivial { Some(h ^ st.foreign) } else { None });
    if ctx.want_sample() && nontrivial {
        ctx.sample(json!({"variant": variant.name(), "moves": sim.log.len(), "fork_points": st.forks, "foreign_datagrams_fed": st.foreign, "twin_differentials": st.twins, "personality": hp.personality.to_json()}));
    }
}

fn main() {
    let mut ctx = Ctx::from_args("C03");
    ctx.rule = "each case = one chaos history (0.6 with token, 0.7) with up to ~40 fork points; at each fork point every endpoint that has fixed a token is cloned and fed ~30-60 foreign datagrams (every control kind and plausible chunk packets written with a bit-flipped / rotated / reversed / pairwise-xored / end-byte / byte-shifted / peer's / ffffffff / 00000000 / random token or no token, real in-flight datagrams re-written with another token incl. recompression, truncations, random bytes); non-trivial = at least one foreign datagram fed; distinct = hash of visited endpoint-state set and number of foreign datagrams".into();
    ctx.assumptions = vec![
        "a datagram counts as foreign when the token it carries by the harness's own reading (0.7: header bytes 3..7; 0.6: last four bytes of the decompressed payload) differs from the agreed one; connless datagrams are excluded by the statement".into(),
        "inert = no event, no Callback::send, no secure_random draw, identical Debug fingerprint of the complete state and send timer, identical needs_tick; 1 in 12 additionally by a 50-step shadow-twin differential".into(),
        "0.6 without token extension fixes no token and is out of scope".into(),
        "reserved values: 0.6 ffffffff and 00000000, 0.7 ffffffff".into(),
        "fork points with more than 40 unacknowledged chunks are skipped (cost of cloning and fingerprinting)".into(),
    ];
    ctx.arm("c03", 1800.0);
    let n = ctx.volume(60, 1_200, 1, 6);
    ctx.run_cases("fork", n, |ctx, idx, rng| {
        let v = if idx % 2 == 0 { Variant::V6Token } else { Variant::V7 };
        let moves = match ctx.tier {
            Tier::Miri => 40,
            _ => *rng.pick(&[30usize, 100, 300, 1000]),
        };
        if v == Variant::V7 {
            one::<c7::Connection>(ctx, rng, v, moves)
        } else {
            one::<c6::Connection>(ctx, rng, v, moves)
        }
    });
    ctx.disarm();
    ctx.finish();
}
