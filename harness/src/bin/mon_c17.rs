//! C17 — teehistorian reading is independent of stream fragmentation.
//!
//! Generator: PRNG server histories -> teehistorian byte stream (model in
//! harness/src/refmodel/teehistorian.rs, written from doc/teehistorian.md)
//! together with the documentation tick of every message and the running sums
//! of positions/inputs. The stream is fed to the incremental reader through a
//! `Callback` whose read sizes are chosen by a schedule.
//!
//! Oracles: (a) same items for every schedule; (b) tick start/end nesting,
//! strictly increasing numbers, every record inside the tick the document
//! assigns; (c) positions/inputs are the running sums; (d) truncated, corrupted
//! and garbage streams give items or an error, never a panic.

use libtw2_teehistorian::format::item as fitem;
use libtw2_teehistorian::verif::Buffer;
use libtw2_teehistorian::verif::Callback;
use libtw2_teehistorian::verif::Item;
use libtw2_teehistorian::verif::Reader;
use libtw2_teehistorian::Header;
use serde_json::json;
use serde_json::Value;
use verif_harness::catch;
use verif_harness::fnv1a;
use verif_harness::hex;
use verif_harness::refmodel::teehistorian as th;
use verif_harness::refmodel::teehistorian::Rec;
use verif_harness::strip_numbers;
use verif_harness::Ctx;
use verif_harness::Rng;
use verif_harness::Tier;

/// Client ids above this are kept out of corrupted inputs (PLAYER_NEW /
/// INPUT_NEW make the reader allocate per-client state up to the id).
const CID_CAP: i64 = 1 << 16;

// Last line of defence against a pathological allocation request taking the
// machine down: a single request above 2 GiB fails (the process aborts with
// "memory allocation failed", which the driver reports as a crashed shard).
#[cfg(not(miri))]
mod guard_alloc {
    use std::alloc::GlobalAlloc;
    use std::alloc::Layout;
    use std::alloc::System;
    const LIMIT: usize = 2 << 30;
    pub struct Guard;
    unsafe impl GlobalAlloc for Guard {
        unsafe fn alloc(&self, l: Layout) -> *mut u8 {
            if l.size() > LIMIT {
                return std::ptr::null_mut();
            }
            System.alloc(l)
        }
        unsafe fn alloc_zeroed(&self, l: Layout) -> *mut u8 {
            if l.size() > LIMIT {
                return std::ptr::null_mut();
            }
            System.alloc_zeroed(l)
        }
        unsafe fn dealloc(&self, p: *mut u8, l: Layout) {
            System.dealloc(p, l)
        }
        unsafe fn realloc(&self, p: *mut u8, l: Layout, new_size: usize) -> *mut u8 {
            if new_size > LIMIT {
                return std::ptr::null_mut();
            }
            System.realloc(p, l, new_size)
        }
    }
}
#[cfg(not(miri))]
#[global_allocator]
static GUARD: guard_alloc::Guard = guard_alloc::Guard;

// ------------------------------------------------------------ canonical text of reported items

fn fi(name: &str, v: i32) -> String {
    format!("{}={}", name, v)
}
fn fb(name: &str, b: &[u8]) -> String {
    format!("{}={}", name, th::c_bytes(b))
}

/// (tick marker, canonical text). Reads every borrowed byte of the item.
fn canon(item: &Item) -> (Option<(bool, i32)>, String) {
    let s = match item {
        Item::TickStart(n) => return (Some((true, *n)), format!("TickStart {}", n)),
        Item::TickEnd(n) => return (Some((false, *n)), format!("TickEnd {}", n)),
        Item::PlayerNew(p) => th::c_player_new(p.cid, p.pos.x, p.pos.y),
        Item::PlayerChange(p) => th::c_player_change(p.cid, p.pos.x, p.pos.y, p.old_pos.x, p.old_pos.y),
        Item::PlayerOld(p) => th::c_player_old(p.cid, p.pos.x, p.pos.y),
        Item::Input(i) => th::c_input(i.cid, &i.input),
        Item::Message(m) => th::c_message(m.cid, m.msg),
        Item::Join(j) => th::c_join(j.cid),
        Item::Drop(d) => th::c_drop(d.cid, d.reason),
        Item::ConsoleCommand(c) => th::c_console_command(c.cid, c.flag_mask, c.cmd, &c.args[..]),
        Item::Antibot(a) => th::c_ex("Antibot", &[fb("data", a.data)]),
        Item::AuthInit(a) => th::c_ex("AuthInit", &[fi("cid", a.cid), fi("level", a.level), fb("identity", a.identity)]),
        Item::AuthLogin(a) => th::c_ex("AuthLogin", &[fi("cid", a.cid), fi("level", a.level), fb("identity", a.identity)]),
        Item::AuthLogout(a) => th::c_ex("AuthLogout", &[fi("cid", a.cid)]),
        Item::Ddnetver(d) => th::c_ex(
            "Ddnetver",
            &[
                fi("cid", d.cid),
                fb("connection_id", d.connection_id.as_bytes()),
                fi("version", d.ddnet_version),
                fb("version_str", d.ddnet_version_str),
            ],
        ),
        Item::DdnetverOld(d) => th::c_ex("DdnetverOld", &[fi("cid", d.cid), fi("version", d.ddnet_version)]),
        Item::Joinver6(j) => th::c_ex("Joinver6", &[fi("cid", j.cid)]),
        Item::Joinver7(j) => th::c_ex("Joinver7", &[fi("cid", j.cid)]),
        Item::PlayerFinish(p) => th::c_ex("PlayerFinish", &[fi("cid", p.cid), fi("time", p.time_ticks)]),
        Item::PlayerName(p) => th::c_ex("PlayerName", &[fi("cid", p.cid), fb("name", p.name)]),
        Item::PlayerReady(p) => th::c_ex("PlayerReady", &[fi("cid", p.cid)]),
        Item::PlayerRejoin(p) => th::c_ex("PlayerRejoin", &[fi("cid", p.cid)]),
        Item::PlayerSwap(p) => th::c_ex("PlayerSwap", &[fi("cid1", p.cid1), fi("cid2", p.cid2)]),
        Item::PlayerTeam(p) => th::c_ex("PlayerTeam", &[fi("cid", p.cid), fi("team", p.team)]),
        Item::TeamFinish(t) => th::c_ex("TeamFinish", &[fi("team", t.team), fi("time", t.time_ticks)]),
        Item::TeamLoadFailure(t) => th::c_ex("TeamLoadFailure", &[fi("team", t.team)]),
        Item::TeamLoadSuccess(t) => th::c_ex(
            "TeamLoadSuccess",
            &[fi("team", t.team), fb("save_id", t.save_uuid.as_bytes()), fb("save", t.save)],
        ),
        Item::TeamPractice(t) => th::c_ex("TeamPractice", &[fi("team", t.team), fi("practice", t.practice)]),
        Item::TeamSaveFailure(t) => th::c_ex("TeamSaveFailure", &[fi("team", t.team)]),
        Item::TeamSaveSuccess(t) => th::c_ex(
            "TeamSaveSuccess",
            &[fi("team", t.team), fb("save_id", t.save_uuid.as_bytes()), fb("save", t.save)],
        ),
        Item::UnknownEx(u) => th::c_unknown_ex(u.uuid.as_bytes(), u.data),
    };
    (None, s)
}

fn kind_of(text: &str) -> &str {
    text.split(' ').next().unwrap_or("")
}

/// Deterministic rendering of the header (the config map has no stable order).
fn canon_header(h: &Header) -> String {
    let mut cfg: Vec<(String, String)> = h.config.iter().map(|(k, v)| (k.to_string(), v.to_string())).collect();
    cfg.sort();
    format!(
        "version={} game_uuid={} ts={:?} port={} map={:?} size={} sha={:?} crc={:08x} config={:?}",
        h.version, h.game_uuid, h.timestamp, h.server_port, h.map_name, h.map_size, h.map_sha256, h.map_crc, cfg
    )
}

// ------------------------------------------------------------ schedules and the read callback

#[derive(Clone, Debug)]
enum Sched {
    Whole,
    Fixed(usize),
    TwoPiece(usize),
    Random { seed: u64, max: usize, zero_permille: u32 },
}

impl Sched {
    fn label(&self) -> &'static str {
        match self {
            Sched::Whole => "whole",
            Sched::Fixed(1) => "bytewise",
            Sched::Fixed(_) => "fixed",
            Sched::TwoPiece(_) => "two-piece",
            Sched::Random { zero_permille: 0, .. } => "random",
            Sched::Random { .. } => "random-with-zero-reads",
        }
    }
    fn to_json(&self) -> Value {
        match self {
            Sched::Whole => json!({"kind": "whole"}),
            Sched::Fixed(k) => json!({"kind": "fixed", "chunk": k}),
            Sched::TwoPiece(p) => json!({"kind": "two-piece", "split_at": p}),
            Sched::Random { seed, max, zero_permille } => {
                json!({"kind": "random", "rng_seed": format!("{:x}", seed), "max_chunk": max, "zero_permille": zero_permille})
            }
        }
    }
}

#[derive(Clone, Debug, Default)]
struct FeedStats {
    reads: u64,
    zero_reads: u64,
    eofs: u64,
    compactions: u64,
    growths: u64,
    empty_offers: u64,
    max_offer: usize,
    min_offer: usize,
    /// Read sizes actually returned (kept for short runs only).
    trace: Vec<usize>,
}

#[derive(Debug)]
enum CbErr {
    Injected,
    Stuck,
}

struct Feed<'s> {
    data: &'s [u8],
    pos: usize,
    sched: Sched,
    rng: Rng,
    consecutive_zero: u32,
    fail_at: Option<usize>,
    stats: FeedStats,
    // Model of the reader's buffer as far as it is visible from here: every
    // call offers the spare capacity behind the bytes already buffered.
    seen_first: bool,
    base: usize,
    cap: usize,
    blen: usize,
}

impl<'s> Feed<'s> {
    fn new(data: &'s [u8], sched: &Sched, fail_at: Option<usize>) -> Feed<'s> {
        let seed = match sched {
            Sched::Random { seed, .. } => *seed,
            _ => 0,
        };
        Feed {
            data,
            pos: 0,
            sched: sched.clone(),
            rng: Rng::new(seed),
            consecutive_zero: 0,
            fail_at,
            stats: FeedStats {
                min_offer: usize::MAX,
                ..FeedStats::default()
            },
            seen_first: false,
            base: 0,
            cap: 0,
            blen: 0,
        }
    }
    fn want(&mut self) -> usize {
        match self.sched {
            Sched::Whole => usize::MAX,
            Sched::Fixed(k) => k,
            Sched::TwoPiece(p) => {
                if self.pos < p {
                    p - self.pos
                } else {
                    usize::MAX
                }
            }
            Sched::Random { max, zero_permille, .. } => {
                if self.consecutive_zero < 3 && self.rng.below(1000) < zero_permille as u64 {
                    0
                } else {
                    let m = 1 + self.rng.below(max as u64);
                    1 + self.rng.below(m) as usize
                }
            }
        }
    }
    fn track(&mut self, ptr: usize, spare: usize) {
        if !self.seen_first {
            self.seen_first = true;
            self.base = ptr;
            self.cap = spare;
            self.blen = 0;
            return;
        }
        if spare == self.cap - self.blen && ptr == self.base + self.blen {
            return;
        }
        // The buffer was full. Either consumed bytes were dropped from the
        // front (same allocation, same capacity) or the allocation grew.
        if spare <= self.cap && ptr == self.base + (self.cap - spare) {
            self.stats.compactions += 1;
            self.blen = self.cap - spare;
        } else {
            self.stats.growths += 1;
            self.base = ptr - self.blen;
            self.cap = self.blen + spare;
        }
    }
}

impl<'s> Callback for Feed<'s> {
    type Error = CbErr;
    fn read_at_most(&mut self, buffer: &mut [u8]) -> Result<Option<usize>, CbErr> {
        self.stats.reads += 1;
        self.stats.max_offer = self.stats.max_offer.max(buffer.len());
        self.stats.min_offer = self.stats.min_offer.min(buffer.len());
        if buffer.is_empty() {
            // Nothing could ever be delivered: do not spin.
            self.stats.empty_offers += 1;
            return Err(CbErr::Stuck);
        }
        self.track(buffer.as_ptr() as usize, buffer.len());
        if let Some(q) = self.fail_at {
            if self.pos >= q {
                return Err(CbErr::Injected);
            }
        }
        let remaining = self.data.len() - self.pos;
        if remaining == 0 {
            self.stats.eofs += 1;
            return Ok(None);
        }
        let mut n = self.want().min(buffer.len()).min(remaining);
        if let Some(q) = self.fail_at {
            n = n.min(q - self.pos);
        }
        if n == 0 {
            self.consecutive_zero += 1;
            self.stats.zero_reads += 1;
        } else {
            self.consecutive_zero = 0;
        }
        buffer[..n].copy_from_slice(&self.data[self.pos..self.pos + n]);
        self.pos += n;
        self.blen += n;
        if self.stats.trace.len() < 64 {
            self.stats.trace.push(n);
        }
        Ok(Some(n))
    }
}

// ------------------------------------------------------------ one run of the reader

#[derive(Clone, Debug, Default)]
struct Outcome {
    header: Option<String>,
    items: Vec<String>,
    ticks: Vec<Option<(bool, i32)>>,
    /// "finish" or the Debug text of the error.
    end: String,
    stats: FeedStats,
    /// First disagreement between the accessors (`player_pos`, `input`, `cids`)
    /// and the running state implied by the items the reader itself reported.
    accessor_mismatch: Option<String>,
    accessor_checks: u64,
}

/// Running state implied by the reported items (positions of live players,
/// last input per client id); compared with the reader's accessors.
#[derive(Default)]
struct Shadow {
    players: std::collections::BTreeMap<i32, (i32, i32)>,
    inputs: std::collections::BTreeMap<i32, Vec<i32>>,
    checks: u64,
    mismatch: Option<String>,
    /// `cids()` computes `max_cid + 1`; a hostile stream may name client id
    /// i32::MAX, and the statement does not cover that accessor's arithmetic,
    /// so the range is only consulted for streams made of generated records.
    use_cids: bool,
}

impl Shadow {
    fn note(&mut self, what: String) {
        if self.mismatch.is_none() {
            self.mismatch = Some(what);
        }
    }
    fn check_cid(&mut self, reader: &Reader, cid: i32, after: &str) {
        if cid < 0 {
            return;
        }
        self.checks += 1;
        let got = reader.player_pos(cid).map(|p| (p.x, p.y));
        let want = self.players.get(&cid).cloned();
        if got != want {
            self.note(format!("player_pos|after={}|got={:?}|want={:?}", after, got.is_some(), want.is_some()));
        }
        let got = reader.input(cid).map(|i| i.to_vec());
        let want = self.inputs.get(&cid).cloned();
        if got != want {
            self.note(format!("input|after={}|got={:?}|want={:?}", after, got.is_some(), want.is_some()));
        }
        if self.use_cids {
            let r = reader.cids();
            if (want.is_some() || self.players.contains_key(&cid)) && !(r.start <= cid && cid < r.end) {
                self.note(format!("cids|after={}|known-cid-outside-range", after));
            }
        }
    }
    fn after_item(&mut self, reader: &Reader, item: &Item) {
        let (cid, name) = match item {
            Item::PlayerNew(p) => {
                self.players.insert(p.cid, (p.pos.x, p.pos.y));
                (p.cid, "PlayerNew")
            }
            Item::PlayerChange(p) => {
                self.players.insert(p.cid, (p.pos.x, p.pos.y));
                (p.cid, "PlayerChange")
            }
            Item::PlayerOld(p) => {
                self.players.remove(&p.cid);
                (p.cid, "PlayerOld")
            }
            Item::Input(i) => {
                self.inputs.insert(i.cid, i.input.to_vec());
                (i.cid, "Input")
            }
            _ => return,
        };
        self.check_cid(reader, cid, name);
    }
    /// Every client id the reader announces, plus every one the items mentioned.
    fn full_scan(&mut self, reader: &Reader, after: &str) {
        if !self.use_cids {
            let known: Vec<i32> = self.players.keys().chain(self.inputs.keys()).cloned().collect();
            for cid in known {
                self.check_cid(reader, cid, after);
            }
            return;
        }
        let r = reader.cids();
        if r.start != 0 {
            self.note(format!("cids|after={}|range-does-not-start-at-0", after));
        }
        if r.end > 4096 {
            return;
        }
        for cid in r.clone() {
            self.check_cid(reader, cid, after);
        }
        let known: Vec<i32> = self.players.keys().chain(self.inputs.keys()).cloned().collect();
        for cid in known {
            self.check_cid(reader, cid, after);
        }
        // one past the announced range must be unknown
        if reader.player_pos(r.end).is_some() || reader.input(r.end).is_some() {
            self.note(format!("cids|after={}|state-beyond-range", after));
        }
    }
}

fn run_reader(stream: &[u8], sched: &Sched, fail_at: Option<usize>, generated_records: bool) -> Outcome {
    let mut feed = Feed::new(stream, sched, fail_at);
    let mut buffer = Buffer::new();
    let mut out = Outcome::default();
    let new = Reader::new(&mut feed, &mut buffer);
    let mut reader = match new {
        Ok((header, reader)) => {
            out.header = Some(canon_header(&header));
            reader
        }
        Err(e) => {
            out.end = format!("{:?}", e);
            out.stats = feed.stats;
            return out;
        }
    };
    let limit = 3 * stream.len() + 16;
    let mut shadow = Shadow { use_cids: generated_records, ..Shadow::default() };
    loop {
        match reader.read(&mut feed, &mut buffer) {
            Ok(Some(item)) => {
                let (t, s) = canon(&item);
                shadow.after_item(&reader, &item);
                out.items.push(s);
                out.ticks.push(t);
                if out.items.len() % 97 == 0 {
                    shadow.full_scan(&reader, "every-97-items");
                }
                if out.items.len() > limit {
                    out.end = "item-limit-exceeded".into();
                    break;
                }
            }
            Ok(None) => {
                out.end = "finish".into();
                break;
            }
            Err(e) => {
                out.end = format!("{:?}", e);
                break;
            }
        }
    }
    // After an error the accessor state is unspecified (e.g. a duplicate PLAYER_NEW
    // is refused after the table was touched), so only a clean end is scanned.
    if out.end == "finish" {
        shadow.full_scan(&reader, "finish");
    }
    out.accessor_mismatch = shadow.mismatch;
    out.accessor_checks = shadow.checks;
    out.stats = feed.stats;
    out
}

/// Error text without the concrete numbers: `Teehistorian(Item(UnknownType(N)))`.
fn err_variant(end: &str) -> String {
    strip_numbers(&end.replace('-', ""))
}

// ------------------------------------------------------------ history generator

#[derive(Clone, Copy, Debug, PartialEq, Eq)]
enum Size {
    Tiny,
    Short,
    Medium,
    Long,
    Huge,
}

#[derive(Clone, Debug)]
struct Hist {
    version: u8,
    mode: &'static str,
    #[allow(dead_code)]
    size: Size,
    header_json: String,
    recs: Vec<Rec>,
}

impl Hist {
    fn encode(&self) -> (Vec<u8>, usize) {
        let mut out = Vec::new();
        th::encode_header(&self.header_json, &mut out);
        let header_len = out.len();
        for r in &self.recs {
            r.encode(&mut out);
        }
        (out, header_len)
    }
}

struct Gen<'r> {
    rng: &'r mut Rng,
    version: u8,
    size: Size,
    /// Remaining number of oversized payloads to place.
    huge_left: u32,
    cids: Vec<i32>,
    has_input: std::collections::BTreeSet<i32>,
}

fn json_escape(s: &str) -> String {
    let mut o = String::new();
    for c in s.chars() {
        match c {
            '"' => o.push_str("\\\""),
            '\\' => o.push_str("\\\\"),
            '\n' => o.push_str("\\n"),
            '\t' => o.push_str("\\t"),
            c if (c as u32) < 0x20 => o.push_str(&format!("\\u{:04x}", c as u32)),
            c => o.push(c),
        }
    }
    o
}

impl<'r> Gen<'r> {
    fn text(&mut self, max: usize) -> String {
        const ALPHA: &[char] = &[
            'a', 'b', 'c', 'x', 'y', 'z', 'A', 'Z', '0', '9', ' ', '_', '-', '.', '/', '"', '\\', '\n', '\t', 'é', 'ß', '日', '本',
            '{', '}', ':', ',',
        ];
        let n = self.rng.usize_below(max + 1);
        (0..n).map(|_| *self.rng.pick(ALPHA)).collect()
    }
    fn plen(&mut self) -> usize {
        if self.size == Size::Tiny {
            return self.rng.usize_below(13);
        }
        match self.rng.below(20) {
            0..=2 => 0,
            3..=9 => 1 + self.rng.usize_below(8),
            10..=16 => 8 + self.rng.usize_below(32),
            _ => 40 + self.rng.usize_below(260),
        }
    }
    /// Length for a payload that may be the oversized one (larger than the
    /// reader's initial 8 KiB buffer).
    fn plen_maybe_huge(&mut self, scanned: bool) -> usize {
        if self.huge_left > 0 && self.rng.chance(1, 3) {
            self.huge_left -= 1;
            let top = if scanned { 9_500 } else { 20_000 };
            return 8_190 + self.rng.usize_below(top - 8_190);
        }
        self.plen()
    }
    fn bytes(&mut self, n: usize) -> Vec<u8> {
        self.rng.bytes(n)
    }
    fn cstr(&mut self, n: usize) -> Vec<u8> {
        let ascii = self.rng.bool();
        let mut v = self.rng.bytes(n);
        for b in &mut v {
            if ascii {
                *b = 0x20 + *b % 0x5f;
            } else if *b == 0 {
                *b = 1;
            }
        }
        v
    }
    fn header(&mut self) -> String {
        let r = &mut *self.rng;
        let (y, mo, d) = (r.range(2000, 2037), r.range(1, 12), r.range(1, 28));
        let (h, mi, s) = (r.range(0, 23), r.range(0, 59), r.range(0, 59));
        let sign = if r.bool() { '+' } else { '-' };
        let (oh, om) = (r.range(0, 12), *r.pick(&[0, 0, 30, 45]));
        let start_time = if self.version == 1 {
            format!("{:04}-{:02}-{:02} {:02}:{:02}:{:02} {}{:02}{:02}", y, mo, d, h, mi, s, sign, oh, om)
        } else {
            format!("{:04}-{:02}-{:02}T{:02}:{:02}:{:02}{}{:02}:{:02}", y, mo, d, h, mi, s, sign, oh, om)
        };
        let mut g = [0u8; 16];
        r.fill(&mut g);
        let mut fields: Vec<(String, String)> = vec![
            ("version".into(), format!("\"{}\"", self.version)),
            ("game_uuid".into(), format!("\"{}\"", th::uuid_to_text(&g))),
            ("start_time".into(), format!("\"{}\"", start_time)),
            ("server_port".into(), format!("\"{}\"", r.below(65536))),
            ("map_size".into(), format!("\"{}\"", r.u32())),
            ("map_crc".into(), format!("\"{:08x}\"", r.u32())),
        ];
        let tiny = self.size == Size::Tiny;
        let map_name = self.text(if tiny { 4 } else { 24 });
        fields.push(("map_name".into(), format!("\"{}\"", json_escape(&map_name))));
        if !tiny && self.rng.bool() {
            let sha = self.rng.bytes(32);
            fields.push(("map_sha256".into(), format!("\"{}\"", hex(&sha))));
        }
        let ncfg = if tiny { self.rng.usize_below(2) } else { self.rng.usize_below(6) };
        let mut cfg = Vec::new();
        for i in 0..ncfg {
            let v = if self.huge_left > 0 && self.rng.chance(1, 4) {
                self.huge_left -= 1;
                let n = 8_200 + self.rng.usize_below(1_500);
                (0..n).map(|k| (b'a' + (k % 26) as u8) as char).collect::<String>()
            } else {
                self.text(20)
            };
            cfg.push(format!("\"{}{}\":\"{}\"", *self.rng.pick(&["sv_name", "sv_motd", "sv_map", "password", "x"]), i, json_escape(&v)));
        }
        fields.push(("config".into(), format!("{{{}}}", cfg.join(","))));
        if !tiny {
            for k in ["comment", "version_minor", "server_version", "prng_description", "tuning"] {
                if self.rng.chance(1, 4) {
                    let v = self.text(16);
                    fields.push((k.into(), format!("\"{}\"", json_escape(&v))));
                }
            }
        }
        self.rng.shuffle(&mut fields);
        let body: Vec<String> = fields.iter().map(|(k, v)| format!("\"{}\":{}", k, v)).collect();
        format!("{{{}}}", body.join(","))
    }
    fn any_cid(&mut self) -> i32 {
        *self.rng.pick(&self.cids)
    }
    fn input_rec(&mut self, cid: i32) -> Rec {
        let mut v = [0i32; th::INPUT_LEN];
        let edgy = self.rng.chance(1, 4);
        for x in &mut v {
            *x = if edgy { self.rng.edgy_i32() } else { self.rng.range(-3, 3) as i32 };
        }
        if self.has_input.contains(&cid) && !self.rng.chance(1, 12) {
            Rec::InputDiff { cid, d: v }
        } else {
            self.has_input.insert(cid);
            Rec::InputNew { cid, v }
        }
    }
    fn known_ex(&mut self) -> Rec {
        let cid = self.any_cid();
        let team = self.rng.range(0, 63) as i32;
        let n = self.plen();
        let s = self.cstr(n);
        let mut u = [0u8; 16];
        self.rng.fill(&mut u);
        let v = self.rng.edgy_i32();
        let lvl = self.rng.range(0, 3) as i32;
        let mut d = Vec::new();
        let int = |d: &mut Vec<u8>, v: i32| d.extend(verif_harness::refmodel::varint::encode(v));
        let strz = |d: &mut Vec<u8>, s: &[u8]| {
            d.extend_from_slice(s);
            d.push(0)
        };
        let (uuid, expect): ([u8; 16], String) = match self.rng.below(21) {
            0 => {
                int(&mut d, cid);
                int(&mut d, v);
                (th::uuid_from_text(th::EX_DDNETVER_OLD), th::c_ex("DdnetverOld", &[fi("cid", cid), fi("version", v)]))
            }
            1 => {
                int(&mut d, cid);
                d.extend_from_slice(&u);
                int(&mut d, v);
                strz(&mut d, &s);
                (
                    th::uuid_from_text(th::EX_DDNETVER),
                    th::c_ex("Ddnetver", &[fi("cid", cid), fb("connection_id", &u), fi("version", v), fb("version_str", &s)]),
                )
            }
            2 | 3 => {
                int(&mut d, cid);
                int(&mut d, lvl);
                strz(&mut d, &s);
                let init = self.rng.bool();
                (
                    th::uuid_from_text(if init { th::EX_AUTH_INIT } else { th::EX_AUTH_LOGIN }),
                    th::c_ex(if init { "AuthInit" } else { "AuthLogin" }, &[fi("cid", cid), fi("level", lvl), fb("identity", &s)]),
                )
            }
            4 => {
                int(&mut d, cid);
                (th::uuid_from_text(th::EX_AUTH_LOGOUT), th::c_ex("AuthLogout", &[fi("cid", cid)]))
            }
            5 => {
                int(&mut d, cid);
                (th::uuid_from_text(th::EX_JOINVER6), th::c_ex("Joinver6", &[fi("cid", cid)]))
            }
            6 => {
                int(&mut d, cid);
                (th::uuid_from_text(th::EX_JOINVER7), th::c_ex("Joinver7", &[fi("cid", cid)]))
            }
            7 | 8 => {
                int(&mut d, team);
                d.extend_from_slice(&u);
                strz(&mut d, &s);
                let save = self.rng.bool();
                (
                    th::uuid_from_text(if save { th::EX_TEAM_SAVE_SUCCESS } else { th::EX_TEAM_LOAD_SUCCESS }),
                    th::c_ex(
                        if save { "TeamSaveSuccess" } else { "TeamLoadSuccess" },
                        &[fi("team", team), fb("save_id", &u), fb("save", &s)],
                    ),
                )
            }
            9 => {
                int(&mut d, team);
                (th::uuid_from_text(th::EX_TEAM_SAVE_FAILURE), th::c_ex("TeamSaveFailure", &[fi("team", team)]))
            }
            10 => {
                int(&mut d, team);
                (th::uuid_from_text(th::EX_TEAM_LOAD_FAILURE), th::c_ex("TeamLoadFailure", &[fi("team", team)]))
            }
            11 => {
                int(&mut d, cid);
                int(&mut d, team);
                (th::uuid_from_text(th::EX_PLAYER_TEAM), th::c_ex("PlayerTeam", &[fi("cid", cid), fi("team", team)]))
            }
            12 => {
                int(&mut d, team);
                int(&mut d, lvl);
                (th::uuid_from_text(th::EX_TEAM_PRACTICE), th::c_ex("TeamPractice", &[fi("team", team), fi("practice", lvl)]))
            }
            13 => {
                int(&mut d, cid);
                (th::uuid_from_text(th::EX_PLAYER_READY), th::c_ex("PlayerReady", &[fi("cid", cid)]))
            }
            14 => {
                let c2 = self.any_cid();
                int(&mut d, cid);
                int(&mut d, c2);
                (th::uuid_from_text(th::EX_PLAYER_SWAP), th::c_ex("PlayerSwap", &[fi("cid1", cid), fi("cid2", c2)]))
            }
            // Known to the reader but not listed in the document: uuids and
            // field lists are taken from format/item.rs.
            15 => {
                d.extend_from_slice(&s);
                (fitem::UUID_ANTIBOT, th::c_ex("Antibot", &[fb("data", &s)]))
            }
            16 => {
                int(&mut d, cid);
                int(&mut d, v);
                (fitem::UUID_PLAYER_FINISH, th::c_ex("PlayerFinish", &[fi("cid", cid), fi("time", v)]))
            }
            17 => {
                int(&mut d, cid);
                strz(&mut d, &s);
                (fitem::UUID_PLAYER_NAME, th::c_ex("PlayerName", &[fi("cid", cid), fb("name", &s)]))
            }
            18 => {
                int(&mut d, cid);
                (fitem::UUID_PLAYER_REJOIN, th::c_ex("PlayerRejoin", &[fi("cid", cid)]))
            }
            19 => {
                int(&mut d, team);
                int(&mut d, v);
                (fitem::UUID_TEAM_FINISH, th::c_ex("TeamFinish", &[fi("team", team), fi("time", v)]))
            }
            _ => {
                // the document's TEST message: not known to the reader
                d.extend_from_slice(&s);
                let u = th::uuid_from_text(th::EX_TEST);
                (u, th::c_unknown_ex(&u, &s))
            }
        };
        // Forward compatibility: fields appended by a newer writer.
        if uuid != fitem::UUID_ANTIBOT && uuid != th::uuid_from_text(th::EX_TEST) && self.rng.chance(1, 10) {
            let n = 1 + self.rng.usize_below(6);
            let extra = self.bytes(n);
            d.extend_from_slice(&extra);
        }
        Rec::Ex { uuid, data: d, expect }
    }
    /// A record that has nothing to do with ticks or per-client state.
    fn misc(&mut self) -> Rec {
        let ex_ok = self.version >= 2;
        loop {
            match self.rng.below(10) {
                0..=3 => {
                    let cid = self.any_cid();
                    let n = self.plen_maybe_huge(false);
                    let msg = self.bytes(n);
                    return Rec::Message { cid, msg };
                }
                4 | 5 => {
                    let cid = if self.rng.chance(1, 4) { -1 } else { self.any_cid() };
                    let n = self.plen().min(40);
                    let cmd = self.cstr(n);
                    let na = *self.rng.pick(&[0usize, 0, 1, 1, 2, 3, 5, 15, 16]);
                    let mut args = Vec::new();
                    for _ in 0..na {
                        let n = self.plen_maybe_huge(true);
                        args.push(self.cstr(n));
                    }
                    return Rec::ConsoleCommand { cid, flags: self.rng.edgy_i32(), cmd, args };
                }
                6 | 7 if ex_ok => return self.known_ex(),
                8 if ex_ok => {
                    let mut uuid = [0u8; 16];
                    self.rng.fill(&mut uuid);
                    let n = self.plen_maybe_huge(false);
                    let data = self.bytes(n);
                    let expect = th::c_unknown_ex(&uuid, &data);
                    return Rec::Ex { uuid, data, expect };
                }
                9 => {
                    let cid = self.any_cid();
                    return self.input_rec(cid);
                }
                _ => {}
            }
        }
    }
    fn pos(&mut self) -> i32 {
        if self.rng.chance(1, 5) {
            self.rng.edgy_i32()
        } else {
            self.rng.range(-2000, 20000) as i32
        }
    }
    fn diff(&mut self) -> i32 {
        match self.rng.below(10) {
            0 => self.rng.edgy_i32(),
            1..=3 => 0,
            _ => self.rng.range(-40, 40) as i32,
        }
    }
    fn gap(&mut self) -> i64 {
        match self.rng.below(20) {
            0..=15 => 1,
            16 | 17 => self.rng.range(2, 6),
            18 => self.rng.range(7, 3000),
            _ => self.rng.range(3000, 2_000_000),
        }
    }

    /// Mode "server": ticks of a running server; within a tick the player
    /// records come in ascending client-id order; the writer emits TICK_SKIP
    /// only where the implicit rule of the document would not produce the
    /// server's tick number by itself (and sometimes although it would).
    fn server_history(&mut self, n_ticks: usize) -> Vec<Rec> {
        use std::collections::BTreeSet;
        let mut joined: BTreeSet<i32> = BTreeSet::new();
        let mut alive: BTreeSet<i32> = BTreeSet::new();
        let mut timed: Vec<(i64, Rec)> = Vec::new();
        let mut tick: i64 = match self.rng.below(4) {
            0 | 1 => 0,
            2 => self.rng.range(1, 50),
            _ => self.rng.range(50, 5_000_000),
        };
        for _ in 0..n_ticks {
            let mut spawning: BTreeSet<i32> = BTreeSet::new();
            let mut dying: BTreeSet<i32> = BTreeSet::new();
            // network events
            let nev = self.rng.usize_below(3);
            for _ in 0..nev {
                let cid = self.any_cid();
                if !joined.contains(&cid) {
                    if self.rng.chance(2, 3) {
                        joined.insert(cid);
                        timed.push((tick, Rec::Join { cid }));
                    }
                } else if self.rng.chance(1, 6) {
                    joined.remove(&cid);
                    self.has_input.remove(&cid);
                    if alive.contains(&cid) {
                        dying.insert(cid);
                    }
                    let n = self.plen_maybe_huge(true);
                    let reason = self.cstr(n);
                    timed.push((tick, Rec::Drop { cid, reason }));
                } else if !alive.contains(&cid) {
                    spawning.insert(cid);
                } else if self.rng.chance(1, 8) {
                    dying.insert(cid);
                }
            }
            let nm = self.rng.usize_below(3);
            for _ in 0..nm {
                if self.rng.chance(1, 2) {
                    let r = self.misc();
                    timed.push((tick, r));
                }
            }
            // player phase, ascending client ids
            let all: BTreeSet<i32> = alive.union(&spawning).copied().collect();
            for cid in all {
                if spawning.contains(&cid) && !alive.contains(&cid) {
                    alive.insert(cid);
                    let (x, y) = (self.pos(), self.pos());
                    timed.push((tick, Rec::PlayerNew { cid, x, y }));
                } else if dying.contains(&cid) {
                    alive.remove(&cid);
                    timed.push((tick, Rec::PlayerOld { cid }));
                } else if !self.rng.chance(1, 12) {
                    let (dx, dy) = (self.diff(), self.diff());
                    timed.push((tick, Rec::PlayerDiff { cid, dx, dy }));
                }
            }
            // input phase
            let js: Vec<i32> = joined.iter().copied().collect();
            for cid in js {
                if self.rng.chance(1, 2) {
                    let r = self.input_rec(cid);
                    timed.push((tick, r));
                }
            }
            if self.rng.chance(1, 5) {
                let r = self.misc();
                timed.push((tick, r));
            }
            tick += self.gap();
            if tick > 1 << 29 {
                break;
            }
        }
        // writer
        let mut out = Vec::new();
        let mut m = th::TickModel::new();
        for (t, rec) in timed {
            let d = m.tick;
            assert!(t >= d, "generator: time runs backwards");
            if t > d {
                let implicit_works = match (rec.player_cid(), m.implicit_cid) {
                    (Some(cid), Some(ic)) => cid <= ic && t == d + 1,
                    _ => false,
                };
                if !implicit_works || self.rng.chance(1, 12) {
                    let skip = Rec::TickSkip { dt: (t - d - 1) as i32 };
                    m.step(&skip);
                    out.push(skip);
                }
            }
            let got = m.step(&rec);
            assert_eq!(got, t, "generator: writer model and tick rule disagree");
            out.push(rec);
        }
        out.push(Rec::Finish);
        out
    }

    /// Mode "format": any message sequence the format allows (tick skips
    /// anywhere, also consecutive ones; player records in any id order).
    fn format_history(&mut self, n: usize) -> Vec<Rec> {
        use std::collections::BTreeSet;
        let mut alive: BTreeSet<i32> = BTreeSet::new();
        let mut out = Vec::new();
        let mut budget: i64 = 1 << 29;
        let skip_w = *self.rng.pick(&[4u32, 12, 30]);
        for _ in 0..n {
            match self.rng.weighted(&[45, skip_w, 15, 25]) {
                0 => {
                    let cid = self.any_cid();
                    if !alive.contains(&cid) {
                        alive.insert(cid);
                        let (x, y) = (self.pos(), self.pos());
                        out.push(Rec::PlayerNew { cid, x, y });
                    } else if self.rng.chance(1, 5) {
                        alive.remove(&cid);
                        out.push(Rec::PlayerOld { cid });
                    } else {
                        let (dx, dy) = (self.diff(), self.diff());
                        out.push(Rec::PlayerDiff { cid, dx, dy });
                    }
                }
                1 => {
                    let dt = match self.rng.below(10) {
                        0..=4 => 0,
                        5..=7 => self.rng.range(1, 5),
                        8 => self.rng.range(6, 5000),
                        _ => self.rng.range(5000, 3_000_000),
                    };
                    if budget - dt - 1 > 0 {
                        budget -= dt + 1;
                        out.push(Rec::TickSkip { dt: dt as i32 });
                    }
                }
                2 => {
                    let cid = self.any_cid();
                    let r = self.input_rec(cid);
                    out.push(r);
                }
                _ => {
                    let r = match self.rng.below(8) {
                        0 => Rec::Join { cid: self.any_cid() },
                        1 => {
                            let cid = self.any_cid();
                            let n = self.plen_maybe_huge(true);
                            Rec::Drop { cid, reason: self.cstr(n) }
                        }
                        _ => self.misc(),
                    };
                    out.push(r);
                }
            }
        }
        out.push(Rec::Finish);
        out
    }
}

fn gen_history(rng: &mut Rng, size: Size) -> Hist {
    let version = if rng.chance(1, 6) { 1 } else { 2 };
    let pool: Vec<i32> = match rng.below(4) {
        0 => vec![0, 1],
        1 => vec![0, 1, 2, 3, 4, 5],
        2 => vec![0, 2, 3, 7, 15, 16, 62, 63],
        _ => (0..64).collect(),
    };
    let mut g = Gen {
        rng,
        version,
        size,
        huge_left: if size == Size::Huge { 1 + rng_small(version) } else { 0 },
        cids: pool,
        has_input: Default::default(),
    };
    let header_json = g.header();
    let server = g.rng.chance(3, 5);
    let n = match size {
        Size::Tiny => 2 + g.rng.usize_below(6),
        Size::Short | Size::Huge => g.rng.usize_below(if server { 14 } else { 40 }),
        Size::Medium => 14 + g.rng.usize_below(if server { 80 } else { 280 }),
        Size::Long => {
            if server {
                // about 2400 player records per history whatever the number of clients
                let ticks = (2_400 / g.cids.len().max(3)).max(60);
                ticks + g.rng.usize_below(ticks)
            } else {
                1000 + g.rng.usize_below(2500)
            }
        }
    };
    let mut recs = if server { g.server_history(n) } else { g.format_history(n) };
    if g.huge_left > 0 && size == Size::Huge {
        // nothing took the oversized payload yet: place one explicitly
        let cid = g.any_cid();
        let len = 8_190 + g.rng.usize_below(12_000);
        let msg = g.bytes(len);
        let at = g.rng.usize_below(recs.len());
        recs.insert(at, Rec::Message { cid, msg });
    }
    Hist {
        version,
        mode: if server { "server" } else { "format" },
        size,
        header_json,
        recs,
    }
}

fn rng_small(version: u8) -> u32 {
    // one or two oversized payloads; derived from nothing random on purpose
    // (the positions are random anyway)
    if version == 1 {
        0
    } else {
        1
    }
}

fn recs_json(recs: &[Rec]) -> Value {
    if recs.len() <= 80 {
        json!(recs.iter().map(|r| r.brief()).collect::<Vec<_>>())
    } else {
        let mut v: Vec<String> = recs[..40].iter().map(|r| r.brief()).collect();
        v.push(format!("... {} more ...", recs.len() - 60));
        v.extend(recs[recs.len() - 20..].iter().map(|r| r.brief()));
        json!(v)
    }
}

// ------------------------------------------------------------ oracles (b) and (c)

#[derive(Clone, Debug)]
struct Finding {
    clause: &'static str,
    class: String,
    detail: Value,
}

/// Is `recs[ri]` a player record that follows a TICK_SKIP (no player record in
/// between) and whose client id is not above the last player record's id?
/// Per the document such a record does NOT advance the tick a second time.
fn skip_then_not_above(recs: &[Rec], ri: usize) -> bool {
    let cid = match recs[ri].player_cid() {
        Some(c) => c,
        None => return false,
    };
    let mut skip_between = false;
    for r in recs[..ri].iter().rev() {
        if let Rec::TickSkip { .. } = r {
            skip_between = true;
        }
        if let Some(prev) = r.player_cid() {
            return skip_between && cid <= prev;
        }
    }
    false
}

fn analyze(recs: &[Rec], exp: &th::Expectation, out: &Outcome) -> Vec<Finding> {
    let mut fs: Vec<Finding> = Vec::new();
    let mut add = |clause: &'static str, class: String, detail: Value| {
        if fs.len() < 8 && !fs.iter().any(|f| f.clause == clause && f.class == class) {
            fs.push(Finding { clause, class, detail });
        }
    };
    if out.header.is_none() {
        add("valid-stream-rejected", format!("header|{}", err_variant(&out.end)), json!({"error": out.end}));
        return fs;
    }
    let mut open: Option<i32> = None;
    let mut last_start: Option<i32> = None;
    let mut k = 0usize;
    let mut drift: i64 = 0;
    for (i, (t, s)) in out.ticks.iter().zip(out.items.iter()).enumerate() {
        match *t {
            Some((true, n)) => {
                if let Some(o) = open {
                    add("tick-nesting", "start-inside-open-tick".into(), json!({"item": i, "open": o, "start": n}));
                }
                if let Some(l) = last_start {
                    if n <= l {
                        add("tick-order", "start-number-not-increasing".into(), json!({"item": i, "previous": l, "start": n}));
                    }
                }
                open = Some(n);
                last_start = Some(n);
            }
            Some((false, n)) => {
                if open != Some(n) {
                    let class = if open.is_none() { "end-without-start" } else { "end-closes-other-number" };
                    add("tick-nesting", class.into(), json!({"item": i, "open": open, "end": n}));
                }
                open = None;
            }
            None => {
                if k >= exp.items.len() {
                    add("record-differs", "more-items-than-records".into(), json!({"item": i, "got": s}));
                    break;
                }
                let e = &exp.items[k];
                k += 1;
                if *s != e.text {
                    let name = recs[e.rec].name();
                    let clause = match recs[e.rec] {
                        Rec::PlayerNew { .. } | Rec::PlayerDiff { .. } | Rec::PlayerOld { .. } | Rec::InputNew { .. } | Rec::InputDiff { .. } => {
                            "running-sum"
                        }
                        _ => "record-differs",
                    };
                    add(clause, name.into(), json!({"item": i, "record": e.rec, "got": s, "expected": e.text}));
                }
                match open {
                    None => add("tick-nesting", "record-outside-tick".into(), json!({"item": i, "got": s})),
                    Some(n) => {
                        let d = n as i64 - e.tick;
                        if d != drift {
                            let step = d - drift;
                            let class = if step == 1 && skip_then_not_above(recs, e.rec) {
                                "player-record-after-tick-skip-with-cid-not-above-previous|reader=doc+1".to_string()
                            } else {
                                format!(
                                    "other|{}|reader-{}-doc",
                                    if recs[e.rec].player_cid().is_some() { "player-record" } else { "other-record" },
                                    if step > 0 { "ahead-of" } else { "behind" }
                                )
                            };
                            add(
                                "tick-number",
                                class,
                                json!({"item": i, "record": e.rec, "record_text": recs[e.rec].brief(), "reader_tick": n,
                                       "documentation_tick": e.tick, "offset_before": drift}),
                            );
                            drift = d;
                        }
                    }
                }
            }
        }
    }
    if out.end == "finish" {
        if let Some(o) = open {
            add("tick-nesting", "tick-open-at-finish".into(), json!({"open": o}));
        }
        if k != exp.items.len() {
            add("record-differs", "fewer-items-than-records".into(), json!({"items": k, "records": exp.items.len()}));
        }
    } else {
        add("valid-stream-rejected", err_variant(&out.end), json!({"error": out.end, "items_before": out.items.len()}));
    }
    fs
}

/// Greedy minimisation of a message list that still shows `clause|class`.
fn minimize(version: u8, header_json: &str, recs: &[Rec], clause: &str, class: &str) -> Vec<Rec> {
    let mut cur: Vec<Rec> = recs.to_vec();
    let mut runs = 0;
    let shows = |recs: &[Rec]| -> bool {
        let exp = match th::expectation(recs) {
            Ok(e) => e,
            Err(_) => return false,
        };
        let h = Hist { version, mode: "min", size: Size::Short, header_json: header_json.to_string(), recs: recs.to_vec() };
        let (stream, _) = h.encode();
        match catch(|| run_reader(&stream, &Sched::Whole, None, true)) {
            Ok(out) => analyze(recs, &exp, &out).iter().any(|f| f.clause == clause && f.class == class),
            Err(_) => false,
        }
    };
    // chunks first, then single records
    let mut chunk = (cur.len() / 2).max(1);
    loop {
        let mut i = 0;
        let mut changed = false;
        while i + 1 < cur.len() && runs < 3000 {
            let end = (i + chunk).min(cur.len() - 1);
            let mut cand = cur.clone();
            cand.drain(i..end);
            runs += 1;
            if shows(&cand) {
                cur = cand;
                changed = true;
            } else {
                i += chunk;
            }
        }
        if chunk > 1 {
            chunk /= 2;
        } else if !changed || runs >= 3000 {
            break;
        }
    }
    cur
}

// ------------------------------------------------------------ schedule lists

fn schedules(rng: &mut Rng, len: usize, header_len: usize, size: Size, tier: Tier) -> Vec<Sched> {
    let mut v = vec![Sched::Fixed(1)];
    let rnd = |rng: &mut Rng, max: usize, z: u32| Sched::Random { seed: rng.u64(), max, zero_permille: z };
    if tier == Tier::Miri {
        v.push(rnd(rng, 1, 300));
        v.push(Sched::Fixed(7));
        for _ in 0..3 {
            v.push(Sched::TwoPiece(1 + rng.usize_below(len.max(2) - 1)));
        }
        v.push(rnd(rng, 4, 0));
        v.push(rnd(rng, 16, 200));
        v.push(rnd(rng, 64, 0));
        return v;
    }
    v.push(rnd(rng, 1, 300));
    for k in [2usize, 3, 7, 64] {
        v.push(Sched::Fixed(k));
    }
    let all_splits_below = match tier {
        Tier::Thorough => 2_000,
        Tier::Asan => 300,
        _ => 700,
    };
    if len <= all_splits_below {
        for p in 1..len {
            v.push(Sched::TwoPiece(p));
        }
    } else {
        for p in [1, 15, 16, 17, header_len - 1, header_len, header_len + 1, len - 2, len - 1] {
            if p >= 1 && p < len {
                v.push(Sched::TwoPiece(p));
            }
        }
        for _ in 0..16 {
            v.push(Sched::TwoPiece(1 + rng.usize_below(len - 1)));
        }
    }
    if matches!(size, Size::Long | Size::Huge) || len > 8_000 {
        // around the reader's initial buffer size
        for k in [4_096usize, 8_191, 8_192, 8_193, 10_000] {
            v.push(Sched::Fixed(k));
        }
        for p in [8_191usize, 8_192, 8_193] {
            if p < len {
                v.push(Sched::TwoPiece(p));
            }
        }
    }
    for (max, z) in [(2usize, 0u32), (4, 100), (16, 0), (64, 200), (400, 0), (5_000, 50), (20_000, 0), (64, 0)] {
        v.push(rnd(rng, max, z));
    }
    v
}

// ------------------------------------------------------------ one case

struct Case<'a> {
    hist: &'a Hist,
    stream: &'a [u8],
}

impl<'a> Case<'a> {
    fn data(&self, extra: Value) -> Value {
        json!({
            "version": self.hist.version,
            "mode": self.hist.mode,
            "header_json": self.hist.header_json,
            "records": recs_json(&self.hist.recs),
            "stream_hex": hex(self.stream),
            "variant": extra,
        })
    }
}

fn account(ctx: &mut Ctx, out: &Outcome) {
    ctx.count("schedules_run", 1);
    ctx.count("cb_reads", out.stats.reads);
    ctx.count("cb_zero_reads", out.stats.zero_reads);
    ctx.count("cb_eof_returned", out.stats.eofs);
    ctx.count("buffer_compactions", out.stats.compactions);
    ctx.count("buffer_growths", out.stats.growths);
    ctx.max("max_offered_buffer", out.stats.max_offer as u64);
    if out.stats.min_offer != usize::MAX {
        ctx.count("offers_of_one_byte", (out.stats.min_offer == 1) as u64);
    }
    ctx.count("items_total", out.items.len() as u64);
}

/// Oracle (a): `other` against the reference run of the same bytes.
fn compare(ctx: &mut Ctx, case: &Case, what: &str, bytes: &[u8], reference: &Outcome, other: &Outcome, sched: &Sched, variant: &Value) {
    let aspect = if reference.header != other.header {
        "header-differs"
    } else if reference.items != other.items {
        "items-differ"
    } else if reference.end != other.end {
        "end-differs"
    } else {
        return;
    };
    let first = reference.items.iter().zip(other.items.iter()).position(|(a, b)| a != b).unwrap_or(reference.items.len().min(other.items.len()));
    ctx.violation(
        "fragmentation",
        if reference.header.is_none() || other.header.is_none() { "Reader::new" } else { "Reader::read" },
        &format!("{}|{}|sched={}", what, aspect, sched.label()),
        json!({
            "schedule": sched.to_json(), "first_reads": other.stats.trace, "first_differing_item": first,
            "whole": {"n": reference.items.len(), "item": reference.items.get(first), "end": reference.end},
            "fragmented": {"n": other.items.len(), "item": other.items.get(first), "end": other.end},
        }),
        case.data(json!({"what": what, "variant": variant, "bytes_hex": if what == "valid" { Value::Null } else { json!(hex(bytes)) }})),
    );
}

/// Runs one schedule under `catch`; a panic is reported and `None` returned.
fn run_checked(ctx: &mut Ctx, case: &Case, what: &str, bytes: &[u8], sched: &Sched, fail_at: Option<usize>, variant: &Value) -> Option<Outcome> {
    match catch(|| run_reader(bytes, sched, fail_at, what != "corrupted")) {
        Ok(out) => {
            account(ctx, &out);
            if out.stats.empty_offers > 0 {
                ctx.violation("no-return", "Callback::read_at_most", "empty-buffer-offered", json!({"schedule": sched.to_json()}),
                    case.data(json!({"what": what, "variant": variant, "bytes_hex": hex(bytes)})));
            }
            ctx.count("accessor_checks", out.accessor_checks);
            if let Some(m) = &out.accessor_mismatch {
                ctx.violation("running-sum", "Reader::player_pos/input/cids", &format!("{}|{}", what, m), json!({"schedule": sched.to_json(), "mismatch": m}),
                    case.data(json!({"what": what, "variant": variant, "bytes_hex": hex(bytes)})));
            }
            if out.end == "item-limit-exceeded" {
                ctx.violation("no-return", "Reader::read", "items-without-consuming-input", json!({"schedule": sched.to_json(), "items": out.items.len()}),
                    case.data(json!({"what": what, "variant": variant, "bytes_hex": hex(bytes)})));
            }
            if out.end != "finish" {
                let v = err_variant(&out.end);
                ctx.seen("errors", &v);
                ctx.count(&format!("error.{}", v), 1);
            }
            Some(out)
        }
        Err(p) => {
            ctx.panic_violation(
                "Reader::read",
                &format!("{}|sched={}", what, sched.label()),
                &p,
                case.data(json!({"what": what, "variant": variant, "schedule": sched.to_json(), "bytes_hex": hex(bytes)})),
            );
            None
        }
    }
}

fn is_prefix(a: &[String], of: &[String]) -> bool {
    a.len() <= of.len() && a.iter().zip(of.iter()).all(|(x, y)| x == y)
}

fn pick_sched(rng: &mut Rng, len: usize) -> Sched {
    match rng.below(6) {
        0 => Sched::Fixed(1),
        1 => Sched::Fixed(1 + rng.usize_below(9)),
        2 => Sched::TwoPiece(1 + rng.usize_below(len.max(2) - 1)),
        3 => Sched::Random { seed: rng.u64(), max: 3, zero_permille: 200 },
        4 => Sched::Random { seed: rng.u64(), max: 40, zero_permille: 0 },
        _ => Sched::Random { seed: rng.u64(), max: 3_000, zero_permille: 100 },
    }
}

fn corrupt(rng: &mut Rng, stream: &[u8], header_len: usize) -> (Vec<u8>, String) {
    let mut v = stream.to_vec();
    let len = v.len();
    let pos = if rng.chance(4, 5) && header_len < len { header_len + rng.usize_below(len - header_len) } else { rng.usize_below(len) };
    const INTERESTING: [u8; 16] = [0x00, 0x01, 0x3f, 0x40, 0x41, 0x42, 0x43, 0x44, 0x45, 0x46, 0x49, 0x4a, 0x4b, 0x7f, 0x80, 0xff];
    let what = match rng.below(9) {
        0 => {
            v[pos] ^= 1 << rng.below(8);
            "bit-flip"
        }
        1 => {
            v[pos] = rng.u8();
            "byte-random"
        }
        2 | 3 => {
            v[pos] = *rng.pick(&INTERESTING);
            "byte-interesting"
        }
        4 => {
            let n = (2 + rng.usize_below(5)).min(len - pos);
            for b in &mut v[pos..pos + n] {
                *b = if rng.bool() { rng.u8() & 0x7f } else { rng.u8() };
            }
            "run-random"
        }
        5 => {
            v.insert(pos, if rng.bool() { *rng.pick(&INTERESTING) } else { rng.u8() });
            "insert-byte"
        }
        6 => {
            v.remove(pos);
            "delete-byte"
        }
        7 => {
            let n = (1 + rng.usize_below(40)).min(len - pos);
            let seg: Vec<u8> = v[pos..pos + n].to_vec();
            let at = header_len.min(len) + rng.usize_below(len - header_len.min(len) + 1);
            for (i, b) in seg.into_iter().enumerate() {
                v.insert(at + i, b);
            }
            "duplicate-segment"
        }
        _ => {
            // cut the tail and append small-int soup
            v.truncate(pos.max(header_len.min(len)));
            let n = rng.usize_below(40);
            for _ in 0..n {
                v.push(if rng.chance(1, 8) { rng.u8() } else { *rng.pick(&INTERESTING[..14]) });
            }
            "tail-soup"
        }
    };
    (v, format!("{}@{}", what, pos))
}

fn one_case(ctx: &mut Ctx, rng: &mut Rng) {
    let tier = ctx.tier;
    let mut g = Rng::new(rng.u64());
    let mut s = Rng::new(rng.u64());
    let mut c = Rng::new(rng.u64());
    let size = if tier == Tier::Miri {
        Size::Tiny
    } else {
        match g.below(100) {
            0..=54 => Size::Short,
            55..=87 => Size::Medium,
            88..=93 => Size::Long,
            _ => Size::Huge,
        }
    };
    let hist = gen_history(&mut g, size);
    let (stream, header_len) = hist.encode();
    let exp = th::expectation(&hist.recs).unwrap_or_else(|e| panic!("generator produced an invalid history: {:?}", e));
    let case = Case { hist: &hist, stream: &stream };
    let none = Value::Null;

    ctx.count("streams", 1);
    ctx.count(&format!("streams.{:?}", size), 1);
    ctx.count(&format!("streams.mode.{}", hist.mode), 1);
    ctx.count(&format!("streams.version{}", hist.version), 1);
    ctx.count("stream_bytes", stream.len() as u64);
    ctx.max("max_stream_len", stream.len() as u64);
    ctx.count("records", hist.recs.len() as u64);
    ctx.count("implicit_tick_advances", exp.implicit_advances);
    ctx.count("explicit_tick_skips", exp.explicit_skips);
    let pattern = (0..hist.recs.len()).filter(|&i| skip_then_not_above(&hist.recs, i)).count() as u64;
    ctx.count("pattern_player_after_skip_cid_not_above", pattern);
    for r in &hist.recs {
        ctx.count(&format!("rec.{}", r.name()), 1);
    }

    // ---- reference run: the whole stream in one read
    let reference = match run_checked(ctx, &case, "valid", &stream, &Sched::Whole, None, &none) {
        Some(o) => o,
        None => {
            ctx.case(None);
            return;
        }
    };
    for it in &reference.items {
        ctx.count(&format!("item.{}", kind_of(it)), 1);
    }
    if reference.end == "finish" {
        ctx.count("valid_streams_read_to_finish", 1);
    }
    for f in analyze(&hist.recs, &exp, &reference) {
        let sig = format!("{}|{}|{}|{}", ctx.property, f.clause, "Reader::read", f.class);
        let mut extra = json!({"oracle": f.clause});
        if !ctx.violations.contains_key(&sig) && matches!(f.clause, "tick-number" | "tick-nesting" | "tick-order" | "running-sum") && tier != Tier::Miri {
            let m = minimize(hist.version, &hist.header_json, &hist.recs, f.clause, &f.class);
            let mh = Hist { recs: m.clone(), header_json: hist.header_json.clone(), ..hist.clone() };
            let (ms, mhl) = mh.encode();
            extra = json!({"oracle": f.clause, "minimized_records": recs_json(&m), "minimized_stream_hex": hex(&ms),
                           "minimized_records_hex": hex(&ms[mhl..])});
        }
        ctx.violation(f.clause, "Reader::read", &f.class, f.detail.clone(), case.data(extra));
    }

    // ---- oracle (a): every schedule against the reference
    let scheds = schedules(&mut s, stream.len(), header_len, size, tier);
    for sched in &scheds {
        if let Sched::TwoPiece(_) = sched {
            ctx.count("two_piece_splits", 1);
        }
        ctx.count(&format!("sched.{}", sched.label()), 1);
        if let Some(out) = run_checked(ctx, &case, "valid", &stream, sched, None, &none) {
            compare(ctx, &case, "valid", &stream, &reference, &out, sched, &none);
        }
    }

    // ---- (d) truncations
    let every = match tier {
        Tier::Thorough => stream.len() <= 2_000,
        Tier::Quick => stream.len() <= 700,
        _ => false,
    };
    let cuts: Vec<usize> = if every {
        (0..stream.len()).collect()
    } else {
        let n = match tier {
            Tier::Miri => 4,
            Tier::Asan => 16,
            _ => 48,
        };
        let mut v: Vec<usize> = (0..n).map(|_| c.usize_below(stream.len())).collect();
        v.extend([0, 15, 16, header_len - 1, header_len, stream.len() - 1].iter().filter(|&&p| p < stream.len() && tier != Tier::Miri));
        v
    };
    for (j, &cut) in cuts.iter().enumerate() {
        let t = &stream[..cut];
        let variant = json!({"truncated_at": cut});
        let sched = if j % 3 == 0 { Sched::Whole } else { pick_sched(&mut c, cut) };
        ctx.count("truncations", 1);
        let out = match run_checked(ctx, &case, "truncated", t, &sched, None, &variant) {
            Some(o) => o,
            None => continue,
        };
        if out.end == "finish" {
            ctx.count("truncated_clean_end", 1);
        }
        // Same bytes as the full stream up to `cut`: nothing but a prefix of the
        // full stream's items can have been reported.
        if !is_prefix(&out.items, &reference.items) || (cut >= header_len && out.header != reference.header) {
            ctx.violation("fragmentation", "Reader::read", &format!("truncated|not-a-prefix-of-full-stream-items|sched={}", sched.label()),
                json!({"cut": cut, "schedule": sched.to_json(), "items": out.items.len(), "end": out.end}),
                case.data(variant.clone()));
        }
        if j % 8 == 1 || tier == Tier::Miri {
            let s2 = match sched {
                Sched::Whole => Sched::Fixed(1),
                _ => Sched::Whole,
            };
            if let Some(o2) = run_checked(ctx, &case, "truncated", t, &s2, None, &variant) {
                let (a, b, sc) = if let Sched::Whole = s2 { (&o2, &out, &sched) } else { (&out, &o2, &s2) };
                compare(ctx, &case, "truncated", t, a, b, sc, &variant);
            }
        }
    }

    // ---- (d) corruptions and garbage
    let ncorr = match tier {
        Tier::Miri => 4,
        Tier::Asan => 12,
        _ => {
            if stream.len() > 8_000 {
                12
            } else {
                28
            }
        }
    };
    for j in 0..ncorr {
        let (bytes, how) = if j % 14 == 13 {
            // pure garbage / garbage behind the magic
            let n = c.usize_below(80);
            let mut b = c.bytes(n);
            if c.bool() {
                let mut m = th::uuid_from_text(th::MAGIC_TEXT).to_vec();
                m.extend(b);
                b = m;
            }
            (b, "garbage".to_string())
        } else {
            corrupt(&mut c, &stream, header_len)
        };
        let w = th::walk(&bytes);
        if w.max_new_cid > CID_CAP || w.five_byte_cid {
            ctx.count("corruptions_skipped_big_cid", 1);
            continue;
        }
        ctx.count("corruptions", 1);
        ctx.count(&format!("corruption.{}", how.split('@').next().unwrap()), 1);
        let variant = json!({"corruption": how});
        let a = match run_checked(ctx, &case, "corrupted", &bytes, &Sched::Whole, None, &variant) {
            Some(o) => o,
            None => continue,
        };
        if a.end == "finish" {
            ctx.count("corrupted_still_read_to_finish", 1);
        }
        let s2 = pick_sched(&mut c, bytes.len());
        if let Some(b) = run_checked(ctx, &case, "corrupted", &bytes, &s2, None, &variant) {
            compare(ctx, &case, "corrupted", &bytes, &a, &b, &s2, &variant);
        }
    }

    // ---- callback errors surface as errors; what was reported before is a prefix
    let nfail = if tier == Tier::Miri { 1 } else { 3 };
    for _ in 0..nfail {
        let q = c.usize_below(stream.len());
        let sched = pick_sched(&mut c, stream.len());
        let variant = json!({"callback_error_at": q});
        ctx.count("cb_error_injections", 1);
        if let Some(out) = run_checked(ctx, &case, "callback-error", &stream, &sched, Some(q), &variant) {
            if !out.end.contains("Cb(Injected)") || !is_prefix(&out.items, &reference.items) {
                ctx.violation("fragmentation", "Reader::read", &format!("callback-error|not-surfaced-or-not-a-prefix|sched={}", sched.label()),
                    json!({"fail_at": q, "schedule": sched.to_json(), "end": out.end, "items": out.items.len()}), case.data(variant.clone()));
            }
        }
    }

    if ctx.want_sample() && hist.recs.len() >= 6 && hist.recs.len() <= 40 {
        ctx.sample(json!({
            "mode": hist.mode, "version": hist.version, "stream_len": stream.len(), "header_len": header_len,
            "records": recs_json(&hist.recs), "schedules": scheds.len(), "truncations": cuts.len(),
            "items_whole": reference.items, "final_documentation_tick": exp.final_tick,
        }));
    }
    let nontrivial = hist.recs.len() >= 4 && exp.implicit_advances + exp.explicit_skips >= 1;
    ctx.case(if nontrivial { Some(fnv1a(&stream)) } else { None });
}

/// Miri extra: a stream longer than the reader's initial buffer, fed in a few
/// large pieces, so that the drain and the reallocation happen while items
/// borrowed from the buffer have been handed out before.
fn long_lite(ctx: &mut Ctx, rng: &mut Rng) {
    let mut recs = vec![
        Rec::Join { cid: 0 },
        Rec::PlayerNew { cid: 0, x: 5, y: -5 },
        Rec::Message { cid: 0, msg: rng.bytes(2_000) },
        Rec::PlayerDiff { cid: 0, dx: 1, dy: 1 },
        Rec::Message { cid: 0, msg: rng.bytes(8_300) },
        Rec::InputNew { cid: 0, v: [1; th::INPUT_LEN] },
        Rec::Message { cid: 0, msg: rng.bytes(3_000) },
        Rec::InputDiff { cid: 0, d: [-1; th::INPUT_LEN] },
        Rec::PlayerOld { cid: 0 },
    ];
    recs.push(Rec::Finish);
    let mut g = Gen { rng, version: 2, size: Size::Tiny, huge_left: 0, cids: vec![0], has_input: Default::default() };
    let hist = Hist { version: 2, mode: "long-lite", size: Size::Huge, header_json: g.header(), recs };
    let (stream, _) = hist.encode();
    let exp = th::expectation(&hist.recs).unwrap();
    let case = Case { hist: &hist, stream: &stream };
    let none = Value::Null;
    ctx.count("streams", 1);
    ctx.count("streams.long-lite", 1);
    let reference = match run_checked(ctx, &case, "valid", &stream, &Sched::Whole, None, &none) {
        Some(o) => o,
        None => return,
    };
    for f in analyze(&hist.recs, &exp, &reference) {
        ctx.violation(f.clause, "Reader::read", &f.class, f.detail.clone(), case.data(none.clone()));
    }
    for sched in [Sched::Fixed(3_000), Sched::Fixed(8_192), Sched::TwoPiece(9_000)] {
        if let Some(out) = run_checked(ctx, &case, "valid", &stream, &sched, None, &none) {
            compare(ctx, &case, "valid", &stream, &reference, &out, &sched, &none);
        }
    }
    ctx.case(Some(fnv1a(&stream)));
}

fn main() {
    let mut ctx = Ctx::from_args("C17");
    ctx.rule = "history: PRNG server history (mode 'server': ticks with join/drop/spawn/die, player records in ascending client-id order per tick, inputs, messages, console commands, extension messages, TICK_SKIP only where the document's implicit rule needs it or redundantly; mode 'format': any valid message sequence incl. consecutive tick skips and unordered ids) encoded by the model writer of refmodel/teehistorian.rs; each history is read whole (reference), byte-by-byte, with fixed chunk sizes, every two-piece split (streams <= 700 bytes quick / 2000 thorough, else 25 splits), PRNG chunk sizes with zero-length reads, then truncated at every (short) or 48 PRNG positions, corrupted 28 times and hit by 3 injected callback errors. Non-trivial = at least 4 messages and at least one tick advance; distinct = hash of the stream bytes".into();
    ctx.assumptions = vec![
        "refmodel/teehistorian.rs is a faithful reading of doc/teehistorian.md (message layouts, tick pseudo-code)".into(),
        "a read result of Some(0) means 'nothing yet', None means end of file (raw.rs Callback doc comment); zero-length reads are injected at most 3 in a row".into(),
        "the header JSON carries the keys the DDNet server writes (the document only requires 'version'); header content is compared across schedules only".into(),
        "corrupted inputs whose PLAYER_NEW/INPUT_NEW client id exceeds 2^16 (or is encoded in five bytes) are skipped: per-client state allocation is outside the property".into(),
        "the tick of a record is compared as reader_tick - documentation_tick; after a reported deviation the new offset is carried forward so that every further deviation is reported separately".into(),
    ];
    ctx.arm("history", 1500.0);
    let n = ctx.volume(128, 6_000, 1, 24);
    ctx.run_cases("history", n, |ctx, _idx, rng| one_case(ctx, rng));
    if ctx.tier == Tier::Miri {
        ctx.run_cases("long-lite", 1, |ctx, _idx, rng| long_lite(ctx, rng));
    }
    ctx.disarm();
    ctx.finish();
}
