//! C13 — client and server snapshot state never diverge silently.
//!
//! Sender = Storage used exactly as server/src/main.rs does; receiver =
//! Manager. Snapshot messages travel one way and acknowledged ticks the other
//! way over lossy, duplicating, reordering channels. Whenever the manager
//! accepts a snapshot for tick T it must equal, item for item, what the sender
//! built for T; otherwise it reports an error and ack_tick does not become T.

use libtw2_gamenet_common::snap_obj::TypeId;
use libtw2_gamenet_snap as msg;
use libtw2_gamenet_snap::SnapMsg;
use libtw2_packer::with_packer;
use libtw2_snapshot::snap::delta_chunks;
use libtw2_snapshot::Manager;
use libtw2_snapshot::Storage;
use serde_json::json;
use std::collections::BTreeMap;
use std::collections::BTreeSet;
use uuid::Uuid;
use verif_harness::catch;
use verif_harness::snapgen::obj_size;
use verif_harness::snapgen::value;
use verif_harness::Ctx;
use verif_harness::Rng;
use verif_harness::Tier;
use verif_harness::Warnings;

type World = BTreeMap<(TypeId, u16), Vec<i32>>;

#[derive(Clone, Debug)]
enum Msg {
    Empty { tick: i32, rel: i32 },
    Single { tick: i32, rel: i32, crc: i32, data: Vec<u8> },
    Part { tick: i32, rel: i32, crc: i32, num_parts: i32, part: i32, data: Vec<u8> },
}
impl Msg {
    fn tick(&self) -> i32 {
        match self {
            Msg::Empty { tick, .. } | Msg::Single { tick, .. } | Msg::Part { tick, .. } => *tick,
        }
    }
}

struct TypeSpec {
    t: TypeId,
    size: usize,
}

fn type_specs(rng: &mut Rng) -> Vec<TypeSpec> {
    let mut v = vec![
        TypeSpec { t: TypeId::Ordinal(1), size: 2 },
        TypeSpec { t: TypeId::Ordinal(2), size: 3 },
        TypeSpec { t: TypeId::Ordinal(3), size: 1 },
        TypeSpec { t: TypeId::Ordinal(30), size: 4 },
        TypeSpec { t: TypeId::Ordinal(100), size: 0 },
        TypeSpec { t: TypeId::Ordinal(0x3fff), size: 6 },
    ];
    let nu = rng.range(0, 5);
    for i in 0..nu {
        let mut b = [0u8; 16];
        rng.fill(&mut b);
        v.push(TypeSpec { t: TypeId::Uuid(Uuid::from_bytes(b)), size: 1 + (i as usize % 4) });
    }
    v
}

fn evolve(rng: &mut Rng, w: &mut World, specs: &[TypeSpec], churn: u64, target: usize) {
    let keys: Vec<(TypeId, u16)> = w.keys().cloned().collect();
    for k in keys {
        let r = rng.below(100);
        if r < churn / 2 {
            w.remove(&k);
        } else if r < churn * 2 {
            for x in w.get_mut(&k).unwrap().iter_mut() {
                if rng.bool() {
                    *x = x.wrapping_add(rng.range(-10, 10) as i32);
                } else if rng.chance(1, 8) {
                    *x = value(rng);
                }
            }
        }
    }
    if w.len() < target {
        let adds = rng.range(0, ((target - w.len()) / 3).max(1) as i64) as usize;
        for _ in 0..adds {
            let s = rng.pick(specs);
            let id = if rng.bool() { rng.below(16) as u16 } else { rng.below(0x10000) as u16 };
            w.entry((s.t, id)).or_insert_with(|| (0..s.size).map(|_| value(rng)).collect());
        }
    }
    let _ = churn;
}

#[derive(Default)]
struct Stats {
    ticks: u64,
    accepted: u64,
    errors: BTreeMap<String, u64>,
    full_after_unknown: u64,
    multi_part: u64,
    deltas_vs_base: u64,
    deltas_vs_empty: u64,
    acks_delivered: u64,
    acks_unknown: u64,
    max_base_distance: u64,
    uuid_types_live: u64,
    acks_blacked_out: u64,
    acks_while_building: u64,
    snap_empty_sent: u64,
}

fn one_history(ctx: &mut Ctx, rng: &mut Rng, ticks: usize) {
    let specs = type_specs(rng);
    let loss = *rng.pick(&[0u64, 5, 20, 50]);
    let dup = *rng.pick(&[0u64, 5, 20]);
    let reorder = *rng.pick(&[1usize, 2, 8]);
    let ack_loss = *rng.pick(&[0u64, 10, 50, 90]);
    let churn = *rng.pick(&[2u64, 10, 30, 60]);
    let target = *rng.pick(&[3usize, 20, 80, 250, 700]);
    // a period during which every acknowledgement is lost (the sender keeps diffing against an ever older base)
    let blackout: Option<(usize, usize)> = if rng.chance(1, 3) && ticks > 200 { let a = rng.usize_below(ticks - 170); Some((a, a + rng.range(110, 165) as usize)) } else { None };
    let vanilla_empty = rng.bool();
    let mut world = World::new();
    let mut sender = Storage::new();
    let mut receiver = Manager::new();
    let mut built: BTreeMap<i32, World> = BTreeMap::new();
    let mut accepted: BTreeSet<i32> = BTreeSet::new();
    let mut to_client: Vec<Msg> = Vec::new();
    let mut to_server: Vec<i32> = Vec::new();
    let mut tick: i32 = *rng.pick(&[0, 1, 2, 1000, i32::MAX - 100_000]);
    let mut st = Stats::default();
    let mut log: Vec<serde_json::Value> = Vec::new();
    let params = json!({"blackout": blackout, "vanilla_empty": vanilla_empty, "loss": loss, "dup": dup, "reorder": reorder, "ack_loss": ack_loss, "churn": churn, "target": target, "uuid_types": specs.iter().filter(|s| matches!(s.t, TypeId::Uuid(_))).count()});
    let mut violated = false;
    for step in 0..ticks {
        if violated {
            break;
        }
        tick += rng.range(1, 3) as i32;
        // the world changes, stands still, or returns to the state of the acknowledged base
        match rng.below(10) {
            0 | 1 => {}
            2 => match sender.delta_tick().and_then(|t| built.get(&t)) {
                Some(w) => world = w.clone(),
                None => evolve(rng, &mut world, &specs, churn, target),
            },
            _ => evolve(rng, &mut world, &specs, churn, target),
        }
        // ---- sender, as server/src/main.rs does
        let early_ack = rng.chance(1, 4) && !to_server.is_empty();
        let early_ack_value = if early_ack { Some(to_server.remove(0)) } else { None };
        if early_ack {
            st.acks_while_building += 1;
        }
        let r = catch(|| -> Result<(Vec<Msg>, bool), String> {
            let mut builder = sender.new_builder();
            // An acknowledgement may be processed while the snapshot is being
            // built (the API does not forbid it); the base tick is read afterwards.
            if early_ack {
                if let Some(ack) = early_ack_value {
                    let mut w = Warnings::new();
                    let _ = sender.set_delta_tick(&mut w, ack);
                }
            }
            let delta_tick = sender.delta_tick().unwrap_or(-1);
            // items in a varying order, as a game world iterates
            let mut keys: Vec<&(TypeId, u16)> = world.keys().collect();
            if rng.bool() {
                keys.reverse();
            }
            for k in keys {
                builder.add_item(k.0, k.1, &world[k]).map_err(|e| format!("builder:{:?}", e))?;
            }
            let snap = builder.finish();
            let crc = snap.crc();
            let delta = sender.add_snap(tick, snap);
            let mut bytes: Vec<u8> = Vec::with_capacity(256 * 1024);
            with_packer(&mut bytes, |p| delta.write(obj_size, p).map(|_| ())).map_err(|_| "delta-too-large".to_string())?;
            // A vanilla server sends SnapEmpty for a delta without changes (the
            // library's own writer always emits the three-integer header).
            let unchanged = bytes.len() == 3 && bytes.iter().all(|&b| b == 0);
            if unchanged && vanilla_empty {
                bytes.clear();
            }
            let msgs: Vec<Msg> = delta_chunks(tick, delta_tick, &bytes, crc)
                .map(|m| match m {
                    SnapMsg::SnapEmpty(e) => Msg::Empty { tick: e.tick, rel: e.delta_tick },
                    SnapMsg::SnapSingle(s) => Msg::Single { tick: s.tick, rel: s.delta_tick, crc: s.crc, data: s.data.to_vec() },
                    SnapMsg::Snap(s) => Msg::Part { tick: s.tick, rel: s.delta_tick, crc: s.crc, num_parts: s.num_parts, part: s.part, data: s.data.to_vec() },
                })
                .collect();
            Ok((msgs, delta_tick >= 0))
        });
        st.ticks += 1;
        let msgs = match r {
            Err(p) => {
                ctx.panic_violation("sender (Storage::new_builder/add_snap/Delta::write/delta_chunks)", if specs.len() > 6 { "world-with-uuid-types" } else { "ordinal-types-only" }, &p, json!({"params": params, "tick": tick, "log_tail": log[log.len().saturating_sub(60)..].to_vec()}));
                return;
            }
            Ok(Err(e)) => {
                ctx.count(&format!("sender_refused[{}]", e.split(':').next().unwrap()), 1);
                continue;
            }
            Ok(Ok((m, vs_base))) => {
                if vs_base {
                    st.deltas_vs_base += 1;
                } else {
                    st.deltas_vs_empty += 1;
                }
                m
            }
        };
        built.insert(tick, world.clone());
        log.push(json!({"tick": tick, "items": world.len(), "messages": msgs.len(), "base": sender.delta_tick()}));
        if msgs.len() > 1 {
            st.multi_part += 1;
        }
        if matches!(msgs.first(), Some(Msg::Empty { .. })) {
            st.snap_empty_sent += 1;
        }
        st.uuid_types_live = st.uuid_types_live.max(world.keys().filter(|k| matches!(k.0, TypeId::Uuid(_))).map(|k| k.0).collect::<BTreeSet<_>>().len() as u64);
        for m in msgs {
            if rng.below(100) < loss {
                continue;
            }
            if rng.below(100) < dup {
                to_client.push(m.clone());
            }
            to_client.push(m);
        }
        // ---- deliver some snapshot messages
        let ndeliver = rng.range(0, 2 + to_client.len() as i64) as usize;
        for _ in 0..ndeliver {
            if to_client.is_empty() {
                break;
            }
            let i = rng.usize_below(to_client.len().min(reorder));
            let m = to_client.remove(i);
            let t = m.tick();
            let r = catch(|| {
                let mut w = Warnings::new();
                let res = match &m {
                    Msg::Empty { tick, rel } => receiver.snap_empty(&mut w, obj_size, msg::SnapEmpty { tick: *tick, delta_tick: *rel }),
                    Msg::Single { tick, rel, crc, data } => receiver.snap_single(&mut w, obj_size, msg::SnapSingle { tick: *tick, delta_tick: *rel, crc: *crc, data }),
                    Msg::Part { tick, rel, crc, num_parts, part, data } => receiver.snap(&mut w, obj_size, msg::Snap { tick: *tick, delta_tick: *rel, num_parts: *num_parts, part: *part, crc: *crc, data }),
                };
                match res {
                    Ok(Some(s)) => Ok(Some(s.items().map(|i| ((i.type_id, i.id), i.data.to_vec())).collect::<World>())),
                    Ok(None) => Ok(None),
                    Err(e) => Err(format!("{:?}", e)),
                }
            });
            let case = || json!({"params": params, "message_tick": t, "log_tail": log[log.len().saturating_sub(60)..].to_vec()});
            match r {
                Err(p) => {
                    ctx.panic_violation("receiver (Manager::snap*)", "honest-sender", &p, case());
                    return;
                }
                Ok(Ok(Some(got))) => {
                    st.accepted += 1;
                    if accepted.contains(&t) {
                        ctx.violation("divergence", "Manager::snap*", "tick-accepted-twice", json!({"tick": t}), case());
                        violated = true;
                    }
                    accepted.insert(t);
                    match built.get(&t) {
                        Some(want) if *want == got => {}
                        Some(want) => {
                            let what = if want.len() != got.len() { "item-set" } else { "item-data" };
                            ctx.violation("divergence", "Manager::snap*", &format!("accepted-snapshot-differs|{}", what), json!({"tick": t, "want_items": want.len(), "got_items": got.len()}), case());
                            violated = true;
                        }
                        None => {
                            ctx.violation("divergence", "Manager::snap*", "accepted-unknown-tick", json!({"tick": t}), case());
                            violated = true;
                        }
                    }
                    if receiver.ack_tick() != Some(t) {
                        ctx.violation("divergence", "Manager::ack_tick", "not-advanced-after-accept", json!({"tick": t, "ack": receiver.ack_tick()}), case());
                        violated = true;
                    }
                }
                Ok(Ok(None)) => {}
                Ok(Err(e)) => {
                    *st.errors.entry(e.clone()).or_insert(0) += 1;
                    if !accepted.contains(&t) && receiver.ack_tick() == Some(t) {
                        ctx.violation("divergence", "Manager::ack_tick", "advanced-to-rejected-tick", json!({"tick": t, "error": e}), case());
                        violated = true;
                    }
                    if e.contains("UnknownSnap") {
                        st.full_after_unknown += 1;
                    }
                }
            }
            // the client reports its acknowledged tick with its next input
            let in_blackout = blackout.map(|(a, b)| step >= a && step < b).unwrap_or(false);
            if in_blackout {
                st.acks_blacked_out += 1;
            } else if rng.below(100) >= ack_loss {
                let ack = receiver.ack_tick().unwrap_or(-1);
                to_server.push(ack);
                if rng.chance(1, 10) {
                    to_server.push(ack);
                }
            }
        }
        // ---- deliver some acks (possibly old / reordered / for dropped snapshots)
        let nacks = rng.range(0, 1 + to_server.len() as i64) as usize;
        for _ in 0..nacks {
            if to_server.is_empty() {
                break;
            }
            let i = rng.usize_below(to_server.len().min(reorder));
            let ack = to_server.remove(i);
            let r = catch(|| {
                let mut w = Warnings::new();
                sender.set_delta_tick(&mut w, ack).is_ok()
            });
            st.acks_delivered += 1;
            match r {
                Err(p) => {
                    ctx.panic_violation("sender (Storage::set_delta_tick)", "ack", &p, json!({"params": params, "ack": ack}));
                    return;
                }
                Ok(false) => st.acks_unknown += 1,
                Ok(true) => {
                    if ack >= 0 {
                        st.max_base_distance = st.max_base_distance.max((tick as i64 - ack as i64) as u64);
                    }
                }
            }
            log.push(json!({"ack_delivered": ack}));
        }
    }
    ctx.count("histories", 1);
    ctx.count("ticks", st.ticks);
    ctx.count("accepted_snapshots", st.accepted);
    ctx.count("multi_part_snapshots", st.multi_part);
    ctx.count("deltas_vs_acked_base", st.deltas_vs_base);
    ctx.count("deltas_vs_empty", st.deltas_vs_empty);
    ctx.count("acks_delivered", st.acks_delivered);
    ctx.count("acks_for_unknown_or_dropped_snapshots", st.acks_unknown);
    ctx.count("resyncs_after_unknown_base", st.full_after_unknown);
    ctx.count("acks_lost_in_blackout", st.acks_blacked_out);
    ctx.count("acks_processed_while_building", st.acks_while_building);
    ctx.count("snap_empty_messages_sent", st.snap_empty_sent);
    ctx.max("max_base_tick_distance", st.max_base_distance);
    ctx.max("max_uuid_types_live", st.uuid_types_live);
    for (e, n) in &st.errors {
        ctx.count(&format!("receiver_error[{}]", e), *n);
        ctx.seen("receiver_errors", e);
    }
    let nontrivial = st.accepted >= 3;
    ctx.case(if nontrivial { Some(verif_harness::fnv1a(format!("{:?}|{}|{}", params, st.accepted, st.acks_delivered).as_bytes())) } else { None });
    if ctx.want_sample() && nontrivial {
        ctx.sample(json!({"params": params, "ticks": st.ticks, "accepted": st.accepted, "errors": st.errors, "first_steps": log[..log.len().min(20)].to_vec()}));
    }
}

fn main() {
    let mut ctx = Ctx::from_args("C13");
    ctx.rule = "a case = one history: a world of typed items (ordinal types with pre-agreed and explicit sizes, 0-4 UUID types) evolves for 50-400 ticks; per tick the sender builds, stores, diffs and splits exactly as server/src/main.rs; snapshot messages and acknowledgements travel over channels with per-history loss 0-50% / 0-90%, duplication 0-20%, reorder window 1-8; non-trivial = at least 3 snapshots accepted; distinct = hash of channel parameters and acceptance counts".into();
    ctx.assumptions = vec![
        "the sender follows the storage API as server/src/main.rs does: new_builder, delta_tick, add_snap, Delta::write, delta_chunks; set_delta_tick with whatever acknowledgement arrives".into(),
        "an Err for a message of tick T must leave ack_tick != Some(T) unless T had been accepted before (a late duplicate of an accepted tick is refused as old)".into(),
    ];
    ctx.arm("c13", 1800.0);
    let n = ctx.volume(400, 12_000, 4, 6);
    ctx.run_cases("history", n, |ctx, _i, rng| {
        let ticks = match ctx.tier {
            Tier::Miri => 12,
            _ => *rng.pick(&[50usize, 150, 400, 400]),
        };
        one_history(ctx, rng, ticks);
    });
    ctx.disarm();
    ctx.finish();
}
