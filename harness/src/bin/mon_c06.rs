//! C06 — the packet reader is total and stays inside its buffers.
//!
//! Hostile inputs (exhaustive short strings, corrupted/truncated/extended valid
//! packets, decompression bombs, truncated Huffman streams) go through
//! Packet::read / read_panic_on_decompression / decompress_if_needed /
//! is_initial and the chunk iterator. Oracles: returns (CPU watchdog) without
//! panic; every returned slice lies inside the input or the canary-guarded
//! scratch buffer, whose guard stays intact; closure: an accepted value is
//! written out again and read back equal.

use libtw2_net::protocol as p6;
use libtw2_net::protocol7 as p7;
use serde_json::json;
use verif_harness::canary::inside;
use verif_harness::canary::Canary;
use verif_harness::catch;
use verif_harness::hex;
use verif_harness::pktgen::*;
use verif_harness::Ctx;
use verif_harness::Rng;
use verif_harness::Tier;
use verif_harness::Warnings;

fn len_class(n: usize) -> &'static str {
    match n {
        0..=2 => "0..2",
        3..=6 => "3..6",
        7..=11 => "7..11",
        12..=1400 => "12..1400",
        _ => ">1400",
    }
}


/// Scratch buffer capacity for an input: the documented minimum (exactly
/// MAX_PACKETSIZE), one byte more, or larger than any packet, chosen
/// deterministically from the input bytes.
fn scratch_cap(bytes: &[u8]) -> usize {
    match verif_harness::fnv1a(bytes) % 5 {
        0 => 1400,
        1 => 1401,
        2 => 2048,
        3 => 4096,
        _ => 16384,
    }
}

struct Outcome {
    accepted: bool,
}

fn check6(ctx: &mut Ctx, bytes: &[u8], hint: Option<bool>, origin: &str) -> Outcome {
    let case = json!({"version": "0.6", "bytes": hex(bytes), "hint": hint, "origin": origin});
    let class = format!("0.6|hint={:?}|len={}|{}", hint, len_class(bytes.len()), origin);
    let mut can = Canary::new(scratch_cap(bytes), 0x5c);
    let r = catch(|| {
        let mut w = Warnings::new();
        let scratch_range = can.range();
        let res = p6::Packet::read(&mut w, bytes, hint, can.window());
        // provenance + owned copy while the borrow lives
        match res {
            Err(e) => (Err(format!("{:?}", e)), true, 0usize),
            Ok(p) => {
                let ok = std::cell::Cell::new(true);
                let mut nchunks = 0;
                let in_scratch = |s: &[u8]| s.is_empty() || (s.as_ptr() as usize >= scratch_range.0 && s.as_ptr() as usize + s.len() <= scratch_range.1);
                let chk = |s: &[u8]| {
                    if !(inside(s, bytes) || in_scratch(s)) {
                        ok.set(false);
                    }
                };
                match p {
                    p6::Packet::Connless(d) => chk(d),
                    p6::Packet::Connected(c) => match c.type_ {
                        p6::ConnectedPacketType::Control(p6::ControlPacket::Close(r)) => chk(r),
                        p6::ConnectedPacketType::Control(_) => {}
                        p6::ConnectedPacketType::Chunks(_, n, payload) => {
                            chk(payload);
                            let mut it = p6::ChunksIter::new(payload, n);
                            let mut guard = 0;
                            while let Some(ch) = it.next_warn(&mut w) {
                                chk(ch.data);
                                if !inside(ch.data, payload) {
                                    ok.set(false);
                                }
                                nchunks += 1;
                                guard += 1;
                                if guard <= 6 {
                                    // the partly consumed iterator is still a well-behaved (exact-size) iterator
                                    let l = it.len();
                                    let rest: Vec<_> = it.clone().collect();
                                    if rest.len() != l || rest.iter().any(|c| !inside(c.data, payload)) {
                                        ok.set(false);
                                    }
                                }
                                if guard > 5000 {
                                    ok.set(false);
                                    break;
                                }
                            }
                            // plain iterator agrees
                            let cnt = p6::ChunksIter::new(payload, n).count();
                            if cnt != nchunks {
                                ok.set(false);
                            }
                        }
                    },
                }
                (Ok(Pkt6::from_lib(&p)), ok.get(), nchunks)
            }
        }
    });
    ctx.count("reads_v6", 1);
    let (res, prov_ok, nchunks) = match r {
        Ok(x) => x,
        Err(p) => {
            ctx.panic_violation("Packet::read", &class, &p, case);
            return Outcome { accepted: false };
        }
    };
    ctx.count("chunks_iterated", nchunks as u64);
    if !can.intact() {
        ctx.violation("provenance", "Packet::read", &format!("{}|scratch-guard-overwritten", class), json!({}), case.clone());
    }
    if !prov_ok {
        ctx.violation("provenance", "Packet::read", &format!("{}|slice-outside-input-and-scratch", class), json!({}), case.clone());
    }
    match res {
        Err(e) => {
            ctx.seen("errors_v6", &e);
            Outcome { accepted: false }
        }
        Ok(val) => {
            ctx.count("accepted_v6", 1);
            ctx.seen("accepted_kinds_v6", &val.kind());
            // closure
            let r2 = catch(|| {
                let mut wbuf = [0u8; 1400];
                let bytes2 = val.write(&mut wbuf[..])?;
                let mut rbuf = [0u8; 1400];
                let mut w = Warnings::new();
                let back = p6::Packet::read(&mut w, &bytes2, val.has_token().or(hint), &mut rbuf[..]).map(|q| Pkt6::from_lib(&q)).map_err(|e| format!("reread:{:?}", e))?;
                Ok::<_, String>((bytes2, back))
            });
            let kind = val.kind();
            match r2 {
                Err(p) => ctx.panic_violation("Packet::write", &format!("0.6|closure|{}", kind), &p, case),
                Ok(Err(e)) => {
                    let lc = match &val {
                        Pkt6::Connless(d) => format!("|payload-len={}", if d.len() > 1390 { ">1390" } else { "<=1390" }),
                        _ => String::new(),
                    };
                    ctx.violation("closure", "Packet::write", &format!("0.6|{}|{}{}", kind, e, lc), json!({"value": val.to_json()}), case)
                }
                Ok(Ok((_b2, back))) => {
                    if back != val {
                        ctx.violation("closure", "Packet::read", &format!("0.6|{}|reread-differs", kind), json!({"value": val.to_json(), "back": back.to_json()}), case);
                    }
                }
            }
            Outcome { accepted: true }
        }
    }
}

fn check7(ctx: &mut Ctx, bytes: &[u8], origin: &str) -> Outcome {
    let case = json!({"version": "0.7", "bytes": hex(bytes), "origin": origin});
    let class = format!("0.7|len={}|{}", len_class(bytes.len()), origin);
    let mut can = Canary::new(scratch_cap(bytes), 0x5c);
    let r = catch(|| {
        let mut w = Warnings::new();
        let scratch_range = can.range();
        let res = p7::Packet::read(&mut w, bytes, can.window());
        match res {
            Err(e) => (Err(format!("{:?}", e)), true, 0usize),
            Ok(p) => {
                let ok = std::cell::Cell::new(true);
                let mut nchunks = 0;
                let in_scratch = |s: &[u8]| s.is_empty() || (s.as_ptr() as usize >= scratch_range.0 && s.as_ptr() as usize + s.len() <= scratch_range.1);
                let chk = |s: &[u8]| {
                    if !(inside(s, bytes) || in_scratch(s)) {
                        ok.set(false);
                    }
                };
                match p {
                    p7::Packet::Connless(d) => chk(d.payload),
                    p7::Packet::Connected(c) => match c.type_ {
                        p7::ConnectedPacketType::Control(p7::ControlPacket::Close(r)) => chk(r),
                        p7::ConnectedPacketType::Control(_) => {}
                        p7::ConnectedPacketType::Chunks(_, n, payload) => {
                            chk(payload);
                            let mut it = p7::ChunksIter::new(payload, n);
                            let mut guard = 0;
                            while let Some(ch) = it.next_warn(&mut w) {
                                chk(ch.data);
                                if !inside(ch.data, payload) {
                                    ok.set(false);
                                }
                                nchunks += 1;
                                guard += 1;
                                if guard <= 6 {
                                    // the partly consumed iterator is still a well-behaved (exact-size) iterator
                                    let l = it.len();
                                    let rest: Vec<_> = it.clone().collect();
                                    if rest.len() != l || rest.iter().any(|c| !inside(c.data, payload)) {
                                        ok.set(false);
                                    }
                                }
                                if guard > 5000 {
                                    ok.set(false);
                                    break;
                                }
                            }
                            let cnt = p7::ChunksIter::new(payload, n).count();
                            if cnt != nchunks {
                                ok.set(false);
                            }
                        }
                    },
                }
                (Ok(Pkt7::from_lib(&p)), ok.get(), nchunks)
            }
        }
    });
    ctx.count("reads_v7", 1);
    let (res, prov_ok, nchunks) = match r {
        Ok(x) => x,
        Err(p) => {
            ctx.panic_violation("Packet::read", &class, &p, case);
            return Outcome { accepted: false };
        }
    };
    ctx.count("chunks_iterated", nchunks as u64);
    if !can.intact() {
        ctx.violation("provenance", "Packet::read", &format!("{}|scratch-guard-overwritten", class), json!({}), case.clone());
    }
    if !prov_ok {
        ctx.violation("provenance", "Packet::read", &format!("{}|slice-outside-input-and-scratch", class), json!({}), case.clone());
    }
    match res {
        Err(e) => {
            ctx.seen("errors_v7", &e);
            Outcome { accepted: false }
        }
        Ok(val) => {
            ctx.count("accepted_v7", 1);
            ctx.seen("accepted_kinds_v7", &val.kind());
            let r2 = catch(|| {
                let mut wbuf = [0u8; 1400];
                let bytes2 = val.write(&mut wbuf[..])?;
                let mut rbuf = [0u8; 1400];
                let mut w = Warnings::new();
                let back = p7::Packet::read(&mut w, &bytes2, &mut rbuf[..]).map(|q| Pkt7::from_lib(&q)).map_err(|e| format!("reread:{:?}", e))?;
                Ok::<_, String>((bytes2, back))
            });
            let kind = val.kind();
            match r2 {
                Err(p) => ctx.panic_violation("Packet::write", &format!("0.7|closure|{}", kind), &p, case),
                Ok(Err(e)) => {
                    let lc = match &val {
                        Pkt7::Connless { payload, .. } => format!("|payload-len={}", if payload.len() > 1390 { ">1390" } else { "<=1390" }),
                        _ => String::new(),
                    };
                    ctx.violation("closure", "Packet::write", &format!("0.7|{}|{}{}", kind, e, lc), json!({"value": val.to_json()}), case)
                }
                Ok(Ok((_b2, back))) => {
                    if back != val {
                        ctx.violation("closure", "Packet::read", &format!("0.7|{}|reread-differs", kind), json!({"value": val.to_json(), "back": back.to_json()}), case);
                    }
                }
            }
            Outcome { accepted: true }
        }
    }
}

/// The auxiliary entry points.
fn aux(ctx: &mut Ctx, bytes: &[u8], origin: &str) {
    let case = json!({"bytes": hex(bytes), "origin": origin});
    let lc = len_class(bytes.len());
    if let Err(p) = catch(|| p6::Packet::is_initial(bytes)) {
        ctx.panic_violation("Packet::is_initial", &format!("0.6|len={}", lc), &p, case.clone());
    }
    for v7 in [false, true] {
        let vn = if v7 { "0.7" } else { "0.6" };
        let mut can = Canary::new(scratch_cap(bytes), 0x3a);
        let r = catch(|| if v7 { p7::Packet::decompress_if_needed(bytes, can.window()).map_err(|e| format!("{:?}", e)) } else { p6::Packet::decompress_if_needed(bytes, can.window()).map_err(|e| format!("{:?}", e)) });
        match r {
            Err(p) => ctx.panic_violation("Packet::decompress_if_needed", &format!("{}|len={}", vn, lc), &p, case.clone()),
            Ok(res) => {
                if let Err(e) = &res {
                    ctx.seen("decompress_errors", e);
                }
                if !can.intact() {
                    ctx.violation("provenance", "Packet::decompress_if_needed", &format!("{}|scratch-guard-overwritten", vn), json!({}), case.clone());
                }
            }
        }
        // read_panic_on_decompression: documented precondition = not a compressed packet
        let compressed = if v7 {
            !bytes.is_empty() && (bytes[0] >> 2) & p7::PACKETFLAG_COMPRESSION != 0 && (bytes[0] >> 2) & p7::PACKETFLAG_CONNLESS == 0
        } else {
            !bytes.is_empty() && (bytes[0] >> 4) & p6::PACKETFLAG_COMPRESSION != 0 && (bytes[0] >> 4) & p6::PACKETFLAG_CONNLESS == 0
        };
        if !compressed {
            let r = catch(|| {
                let mut w = Warnings::new();
                if v7 {
                    p7::Packet::read_panic_on_decompression(&mut w, bytes).map(|p| Pkt7::from_lib(&p).kind()).map_err(|e| format!("{:?}", e))
                } else {
                    p6::Packet::read_panic_on_decompression(&mut w, bytes, None).map(|p| Pkt6::from_lib(&p).kind()).map_err(|e| format!("{:?}", e))
                }
            });
            if let Err(p) = r {
                ctx.panic_violation("Packet::read_panic_on_decompression", &format!("{}|len={}|uncompressed", vn, lc), &p, case.clone());
            }
            ctx.count("read_panic_on_decompression_calls", 1);
        }
    }
    ctx.count("aux_calls", 1);
}

fn all_versions(ctx: &mut Ctx, bytes: &[u8], origin: &str, rng_hint: u64) -> bool {
    let hints = [None, Some(true), Some(false)];
    let mut any = false;
    if origin == "exhaustive" {
        for h in hints {
            any |= check6(ctx, bytes, h, origin).accepted;
        }
    } else {
        any |= check6(ctx, bytes, hints[(rng_hint % 3) as usize], origin).accepted;
    }
    any |= check7(ctx, bytes, origin).accepted;
    if origin == "exhaustive" || rng_hint % 4 == 0 {
        aux(ctx, bytes, origin);
    }
    any
}

fn exhaustive(ctx: &mut Ctx) {
    if !ctx.set_phase("exhaustive") {
        return;
    }
    if let Some(r) = ctx.replay.clone() {
        let b = verif_harness::unhex(r["case_data"]["bytes"].as_str().unwrap());
        all_versions(ctx, &b, "exhaustive", 0);
        return;
    }
    ctx.arm("exhaustive", 1200.0);
    let mut n = 0u64;
    let (shard, nshards) = (ctx.shard as usize, ctx.nshards as usize);
    if shard == 0 {
        all_versions(ctx, &[], "exhaustive", 0);
        n += 1;
    }
    let full3 = ctx.tier == Tier::Thorough;
    let mut a = shard;
    let step = if ctx.tier == Tier::Miri { 37 } else { 1 };
    while a < 256 {
        all_versions(ctx, &[a as u8], "exhaustive", 0);
        n += 1;
        for b in (0..256usize).step_by(step) {
            all_versions(ctx, &[a as u8, b as u8], "exhaustive", 0);
            n += 1;
            if ctx.tier == Tier::Miri {
                continue;
            }
            // third byte: all in thorough, 16 spread values in quick
            let cstep = if full3 { 1 } else { 17 };
            for c in (0..256usize).step_by(cstep) {
                all_versions(ctx, &[a as u8, b as u8, c as u8], "exhaustive", 0);
                n += 1;
            }
        }
        a += nshards * if ctx.tier == Tier::Miri { 8 } else { 1 };
    }
    ctx.disarm();
    ctx.count("exhaustive_strings", n);
    ctx.cases_bulk(n, n);
    if full3 {
        ctx.exhaustive = Some(true);
        ctx.note("exhaustive: every byte string of length <= 3 x token hint None/true/false x both versions (exhaustive for that sub-space); longer inputs are generated");
    }
}

fn mutate(rng: &mut Rng, base: &[u8], hdr: usize) -> (Vec<u8>, &'static str) {
    let mut b = base.to_vec();
    let kind = rng.below(11);
    match kind {
        10 => {
            // a four-byte window set to a reserved token value
            if b.len() >= 4 {
                let at = match rng.below(4) {
                    0 => b.len() - 4,
                    1 => 3.min(b.len() - 4),
                    2 => 8.min(b.len() - 4),
                    _ => rng.usize_below(b.len() - 3),
                };
                let v = if rng.bool() { 0xff } else { 0x00 };
                for x in &mut b[at..at + 4] {
                    *x = v;
                }
            }
            (b, "token-window")
        }
        0 => {
            // header field to a boundary value
            if !b.is_empty() {
                let i = rng.usize_below(hdr.min(b.len()));
                b[i] = *rng.pick(&[0x00u8, 0x01, 0x0f, 0x10, 0x3f, 0x40, 0x7f, 0x80, 0xc0, 0xf0, 0xff]);
            }
            (b, "header-boundary")
        }
        1 => {
            if !b.is_empty() {
                let i = rng.usize_below(b.len());
                b[i] ^= 1 << rng.below(8);
            }
            (b, "bitflip")
        }
        2 => {
            if !b.is_empty() {
                let i = rng.usize_below(b.len());
                b[i] = *rng.pick(&[0x00u8, 0x7f, 0x80, 0xff]);
            }
            (b, "byte-boundary")
        }
        3 => {
            let cut = rng.usize_below(b.len() + 1);
            b.truncate(cut);
            (b, "truncated")
        }
        4 => {
            let extra = match rng.below(3) {
                0 => rng.range(1, 8) as usize,
                1 => rng.range(1, 200) as usize,
                _ => rng.range(1, 3000usize.saturating_sub(b.len()).max(2) as i64) as usize,
            };
            let e = rng.bytes(extra);
            b.extend(e);
            (b, "extended")
        }
        5 => {
            // toggle a flag bit in the first byte
            if !b.is_empty() {
                b[0] ^= 1 << rng.below(8);
            }
            (b, "flag-toggle")
        }
        6 => {
            // chunk-header-like corruption somewhere after the header
            if b.len() > hdr + 2 {
                let i = hdr + rng.usize_below((b.len() - hdr).min(8));
                b[i] = *rng.pick(&[0x00u8, 0x3f, 0x40, 0x7f, 0x80, 0xbf, 0xc0, 0xff]);
            }
            (b, "chunk-header")
        }
        _ => {
            // double corruption
            let (b1, _) = mutate(rng, &b, hdr);
            let (b2, _) = mutate(rng, &b1, hdr);
            (b2, "double")
        }
    }
}

/// Control packets with the compression flag: the control byte and its
/// arguments come out of the Huffman decoder, the wire length says nothing
/// about them.
fn compressed_control(rng: &mut Rng, v7: bool) -> (Vec<u8>, &'static str) {
    let ctrl = rng.below(7) as u8;
    let k = rng.usize_below(9);
    let mut plain = vec![ctrl];
    plain.extend(rng.bytes(k));
    if rng.chance(1, 3) {
        // a plausible token behind it
        plain.extend([0x12, 0x34, 0x56, 0x78]);
    }
    let comp = libtw2_huffman::compress(&plain);
    let mut d = Vec::new();
    if v7 {
        let flags = p7::PACKETFLAG_CONTROL | p7::PACKETFLAG_COMPRESSION | if rng.chance(1, 4) { p7::PACKETFLAG_REQUEST_RESEND } else { 0 };
        d.push(flags << 2 | (rng.u8() & 3));
        d.push(rng.u8());
        d.push(if rng.bool() { 0 } else { rng.u8() });
        if rng.chance(1, 3) {
            d.extend([0xff; 4]);
        } else {
            d.extend([1, 2, 3, 4]);
        }
    } else {
        let flags = p6::PACKETFLAG_CONTROL | p6::PACKETFLAG_COMPRESSION | if rng.chance(1, 4) { p6::PACKETFLAG_REQUEST_RESEND } else { 0 };
        d.push(flags << 4 | (rng.u8() & 3));
        d.push(rng.u8());
        d.push(if rng.bool() { 0 } else { rng.u8() });
    }
    d.extend(comp);
    // junk behind the end-of-stream symbol; a token request must be at least 519 bytes on the wire
    let tail = match rng.below(4) {
        0 => 0,
        1 => rng.usize_below(16),
        2 => 520,
        _ => rng.usize_below(600),
    };
    let t = rng.bytes(tail);
    d.extend(t);
    (d, "compressed-control")
}

fn bombs(rng: &mut Rng, v7: bool) -> (Vec<u8>, &'static str) {
    let which = rng.below(5);
    let n = *rng.pick(&[1390usize, 1393, 1394, 1397, 1398, 1400, 1401, 2000, 3000, 8000]);
    let plain: Vec<u8> = match which {
        0 => vec![0; n],
        1 => vec![rng.u8(); n],
        2 => rng.bytes(n.min(1200)),
        _ => vec![0; n],
    };
    let mut comp = libtw2_huffman::compress(&plain);
    let what = match which {
        3 => {
            let cut = rng.usize_below(comp.len() + 1);
            comp.truncate(cut);
            "huffman-truncated"
        }
        4 => {
            let l = rng.range(0, 1393) as usize;
            comp = rng.bytes(l);
            "huffman-garbage"
        }
        _ => "huffman-bomb",
    };
    let mut d = Vec::new();
    if v7 {
        d.push(p7::PACKETFLAG_COMPRESSION << 2 | (rng.u8() & 3));
        d.push(rng.u8());
        d.push(rng.u8());
        d.extend([1, 2, 3, 4]);
    } else {
        let rr = if rng.bool() { p6::PACKETFLAG_REQUEST_RESEND } else { 0 };
        d.push((p6::PACKETFLAG_COMPRESSION | rr) << 4 | (rng.u8() & 3));
        d.push(rng.u8());
        d.push(rng.u8());
    }
    d.extend(comp);
    if d.len() > 1400 && rng.chance(3, 4) {
        d.truncate(1400);
    }
    (d, what)
}

fn main() {
    let mut ctx = Ctx::from_args("C06");
    ctx.rule = "exhaustive: all byte strings of length <= 2 and (quick: 16 spread third bytes, thorough: all) length 3, each with token hint None/true/false for 0.6 and for 0.7, plus the auxiliary entry points; mutants: valid packets of every kind from the C05 generator with header-boundary / bit-flip / byte-boundary / truncation / extension up to 3000 bytes / flag-toggle / chunk-header / double corruption; bombs: compressed payloads expanding to 1390..8000 bytes, truncated and garbage Huffman streams; a mutant is non-trivial when it differs from its base packet, distinct by hash of its bytes".into();
    ctx.assumptions = vec![
        "scratch buffer has at least MAX_PACKETSIZE remaining (documented precondition, asserted by the reader)".into(),
        "read_panic_on_decompression is only called on inputs without the compression bit (its documented precondition)".into(),
        "closure re-writes the accepted value into a 1400-byte buffer with the token mode the value itself carries".into(),
    ];
    let recorded = recorded_traffic();
    exhaustive(&mut ctx);
    ctx.arm("mutants", 1800.0);
    let n = ctx.volume(30_000, 1_500_000, 20, 3_000);
    ctx.run_cases("mutants6", n, |ctx, _i, rng| {
        let (p, _c) = gen6(rng, &recorded);
        let mut wbuf = [0u8; 1400];
        let base = match catch(|| p.write(&mut wbuf[..])) {
            Ok(Ok(b)) => b,
            _ => return,
        };
        let (m, what) = mutate(rng, &base, 3);
        let acc = all_versions(ctx, &m, what, rng.u64());
        ctx.count(&format!("mutant[{}]", what), 1);
        if acc {
            ctx.count("mutants_accepted", 1);
        }
        ctx.case(if m != base { Some(verif_harness::fnv1a(&m)) } else { None });
        if ctx.want_sample() && rng.chance(1, 200) {
            ctx.sample(json!({"version": "0.6", "base_kind": p.kind(), "mutation": what, "len": m.len(), "bytes": verif_harness::hex_short(&m), "accepted": acc}));
        }
    });
    ctx.run_cases("mutants7", n, |ctx, _i, rng| {
        let (p, _c) = gen7(rng, &recorded);
        let mut wbuf = [0u8; 1400];
        let base = match catch(|| p.write(&mut wbuf[..])) {
            Ok(Ok(b)) => b,
            _ => return,
        };
        let (m, what) = mutate(rng, &base, 7);
        let acc = all_versions(ctx, &m, what, rng.u64());
        ctx.count(&format!("mutant[{}]", what), 1);
        if acc {
            ctx.count("mutants_accepted", 1);
        }
        ctx.case(if m != base { Some(verif_harness::fnv1a(&m)) } else { None });
        if ctx.want_sample() && rng.chance(1, 200) {
            ctx.sample(json!({"version": "0.7", "base_kind": p.kind(), "mutation": what, "len": m.len(), "bytes": verif_harness::hex_short(&m), "accepted": acc}));
        }
    });
    ctx.run_cases("bombs", n / 10 + 5, |ctx, i, rng| {
        let (d, what) = if i % 4 >= 2 { compressed_control(rng, i % 2 == 1) } else { bombs(rng, i % 2 == 1) };
        all_versions(ctx, &d, what, rng.u64());
        ctx.count(&format!("bomb[{}]", what), 1);
        ctx.case(Some(verif_harness::fnv1a(&d)));
    });
    ctx.disarm();
    ctx.finish();
}
