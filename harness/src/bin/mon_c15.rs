//! C15 — a recorded demo plays back what was recorded.
//!
//! Low level: PRNG chunk sequences through `libtw2_demo::Writer` into an
//! in-memory file, read back with `libtw2_demo::Reader`.
//! High level: world histories of typed DDNet objects through
//! `demo::ddnet::DemoWriter` -> `demo::ddnet::DemoReader`, plus probes with
//! non-increasing ticks (must be refused with an error, recording stays usable).
//!
//! Oracles (DESIGN.md §5/C15): what was written is the model; the observed side
//! is only the reader API (chunks, header accessors, warning sink). Size/marker
//! classes for the coverage counters are taken from the written bytes following
//! doc/demo.md, not from the writer's internals.

use arrayvec::ArrayVec;
use libtw2_common::digest::Sha256;
use libtw2_demo::ddnet::Chunk;
use libtw2_demo::ddnet::DemoReader;
use libtw2_demo::ddnet::DemoWriter;
use libtw2_demo::ddnet::ReadError as HlReadError;
use libtw2_demo::ddnet::WriteError as HlWriteError;
use libtw2_demo::DemoKind;
use libtw2_demo::RawChunk;
use libtw2_demo::ReadError;
use libtw2_demo::Reader;
use libtw2_demo::Version;
use libtw2_demo::Writer;
use libtw2_gamenet_ddnet::enums;
use libtw2_gamenet_ddnet::msg::game as gm;
use libtw2_gamenet_ddnet::msg::Game;
use libtw2_gamenet_ddnet::snap_obj as so;
use libtw2_gamenet_ddnet::snap_obj::SnapObj;
use libtw2_gamenet_ddnet::Protocol;
use libtw2_huffman::Huffman;
use serde_json::json;
use serde_json::Value;
use std::cell::RefCell;
use std::collections::BTreeMap;
use std::io;
use std::io::Cursor;
use std::rc::Rc;
use verif_harness::catch;
use verif_harness::fnv1a;
use verif_harness::hex;
use verif_harness::hex_short;
use verif_harness::refmodel::varint;
use verif_harness::Ctx;
use verif_harness::Rng;
use verif_harness::Tier;
use verif_harness::Warnings;

static HUFF: Huffman = libtw2_huffman::instances::TEEWORLDS;

/// doc/demo.md + format: reader-side buffers are 64 KiB, chunk size is 16 bit.
const MAX_RAW: usize = 65536;
const MAX_COMPRESSED: usize = 65535;
const MAX_MSG_INTS: usize = MAX_RAW / 4;

// ------------------------------------------------------------ in-memory file

#[derive(Clone)]
struct Shared(Rc<RefCell<Cursor<Vec<u8>>>>);

impl Shared {
    fn new() -> Shared {
        Shared(Rc::new(RefCell::new(Cursor::new(Vec::new()))))
    }
    fn len(&self) -> usize {
        self.0.borrow().get_ref().len()
    }
    fn truncate(&self, n: usize) {
        let mut c = self.0.borrow_mut();
        c.get_mut().truncate(n);
        c.set_position(n as u64);
    }
    fn byte(&self, idx: usize) -> Option<u8> {
        self.0.borrow().get_ref().get(idx).copied()
    }
    fn take(&self) -> Vec<u8> {
        std::mem::take(self.0.borrow_mut().get_mut())
    }
}
impl io::Write for Shared {
    fn write(&mut self, b: &[u8]) -> io::Result<usize> {
        self.0.borrow_mut().write(b)
    }
    fn flush(&mut self) -> io::Result<()> {
        Ok(())
    }
}
impl io::Seek for Shared {
    fn seek(&mut self, p: io::SeekFrom) -> io::Result<u64> {
        self.0.borrow_mut().seek(p)
    }
}

// ------------------------------------------------------------ huffman table

struct HuffTable {
    bits: [u64; 257],
    /// Byte with the shortest code (used to fill up to an exact compressed size).
    short: u8,
    /// Integer whose one-byte varint has the shortest code, and its bit length.
    fill_int: i32,
    fill_int_bits: u64,
}

impl HuffTable {
    fn new() -> HuffTable {
        let mut bits = [0u64; 257];
        for (i, s) in HUFF.repr().into_iter().enumerate() {
            bits[i] = s.num_bits() as u64;
        }
        let short = (0..256usize).min_by_key(|&b| bits[b]).unwrap() as u8;
        // one-byte varints: 0x00..0x3f => 0..63, 0x40..0x7f => -1..-64
        let fb = (0..0x80usize).min_by_key(|&b| bits[b]).unwrap();
        let fill_int = if fb < 0x40 { fb as i32 } else { -((fb & 0x3f) as i32) - 1 };
        assert!(varint::encode(fill_int) == vec![fb as u8]);
        HuffTable { bits, short, fill_int, fill_int_bits: bits[fb] }
    }
    fn eof(&self) -> u64 {
        self.bits[256]
    }
    fn int_bits(&self, v: i32) -> u64 {
        varint::encode(v).iter().map(|&b| self.bits[b as usize]).sum()
    }
}

fn styled_byte(rng: &mut Rng, style: u64) -> u8 {
    match style {
        0 => rng.u8(),
        1 => {
            // looks like packed small integers
            if rng.chance(1, 6) {
                0x80 | (rng.u8() & 0x7f)
            } else {
                rng.u8() & 0x7f
            }
        }
        _ => {
            if rng.chance(3, 4) {
                0
            } else {
                rng.u8()
            }
        }
    }
}

/// Payload whose Huffman-compressed size is exactly `target` bytes (when the
/// target is reachable at all).
fn payload_with_compressed_len(rng: &mut Rng, h: &HuffTable, target: usize, style: u64) -> Vec<u8> {
    let hi = 8 * target as u64;
    let lo = hi.saturating_sub(8); // need lo < bits <= hi
    let mut bits = h.eof();
    let mut v = Vec::new();
    loop {
        let b = styled_byte(rng, style);
        if bits + h.bits[b as usize] > hi {
            break;
        }
        bits += h.bits[b as usize];
        v.push(b);
    }
    while bits <= lo && bits + h.bits[h.short as usize] <= hi {
        bits += h.bits[h.short as usize];
        v.push(h.short);
    }
    v
}

fn styled_int(rng: &mut Rng, style: u64) -> i32 {
    match style {
        0 => rng.i32(),
        1 => match rng.below(4) {
            0 => rng.range(-64, 63) as i32,
            1 => rng.range(-8192, 8191) as i32,
            2 => rng.edgy_i32(),
            _ => rng.range(0, 300) as i32,
        },
        _ => {
            if rng.chance(3, 4) {
                0
            } else {
                rng.range(-70000, 70000) as i32
            }
        }
    }
}

fn ints_to_msg(ints: &[i32], trim: usize) -> Vec<u8> {
    let mut m = Vec::with_capacity(ints.len() * 4);
    for &i in ints {
        m.extend_from_slice(&i.to_le_bytes());
    }
    let l = m.len();
    m.truncate(l - trim.min(l));
    m
}

/// Last integer of a message such that `trim` trailing bytes of its
/// little-endian form are zero and can be left out of the message.
fn trimmable_last(rng: &mut Rng, trim: usize, style: u64) -> i32 {
    match trim {
        0 => styled_int(rng, style),
        1 => rng.below(1 << 24) as i32,
        2 => rng.below(1 << 16) as i32,
        _ => rng.below(1 << 8) as i32,
    }
}

/// Message whose (varint, then Huffman) compressed size is exactly `target`.
fn msg_with_compressed_len(rng: &mut Rng, h: &HuffTable, target: usize, style: u64) -> Vec<u8> {
    let trim = rng.below(4) as usize;
    let last = trimmable_last(rng, trim, style);
    let hi = 8 * target as u64;
    let lo = hi.saturating_sub(8);
    let mut bits = h.eof() + h.int_bits(last);
    let mut ints = Vec::new();
    loop {
        let v = styled_int(rng, style);
        let b = h.int_bits(v);
        if bits + b > hi {
            break;
        }
        bits += b;
        ints.push(v);
    }
    while bits <= lo && bits + h.fill_int_bits <= hi {
        bits += h.fill_int_bits;
        ints.push(h.fill_int);
    }
    ints.push(last);
    ints_to_msg(&ints, trim)
}

// ------------------------------------------------------------ low-level model

#[derive(Clone, Copy, Debug, PartialEq, Eq)]
enum LKind {
    Tick,
    Snap,
    Delta,
    Msg,
}

impl LKind {
    fn name(self) -> &'static str {
        match self {
            LKind::Tick => "tick",
            LKind::Snap => "snapshot",
            LKind::Delta => "snapshot-delta",
            LKind::Msg => "message",
        }
    }
}

#[derive(Clone, Debug)]
struct LOp {
    kind: LKind,
    tick: i32,
    keyframe: bool,
    payload: Vec<u8>,
    /// Coarse class of the payload (goes into signatures).
    class: &'static str,
    /// Inside "accepted by the writer and representable for the reader".
    in_domain: bool,
    comp_len: usize,
    /// Written through `write_chunk(RawChunk::..)` instead of the direct method.
    via_chunk: bool,
}

fn size_class(comp: usize) -> &'static str {
    if comp < 30 {
        "size-5bit"
    } else if comp <= 255 {
        "size-1byte"
    } else {
        "size-2bytes"
    }
}

fn classify_blob(raw_len: usize, comp: usize) -> (&'static str, bool) {
    if comp > MAX_COMPRESSED + 1 {
        ("compressed-over-buffer", false)
    } else if comp == MAX_COMPRESSED + 1 {
        ("compressed-over-u16", false)
    } else if raw_len > MAX_RAW {
        ("raw-over-reader-buffer", false)
    } else {
        (size_class(comp), true)
    }
}

/// Variable-length integer form of a message (what the writer compresses).
fn msg_varints(msg: &[u8]) -> (usize, Vec<u8>) {
    let mut out = Vec::new();
    let mut n = 0;
    for g in msg.chunks(4) {
        let mut w = [0u8; 4];
        w[..g.len()].copy_from_slice(g);
        out.extend(varint::encode(i32::from_le_bytes(w)));
        n += 1;
    }
    (n, out)
}

fn padded(msg: &[u8]) -> Vec<u8> {
    let mut v = msg.to_vec();
    while v.len() % 4 != 0 {
        v.push(0);
    }
    v
}

fn make_data_op(rng: &mut Rng, kind: LKind, payload: Vec<u8>) -> LOp {
    let (class, in_domain, comp_len) = if kind == LKind::Msg {
        let (n, vi) = msg_varints(&payload);
        if vi.len() > MAX_RAW {
            ("msg-over-writer-buffer", false, 0)
        } else {
            let comp = HUFF.compressed_len(&vi);
            let (c, ok) = classify_blob(vi.len(), comp);
            if ok && n > MAX_MSG_INTS {
                ("msg-over-reader-buffer", false, comp)
            } else {
                (c, ok, comp)
            }
        }
    } else {
        let comp = HUFF.compressed_len(&payload);
        let (c, ok) = classify_blob(payload.len(), comp);
        (c, ok, comp)
    };
    let via_chunk = payload.len() <= MAX_RAW && rng.chance(1, 3);
    LOp { kind, tick: 0, keyframe: false, payload, class, in_domain, comp_len, via_chunk }
}

struct Hdr {
    net_version: Vec<u8>,
    map_name: Vec<u8>,
    timestamp: Vec<u8>,
    sha: Option<[u8; 32]>,
    crc: u32,
    server: bool,
    length: i32,
    map: Vec<u8>,
}

fn cstr(rng: &mut Rng, cap: usize) -> Vec<u8> {
    let len = match rng.below(5) {
        0 => 0,
        1 => 1,
        2 => cap - 1,
        3 => cap - 2,
        _ => rng.usize_below(cap),
    };
    (0..len).map(|_| 1 + (rng.u8() % 255)).collect()
}

fn gen_header(rng: &mut Rng, tier: Tier) -> Hdr {
    let map_len = match rng.below(6) {
        0 => 0,
        1 => 1,
        2 => rng.usize_below(64),
        3 => rng.usize_below(700),
        _ => {
            if tier == Tier::Miri {
                rng.usize_below(40)
            } else {
                rng.usize_below(6000)
            }
        }
    };
    Hdr {
        net_version: cstr(rng, 64),
        map_name: cstr(rng, 64),
        timestamp: cstr(rng, 20),
        sha: if rng.bool() {
            let mut s = [0u8; 32];
            rng.fill(&mut s);
            Some(s)
        } else {
            None
        },
        crc: match rng.below(4) {
            0 => 0,
            1 => u32::MAX,
            _ => rng.u32(),
        },
        server: rng.bool(),
        length: match rng.below(5) {
            0 => 0,
            1 => 1,
            2 => i32::MAX,
            _ => rng.range(0, i32::MAX as i64) as i32,
        },
        map: rng.bytes(map_len),
    }
}

fn hdr_json(h: &Hdr) -> Value {
    json!({
        "net_version": hex(&h.net_version), "map_name": hex(&h.map_name), "timestamp": hex(&h.timestamp),
        "map_sha256": h.sha.map(|s| hex(&s)), "map_crc": h.crc, "kind": if h.server { "server" } else { "client" },
        "length": h.length, "map": hex_short(&h.map), "map_len": h.map.len(),
    })
}

const BOUNDARY_SIZES: [usize; 12] = [28, 29, 30, 31, 32, 253, 254, 255, 256, 257, 258, 300];

fn gen_data_payload(rng: &mut Rng, h: &HuffTable, kind: LKind, tier: Tier) -> Vec<u8> {
    let style = rng.below(3);
    let pick = rng.below(100);
    if pick < 10 {
        return Vec::new();
    }
    if pick < 25 {
        let n = rng.range(1, 9) as usize;
        return rng.bytes(n);
    }
    let target = if pick < 70 {
        *rng.pick(&BOUNDARY_SIZES)
    } else if pick < 96 || tier == Tier::Miri {
        rng.range(1, if tier == Tier::Miri { 60 } else { 2000 }) as usize
    } else {
        rng.range(2000, 20000) as usize
    };
    let target = if tier == Tier::Miri && target > 40 && !rng.chance(1, 4) { 28 + rng.usize_below(5) } else { target };
    if kind == LKind::Msg {
        msg_with_compressed_len(rng, h, target, style)
    } else {
        payload_with_compressed_len(rng, h, target, style)
    }
}

/// One deliberately large chunk at the edge of (or beyond) what the format can carry.
fn gen_big_probe(rng: &mut Rng, h: &HuffTable) -> LOp {
    let blob_kind = if rng.bool() { LKind::Snap } else { LKind::Delta };
    let (kind, payload): (LKind, Vec<u8>) = match rng.below(10) {
        0 => (blob_kind, payload_with_compressed_len(rng, h, MAX_COMPRESSED, 0)),
        1 => (blob_kind, payload_with_compressed_len(rng, h, MAX_COMPRESSED - 1, 1)),
        2 => (blob_kind, payload_with_compressed_len(rng, h, MAX_COMPRESSED + 1, 0)),
        3 => {
            // incompressible and long: compressed form larger than any buffer
            let n = rng.range(62000, MAX_RAW as i64) as usize;
            (blob_kind, rng.bytes(n))
        }
        4 => {
            // longer than the reader's buffer but well compressible
            let n = MAX_RAW + 1 + rng.usize_below(3000);
            (blob_kind, (0..n).map(|_| styled_byte(rng, 2)).collect())
        }
        5 => {
            // exactly the reader's buffer, compressible
            (blob_kind, (0..MAX_RAW).map(|_| styled_byte(rng, 2)).collect())
        }
        6 => {
            // largest message the reader can return: 16384 integers
            let trim = rng.below(4) as usize;
            let mut ints: Vec<i32> = (0..MAX_MSG_INTS - 1).map(|_| styled_int(rng, 2)).collect();
            ints.push(trimmable_last(rng, trim, 2));
            (LKind::Msg, ints_to_msg(&ints, trim))
        }
        7 => {
            let n = MAX_MSG_INTS + 1 + rng.usize_below(100);
            let ints: Vec<i32> = (0..n).map(|_| styled_int(rng, 2)).collect();
            (LKind::Msg, ints_to_msg(&ints, 0))
        }
        8 => {
            // five varint bytes per integer: does not fit the writer's 64 KiB scratch buffer
            let n = 13108 + rng.usize_below(500);
            let ints: Vec<i32> = (0..n).map(|_| (rng.i32() & 0x7fff_ffff) | 0x4000_0000).collect();
            (LKind::Msg, ints_to_msg(&ints, 0))
        }
        _ => (LKind::Msg, msg_with_compressed_len(rng, h, MAX_COMPRESSED, 0)),
    };
    make_data_op(rng, kind, payload)
}

const GAPS: [i64; 20] = [1, 1, 1, 2, 3, 15, 30, 31, 32, 33, 34, 62, 63, 64, 65, 100, 250, 1000, 65536, 1 << 24];

fn gen_low_ops(rng: &mut Rng, h: &HuffTable, tier: Tier) -> Vec<LOp> {
    let n = match tier {
        Tier::Miri => rng.range(2, 7),
        _ => match rng.below(10) {
            0 => rng.range(0, 2),
            1 | 2 => rng.range(40, 90),
            _ => rng.range(3, 40),
        },
    } as usize;
    let mut ops = Vec::new();
    let mut prev: Option<i32> = None;
    for _ in 0..n {
        if rng.chance(2, 5) {
            let tick: Option<i32> = match prev {
                None => Some(match rng.below(10) {
                    0 => 0,
                    1 => 1,
                    2 => -1,
                    3 => i32::MIN,
                    4 => i32::MIN + 1,
                    5 => i32::MAX - rng.range(0, 200) as i32,
                    6 => rng.i32(),
                    _ => rng.range(0, 100_000) as i32,
                }),
                Some(p) if p == i32::MAX => None,
                Some(p) => {
                    let room = i32::MAX as i64 - p as i64;
                    let gap = match rng.below(12) {
                        0 => rng.range(1, room), // anywhere above, may exceed i32 as a difference
                        1 => rng.range(1, 70),
                        _ => *rng.pick(&GAPS),
                    };
                    Some((p as i64 + gap.min(room)) as i32)
                }
            };
            if let Some(t) = tick {
                prev = Some(t);
                ops.push(LOp {
                    kind: LKind::Tick,
                    tick: t,
                    keyframe: rng.chance(3, 10),
                    payload: Vec::new(),
                    class: "tick",
                    in_domain: true,
                    comp_len: 0,
                    via_chunk: rng.chance(1, 3),
                });
                continue;
            }
        }
        let kind = *rng.pick(&[LKind::Snap, LKind::Delta, LKind::Msg, LKind::Msg]);
        let p = gen_data_payload(rng, h, kind, tier);
        ops.push(make_data_op(rng, kind, p));
    }
    if !matches!(tier, Tier::Miri) && rng.chance(1, 10) {
        ops.push(gen_big_probe(rng, h));
    }
    ops
}

fn lop_json(o: &LOp) -> Value {
    match o.kind {
        LKind::Tick => json!({"tick": o.tick, "keyframe": o.keyframe, "via_write_chunk": o.via_chunk}),
        k => json!({
            "kind": k.name(), "len": o.payload.len(), "compressed_len": o.comp_len, "class": o.class,
            "payload": if o.payload.len() <= 80 { hex(&o.payload) } else { hex_short(&o.payload) },
            "payload_fnv": format!("{:x}", fnv1a(&o.payload)), "via_write_chunk": o.via_chunk,
        }),
    }
}

// ------------------------------------------------------------ low-level run

fn read_err_name(e: &ReadError) -> &'static str {
    match e {
        ReadError::Io(_) => "Io",
        ReadError::Binrw(_) => "Binrw",
        ReadError::Huffman(libtw2_huffman::DecompressionError::Capacity(_)) => "Huffman-Capacity",
        ReadError::Huffman(libtw2_huffman::DecompressionError::InvalidInput) => "Huffman-InvalidInput",
        ReadError::MessageVarIntUnexpectedEnd => "MessageVarIntUnexpectedEnd",
        ReadError::MessageVarIntTooLong => "MessageVarIntTooLong",
        ReadError::NotIncreasingTick => "NotIncreasingTick",
        ReadError::StartingDeltaSnapshot => "StartingDeltaSnapshot",
        ReadError::TickOverflow => "TickOverflow",
    }
}

/// First word of a warning's Debug form (no numbers).
fn warn_name(w: &str) -> String {
    verif_harness::strip_numbers(w).chars().take(60).collect()
}

fn apply_low(w: &mut Writer, op: &LOp) -> Result<(), libtw2_demo::WriteError> {
    match (op.kind, op.via_chunk) {
        (LKind::Tick, false) => w.write_tick(op.keyframe, op.tick),
        (LKind::Tick, true) => w.write_chunk(RawChunk::Tick { tick: op.tick, keyframe: op.keyframe }),
        (LKind::Snap, false) => w.write_snapshot(&op.payload),
        (LKind::Delta, false) => w.write_snapshot_delta(&op.payload),
        (LKind::Msg, false) => w.write_message(&op.payload),
        (LKind::Msg, true) => w.write_chunk(RawChunk::Message(&op.payload)),
        (k, true) => {
            let mut a: Box<ArrayVec<[u8; MAX_RAW]>> = Box::new(ArrayVec::new());
            a.try_extend_from_slice(&op.payload).expect("harness: payload fits");
            if k == LKind::Snap {
                w.write_chunk(RawChunk::Snapshot(&a))
            } else {
                w.write_chunk(RawChunk::SnapshotDelta(&a))
            }
        }
    }
}

fn low_site(op: &LOp) -> &'static str {
    match (op.kind, op.via_chunk) {
        (_, true) => "Writer::write_chunk",
        (LKind::Tick, _) => "Writer::write_tick",
        (LKind::Snap, _) => "Writer::write_snapshot",
        (LKind::Delta, _) => "Writer::write_snapshot_delta",
        (LKind::Msg, _) => "Writer::write_message",
    }
}

#[derive(Debug, PartialEq, Eq)]
enum GotChunk {
    Tick(i32, bool),
    Snap(Vec<u8>),
    Delta(Vec<u8>),
    Msg(Vec<u8>),
    Unknown,
}

impl GotChunk {
    fn kind_name(&self) -> &'static str {
        match self {
            GotChunk::Tick(..) => "tick",
            GotChunk::Snap(_) => "snapshot",
            GotChunk::Delta(_) => "snapshot-delta",
            GotChunk::Msg(_) => "message",
            GotChunk::Unknown => "unknown",
        }
    }
}

struct GotHeader {
    version: Version,
    net_version: Vec<u8>,
    map_name: Vec<u8>,
    timestamp: Vec<u8>,
    map_size: u32,
    map: Vec<u8>,
    crc: u32,
    server: bool,
    length: i32,
    markers: Vec<i32>,
    sha: Option<[u8; 32]>,
}

struct LowRead {
    new_err: Option<&'static str>,
    header: Option<GotHeader>,
    chunks: Vec<GotChunk>,
    err: Option<&'static str>,
    warnings: Warnings,
}

fn read_low(bytes: &[u8], limit: usize) -> LowRead {
    let mut warn = Warnings::new();
    let mut out = LowRead { new_err: None, header: None, chunks: Vec::new(), err: None, warnings: Warnings::new() };
    let mut rd = match Reader::new(Cursor::new(bytes), &mut warn) {
        Ok(r) => r,
        Err(e) => {
            out.new_err = Some(read_err_name(&e));
            out.warnings = warn;
            return out;
        }
    };
    out.header = Some(GotHeader {
        version: rd.version(),
        net_version: rd.net_version().to_vec(),
        map_name: rd.map_name().to_vec(),
        timestamp: rd.timestamp().to_vec(),
        map_size: rd.map_size(),
        map: rd.map_data().to_vec(),
        crc: rd.map_crc(),
        server: matches!(rd.kind(), DemoKind::Server),
        length: rd.length(),
        markers: rd.timeline_markers().to_vec(),
        sha: rd.map_sha256().map(|s| s.0),
    });
    while out.chunks.len() <= limit {
        match rd.read_chunk(&mut warn) {
            Ok(None) => break,
            Ok(Some(c)) => out.chunks.push(match c {
                RawChunk::Tick { tick, keyframe } => GotChunk::Tick(tick, keyframe),
                RawChunk::Snapshot(s) => GotChunk::Snap(s.to_vec()),
                RawChunk::SnapshotDelta(s) => GotChunk::Delta(s.to_vec()),
                RawChunk::Message(m) => GotChunk::Msg(m.to_vec()),
                RawChunk::Unknown => GotChunk::Unknown,
            }),
            Err(e) => {
                out.err = Some(read_err_name(&e));
                break;
            }
        }
    }
    out.warnings = warn;
    out
}

/// Header oracle shared by both levels. Returns false on a violation.
fn check_header(ctx: &mut Ctx, level: &str, h: &Hdr, g: &GotHeader, case_data: &Value) -> bool {
    let mut bad: Vec<&'static str> = Vec::new();
    if g.net_version != h.net_version {
        bad.push("net_version");
    }
    if g.map_name != h.map_name {
        bad.push("map_name");
    }
    if g.timestamp != h.timestamp {
        bad.push("timestamp");
    }
    if g.map_size as usize != h.map.len() || g.map != h.map {
        bad.push("map");
    }
    if g.crc != h.crc {
        bad.push("map_crc");
    }
    if g.server != h.server {
        bad.push("kind");
    }
    if g.length != h.length {
        bad.push("length");
    }
    if g.sha != h.sha {
        bad.push("map_sha256");
    }
    if !g.markers.is_empty() {
        bad.push("timeline_markers");
    }
    // doc: the SHA-256 extension exists in the DDNet version only.
    let version_ok = if h.sha.is_some() { g.version == Version::V6Ddnet } else { g.version == Version::V5 };
    if !version_ok {
        bad.push("version");
    }
    ctx.seen("header_versions", &format!("{:?}", g.version));
    if let Some(f) = bad.first() {
        ctx.violation("header-differs", &format!("{}::header", level), f,
            json!({"fields": bad, "got_net_version": hex(&g.net_version), "got_map_name": hex(&g.map_name), "got_timestamp": hex(&g.timestamp),
                   "got_map_size": g.map_size, "got_crc": g.crc, "got_length": g.length, "got_version": format!("{:?}", g.version)}),
            case_data.clone());
        return false;
    }
    true
}

fn low_case(ctx: &mut Ctx, rng: &mut Rng, h: &HuffTable) {
    let hdr = gen_header(rng, ctx.tier);
    let ops = gen_low_ops(rng, h, ctx.tier);
    let case_data = |upto: usize| -> Value {
        let from = upto.saturating_sub(40);
        json!({"level": "low", "header": hdr_json(&hdr), "ops_total": ops.len(), "ops_from": from,
               "ops": ops[from..upto.min(ops.len())].iter().map(lop_json).collect::<Vec<_>>()})
    };
    let file = Shared::new();
    let kind = if hdr.server { DemoKind::Server } else { DemoKind::Client };
    let w = catch(|| {
        Writer::new(file.clone(), &hdr.net_version, &hdr.map_name, hdr.sha.map(Sha256), hdr.crc, kind, hdr.length, &hdr.timestamp, &hdr.map)
    });
    let mut w = match w {
        Err(p) => {
            ctx.panic_violation("Writer::new", "header-in-capacity", &p, case_data(0));
            ctx.case(None);
            return;
        }
        Ok(Err(_)) => {
            ctx.count("low_header_rejected", 1);
            ctx.case(None);
            return;
        }
        Ok(Ok(w)) => w,
    };
    ctx.count("low_recordings", 1);
    ctx.count(if hdr.sha.is_some() { "low_with_sha256" } else { "low_without_sha256" }, 1);
    ctx.max("header_net_version_len", hdr.net_version.len() as u64);
    ctx.max("header_map_name_len", hdr.map_name.len() as u64);
    ctx.max("header_timestamp_len", hdr.timestamp.len() as u64);
    ctx.max("header_map_len", hdr.map.len() as u64);

    let mut written: Vec<usize> = Vec::new();
    let mut prev_tick: Option<i32> = None;
    for (i, op) in ops.iter().enumerate() {
        let pre = file.len();
        let r = catch(|| apply_low(&mut w, op));
        match r {
            Err(p) => {
                ctx.count("low_writer_panics", 1);
                ctx.count(&format!("rejected_by_panic:{}", op.class), 1);
                // A payload beyond what the format can carry (compressed form over
                // the buffer / over 16 bits, message over the integer buffer) is
                // simply "not accepted by the writer" (DESIGN.md C15); the property
                // does not say how the low-level writer refuses it. Only a panic on
                // a payload inside the domain is a violation.
                if op.in_domain {
                    ctx.panic_violation(low_site(op), "in-domain", &p, case_data(i + 1));
                } else {
                    ctx.count("rejected_outside_domain_by_panic", 1);
                }
                file.truncate(pre);
                break;
            }
            Ok(Err(e)) => {
                ctx.count("rejected_by_error", 1);
                ctx.seen("writer_errors", &verif_harness::strip_numbers(&format!("{:?}", e)));
                file.truncate(pre);
                break;
            }
            Ok(Ok(())) => {}
        }
        written.push(i);
        // Coverage from the bytes just written, read as doc/demo.md describes them.
        let first = file.byte(pre).unwrap_or(0);
        match op.kind {
            LKind::Tick => {
                ctx.count("chunks_tick", 1);
                let inline = first & 0x80 != 0 && first & 0x20 != 0;
                let delta = prev_tick.map(|p| op.tick as i64 - p as i64);
                ctx.count(if inline { "tick_marker_inline" } else { "tick_marker_absolute" }, 1);
                if op.keyframe {
                    ctx.count("tick_keyframe", 1);
                }
                match delta {
                    Some(31) => ctx.count("tick_gap_31", 1),
                    Some(32) => ctx.count("tick_gap_32", 1),
                    Some(d) if d > i32::MAX as i64 => ctx.count("tick_gap_over_i32", 1),
                    _ => {}
                }
                let model_inline = !op.keyframe && delta.map_or(false, |d| d <= 31);
                if model_inline != inline {
                    ctx.count("tick_marker_form_unlike_doc_model", 1);
                }
                prev_tick = Some(op.tick);
            }
            k => {
                ctx.count(match k {
                    LKind::Snap => "chunks_snapshot",
                    LKind::Delta => "chunks_snapshot_delta",
                    _ => "chunks_message",
                }, 1);
                let sc = match first & 0x1f {
                    30 => "size_enc_1byte",
                    31 => "size_enc_2bytes",
                    _ => "size_enc_5bit",
                };
                ctx.count(sc, 1);
                if op.in_domain {
                    ctx.count(&format!("compressed_len_{}", match op.comp_len {
                        29 => "29", 30 => "30", 255 => "255", 256 => "256", 65534 => "65534", 65535 => "65535", _ => "other" }), 1);
                    ctx.max("max_compressed_len_accepted", op.comp_len as u64);
                    ctx.max("max_payload_len_accepted", op.payload.len() as u64);
                } else {
                    ctx.count(&format!("accepted_outside_domain:{}", op.class), 1);
                }
                if op.payload.is_empty() {
                    ctx.count("payload_empty", 1);
                }
                if k == LKind::Msg && op.payload.len() % 4 != 0 {
                    ctx.count("message_len_not_multiple_of_4", 1);
                }
            }
        }
        if op.via_chunk {
            ctx.count("via_write_chunk", 1);
        }
    }
    drop(w);
    let bytes = file.take();

    let r = catch(|| read_low(&bytes, written.len() + 1));
    let got = match r {
        Err(p) => {
            let cls = written.last().map(|&i| ops[i].class).unwrap_or("header-only");
            ctx.panic_violation("Reader", &format!("last-payload={}", cls), &p, case_data(ops.len()));
            ctx.case(None);
            return;
        }
        Ok(g) => g,
    };
    let mut ok = true;
    if let Some(e) = got.new_err {
        ctx.violation("read-error", "Reader::new", e, json!({"error": e, "file_len": bytes.len()}), case_data(0));
        ctx.case(None);
        return;
    }
    ok &= check_header(ctx, "Reader", &hdr, got.header.as_ref().unwrap(), &case_data(0));
    // chunk sequence
    for (k, &i) in written.iter().enumerate() {
        let op = &ops[i];
        let want = match op.kind {
            LKind::Tick => GotChunk::Tick(op.tick, op.keyframe),
            LKind::Snap => GotChunk::Snap(op.payload.clone()),
            LKind::Delta => GotChunk::Delta(op.payload.clone()),
            LKind::Msg => GotChunk::Msg(padded(&op.payload)),
        };
        match got.chunks.get(k) {
            Some(g) if *g == want => {}
            Some(g) => {
                let what = if g.kind_name() != want.kind_name() { "kind" } else if op.kind == LKind::Tick { "tick" } else { "payload" };
                ctx.violation("chunk-differs", "Reader::read_chunk",
                    &format!("expected={}|got={}|what={}|payload={}", op.kind.name(), g.kind_name(), what, op.class),
                    json!({"index": k, "expected": lop_json(op), "got": match g {
                        GotChunk::Tick(t, kf) => json!({"tick": t, "keyframe": kf}),
                        GotChunk::Snap(d) | GotChunk::Delta(d) | GotChunk::Msg(d) => json!({"len": d.len(), "data": hex_short(d)}),
                        GotChunk::Unknown => json!("unknown"),
                    }}),
                    case_data(i + 1));
                ok = false;
                break;
            }
            None => {
                match got.err {
                    Some(e) => ctx.violation("read-error", "Reader::read_chunk",
                        &format!("{}|expected={}|payload={}", e, if op.in_domain { op.kind.name() } else { "data" }, op.class),
                        json!({"index": k, "error": e, "expected": lop_json(op)}), case_data(i + 1)),
                    None => ctx.violation("chunk-differs", "Reader::read_chunk",
                        &format!("missing|expected={}|payload={}", op.kind.name(), op.class),
                        json!({"index": k, "read": got.chunks.len(), "written": written.len()}), case_data(i + 1)),
                }
                ok = false;
                break;
            }
        }
    }
    if ok && got.chunks.len() > written.len() {
        ctx.violation("chunk-differs", "Reader::read_chunk", "extra-chunk",
            json!({"read": got.chunks.len(), "written": written.len()}), case_data(ops.len()));
        ok = false;
    }
    if ok {
        if let Some(e) = got.err {
            ctx.violation("read-error", "Reader::read_chunk", &format!("{}|at-end", e), json!({"error": e}), case_data(ops.len()));
            ok = false;
        }
    }
    if ok && !got.warnings.is_empty() {
        ctx.violation("warning", "Reader", &warn_name(&got.warnings.0[0]), json!({"warnings": got.warnings.0}), case_data(ops.len()));
        ok = false;
    }
    if ok {
        ctx.count("low_roundtrips_ok", 1);
        ctx.count("low_chunks_verified", written.len() as u64);
    }
    if ctx.samples.len() < 3 && written.len() >= 4 && written.len() <= 12 {
        ctx.sample(json!({"phase": "low", "file_len": bytes.len(), "case": case_data(ops.len())}));
    }
    let nontrivial = written.len() >= 2;
    ctx.case(if nontrivial { Some(fnv1a(&bytes)) } else { None });
}

/// Writer takes any i32 as header `length`; doc says nothing beyond "signed".
/// Outcome is recorded for the report only (the quantifier does not cover it).
fn negative_length_probe(ctx: &mut Ctx) {
    let file = Shared::new();
    let r = catch(|| {
        Writer::new(file.clone(), b"v", b"m", None, 0, DemoKind::Client, -1, b"t", b"").map(|_| ())
    });
    let outcome = match r {
        Err(_) => "writer-panics".to_string(),
        Ok(Err(_)) => "writer-refuses".to_string(),
        Ok(Ok(())) => {
            let bytes = file.take();
            match catch(|| read_low(&bytes, 1)) {
                Err(_) => "writer-accepts/reader-panics".to_string(),
                Ok(g) => match g.new_err {
                    Some(e) => format!("writer-accepts/reader-refuses-{}", e),
                    None => format!("writer-accepts/reader-length={}", g.header.map(|h| h.length).unwrap_or(0)),
                },
            }
        }
    };
    ctx.seen("negative_header_length_outcome", &outcome);
}

// ------------------------------------------------------------ typed objects

#[derive(Clone, Copy)]
enum Dom {
    Any,
    R(i32, i32),
    Pos,
}
use Dom::*;

struct KindSpec {
    name: &'static str,
    doms: &'static [Dom],
}

const CORE: [Dom; 15] = [Any, Any, Any, Any, Any, Any, R(-1, 1), R(0, 3), R(-1, 127), R(-1, 5), Any, Any, Any, Any, Any];

/// Field domains in declaration order, from gamenet/generate/spec (as mirrored by
/// the public struct definitions). No kind with a `bool` member (C14 finding).
const KINDS: &[KindSpec] = &[
    KindSpec { name: "Projectile", doms: &[Any, Any, Any, Any, R(0, 5), Any] },
    KindSpec { name: "Laser", doms: &[Any, Any, Any, Any, Any] },
    KindSpec { name: "Pickup", doms: &[Any, Any, Pos, Pos] },
    KindSpec { name: "Flag", doms: &[Any, Any, R(0, 1)] },
    KindSpec { name: "GameInfo", doms: &[R(0, 256), R(0, 256), Any, Any, Pos, Pos, Pos, Pos] },
    KindSpec { name: "GameData", doms: &[Any, Any, R(-3, 127), R(-3, 127)] },
    KindSpec { name: "Character", doms: &[
        CORE[0], CORE[1], CORE[2], CORE[3], CORE[4], CORE[5], CORE[6], CORE[7], CORE[8], CORE[9], CORE[10], CORE[11], CORE[12], CORE[13], CORE[14],
        R(0, 256), R(0, 10), R(0, 10), R(-1, 10), R(-1, 5), R(0, 5), Pos] },
    KindSpec { name: "PlayerInfo", doms: &[R(0, 1), R(0, 127), R(-2, 3), Any, Any] },
    KindSpec { name: "ClientInfo", doms: &[Any, Any, Any, Any, Any, Any, Any, Any, Any, Any, Any, Any, Any, Any, R(0, 1), Any, Any] },
    KindSpec { name: "SpectatorInfo", doms: &[R(-1, 127), Any, Any] },
    KindSpec { name: "DdnetCharacter", doms: &[Any, Any, R(-1, 255), Any, R(0, 127), R(-1, 255), Any, Any, Any, Any, R(-1, 255)] },
    KindSpec { name: "DdnetPlayer", doms: &[Any, R(0, 3)] },
    KindSpec { name: "GameInfoEx", doms: &[Any, Any, Any] },
    KindSpec { name: "DdnetLaser", doms: &[Any, Any, Any, Any, Any, R(-1, 127), Any, Any, Any, Any] },
    KindSpec { name: "Explosion", doms: &[Any, Any] },
    KindSpec { name: "Death", doms: &[Any, Any, R(0, 127)] },
    KindSpec { name: "SoundWorld", doms: &[Any, Any, R(0, 40)] },
    KindSpec { name: "CharacterCore", doms: &CORE },
];

fn core_from(w: &[i32]) -> so::CharacterCore {
    so::CharacterCore {
        tick: w[0], x: w[1], y: w[2], vel_x: w[3], vel_y: w[4], angle: w[5], direction: w[6], jumped: w[7],
        hooked_player: w[8], hook_state: w[9], hook_tick: w[10], hook_x: w[11], hook_y: w[12], hook_dx: w[13], hook_dy: w[14],
    }
}

fn core_words(c: &so::CharacterCore) -> Vec<i32> {
    vec![c.tick, c.x, c.y, c.vel_x, c.vel_y, c.angle, c.direction, c.jumped, c.hooked_player, c.hook_state,
         c.hook_tick, c.hook_x, c.hook_y, c.hook_dx, c.hook_dy]
}

fn build_obj(kind: usize, w: &[i32]) -> SnapObj {
    assert!(w.len() == KINDS[kind].doms.len());
    let weapon = |v: i32| enums::Weapon::from_i32(v).expect("harness: weapon domain");
    match kind {
        0 => so::Projectile { x: w[0], y: w[1], vel_x: w[2], vel_y: w[3], type_: weapon(w[4]), start_tick: so::Tick(w[5]) }.into(),
        1 => so::Laser { x: w[0], y: w[1], from_x: w[2], from_y: w[3], start_tick: so::Tick(w[4]) }.into(),
        2 => so::Pickup { x: w[0], y: w[1], type_: w[2], subtype: w[3] }.into(),
        3 => so::Flag { x: w[0], y: w[1], team: w[2] }.into(),
        4 => so::GameInfo { game_flags: w[0], game_state_flags: w[1], round_start_tick: so::Tick(w[2]), warmup_timer: w[3],
                            score_limit: w[4], time_limit: w[5], round_num: w[6], round_current: w[7] }.into(),
        5 => so::GameData { teamscore_red: w[0], teamscore_blue: w[1], flag_carrier_red: w[2], flag_carrier_blue: w[3] }.into(),
        6 => so::Character { character_core: core_from(&w[..15]), player_flags: w[15], health: w[16], armor: w[17], ammo_count: w[18],
                             weapon: w[19], emote: enums::Emote::from_i32(w[20]).expect("harness: emote domain"), attack_tick: w[21] }.into(),
        7 => so::PlayerInfo { local: w[0], client_id: w[1], team: enums::Team::from_i32(w[2]).expect("harness: team domain"), score: w[3], latency: w[4] }.into(),
        8 => so::ClientInfo { name: [w[0], w[1], w[2], w[3]], clan: [w[4], w[5], w[6]], country: w[7],
                              skin: [w[8], w[9], w[10], w[11], w[12], w[13]], use_custom_color: w[14], color_body: w[15], color_feet: w[16] }.into(),
        9 => so::SpectatorInfo { spectator_id: w[0], x: w[1], y: w[2] }.into(),
        10 => so::DdnetCharacter { flags: w[0], freeze_end: so::Tick(w[1]), jumps: w[2], tele_checkpoint: w[3], strong_weak_id: w[4],
                                   jumped_total: w[5], ninja_activation_tick: so::Tick(w[6]), freeze_start: so::Tick(w[7]),
                                   target_x: w[8], target_y: w[9], tune_zone_override: w[10] }.into(),
        11 => so::DdnetPlayer { flags: w[0], auth_level: w[1] }.into(),
        12 => so::GameInfoEx { flags: w[0], version: w[1], flags2: w[2] }.into(),
        13 => so::DdnetLaser { to_x: w[0], to_y: w[1], from_x: w[2], from_y: w[3], start_tick: so::Tick(w[4]), owner: w[5],
                               type_: w[6], switch_number: w[7], subtype: w[8], flags: w[9] }.into(),
        14 => so::Explosion { common: so::Common { x: w[0], y: w[1] } }.into(),
        15 => so::Death { common: so::Common { x: w[0], y: w[1] }, client_id: w[2] }.into(),
        16 => so::SoundWorld { common: so::Common { x: w[0], y: w[1] }, sound_id: enums::Sound::from_i32(w[2]).expect("harness: sound domain") }.into(),
        17 => core_from(w).into(),
        _ => unreachable!(),
    }
}

/// Field values of a typed object as read back, by plain field access.
fn obj_words(o: &SnapObj) -> Option<(usize, Vec<i32>)> {
    Some(match o {
        SnapObj::Projectile(p) => (0, vec![p.x, p.y, p.vel_x, p.vel_y, p.type_ as i32, p.start_tick.0]),
        SnapObj::Laser(p) => (1, vec![p.x, p.y, p.from_x, p.from_y, p.start_tick.0]),
        SnapObj::Pickup(p) => (2, vec![p.x, p.y, p.type_, p.subtype]),
        SnapObj::Flag(p) => (3, vec![p.x, p.y, p.team]),
        SnapObj::GameInfo(p) => (4, vec![p.game_flags, p.game_state_flags, p.round_start_tick.0, p.warmup_timer, p.score_limit,
                                         p.time_limit, p.round_num, p.round_current]),
        SnapObj::GameData(p) => (5, vec![p.teamscore_red, p.teamscore_blue, p.flag_carrier_red, p.flag_carrier_blue]),
        SnapObj::Character(p) => {
            let mut v = core_words(&p.character_core);
            v.extend([p.player_flags, p.health, p.armor, p.ammo_count, p.weapon, p.emote as i32, p.attack_tick]);
            (6, v)
        }
        SnapObj::PlayerInfo(p) => (7, vec![p.local, p.client_id, p.team as i32, p.score, p.latency]),
        SnapObj::ClientInfo(p) => {
            let mut v = p.name.to_vec();
            v.extend(p.clan);
            v.push(p.country);
            v.extend(p.skin);
            v.extend([p.use_custom_color, p.color_body, p.color_feet]);
            (8, v)
        }
        SnapObj::SpectatorInfo(p) => (9, vec![p.spectator_id, p.x, p.y]),
        SnapObj::DdnetCharacter(p) => (10, vec![p.flags, p.freeze_end.0, p.jumps, p.tele_checkpoint, p.strong_weak_id, p.jumped_total,
                                                p.ninja_activation_tick.0, p.freeze_start.0, p.target_x, p.target_y, p.tune_zone_override]),
        SnapObj::DdnetPlayer(p) => (11, vec![p.flags, p.auth_level]),
        SnapObj::GameInfoEx(p) => (12, vec![p.flags, p.version, p.flags2]),
        SnapObj::DdnetLaser(p) => (13, vec![p.to_x, p.to_y, p.from_x, p.from_y, p.start_tick.0, p.owner, p.type_, p.switch_number, p.subtype, p.flags]),
        SnapObj::Explosion(p) => (14, vec![p.common.x, p.common.y]),
        SnapObj::Death(p) => (15, vec![p.common.x, p.common.y, p.client_id]),
        SnapObj::SoundWorld(p) => (16, vec![p.common.x, p.common.y, p.sound_id as i32]),
        SnapObj::CharacterCore(p) => (17, core_words(p)),
        _ => return None,
    })
}

fn gen_word(rng: &mut Rng, d: Dom, prev: Option<i32>) -> i32 {
    let (lo, hi) = match d {
        Any => (i32::MIN, i32::MAX),
        R(a, b) => (a, b),
        Pos => (0, i32::MAX),
    };
    if let Some(p) = prev {
        // a change: mostly a small step (what deltas are made for), sometimes anything
        if rng.chance(2, 3) {
            let step = *rng.pick(&[-33i64, -2, -1, 1, 2, 7, 64, 300]);
            return (p as i64 + step).clamp(lo as i64, hi as i64) as i32;
        }
    }
    match rng.below(8) {
        0 => lo,
        1 => hi,
        2 => (lo as i64 + 1).min(hi as i64) as i32,
        3 if lo <= 0 && hi >= 0 => 0,
        4 if matches!(d, Any) => rng.edgy_i32(),
        5 | 6 => rng.range(lo.max(-3000) as i64, hi.min(3000) as i64) as i32,
        _ => rng.range(lo as i64, hi as i64) as i32,
    }
}

type Key = (usize, u16);
type World = BTreeMap<Key, Vec<i32>>;

fn gen_obj(rng: &mut Rng, kind: usize) -> Vec<i32> {
    KINDS[kind].doms.iter().map(|&d| gen_word(rng, d, None)).collect()
}

fn objs_json(items: &[(Key, Vec<i32>)], cap: usize) -> Value {
    json!(items.iter().take(cap).map(|((k, id), w)| json!({"k": KINDS[*k].name, "id": id, "w": w})).collect::<Vec<_>>())
}

#[derive(Clone, Debug, PartialEq, Eq)]
enum HMsg {
    Chat { team: i32, client_id: i32, text: Vec<u8> },
    Kill { killer: i32, victim: i32, weapon: i32, mode_special: i32 },
    Broadcast { text: Vec<u8> },
    Other(String),
}

fn gen_hmsg(rng: &mut Rng) -> HMsg {
    let len = rng.range(0, 24) as usize;
    match rng.below(3) {
        0 => HMsg::Chat {
            team: rng.range(-2, 3) as i32,
            client_id: rng.range(-1, 127) as i32,
            text: (0..len).map(|_| 0x20 + rng.u8() % 0xdf).collect(),
        },
        1 => HMsg::Kill {
            killer: rng.range(0, 127) as i32,
            victim: rng.range(0, 127) as i32,
            weapon: rng.range(-3, 5) as i32,
            mode_special: rng.edgy_i32(),
        },
        _ => HMsg::Broadcast { text: (0..len).map(|_| 1 + rng.u8() % 255).collect() },
    }
}

fn own_game(g: &Game) -> HMsg {
    match g {
        Game::SvChat(c) => HMsg::Chat { team: c.team, client_id: c.client_id, text: c.message.to_vec() },
        Game::SvKillMsg(k) => HMsg::Kill { killer: k.killer, victim: k.victim, weapon: k.weapon, mode_special: k.mode_special },
        Game::SvBroadcast(b) => HMsg::Broadcast { text: b.message.to_vec() },
        other => HMsg::Other(format!("{:?}", other).chars().take(80).collect()),
    }
}

// ------------------------------------------------------------ high-level histories

#[derive(Clone, Debug)]
enum HOp {
    Snap { tick: i32, items: Vec<(Key, Vec<i32>)> },
    /// Non-increasing tick: `back == 0` repeats the last accepted tick, otherwise `last - back`.
    TickProbe { back: i32, items: Vec<(Key, Vec<i32>)> },
    /// A snapshot whose last item repeats the key of its first (must be refused, too).
    DupProbe { items: Vec<(Key, Vec<i32>)> },
    Msg(HMsg),
}

struct History {
    personality: &'static str,
    ops: Vec<HOp>,
}

const PROBE_ID_BASE: u16 = 60000;

fn gen_id(rng: &mut Rng) -> u16 {
    match rng.below(8) {
        0 => 0,
        1 => PROBE_ID_BASE - 1,
        2 => rng.range(0, (PROBE_ID_BASE - 1) as i64) as u16,
        _ => rng.range(0, 64) as u16,
    }
}

fn mutate_world(rng: &mut Rng, world: &mut World, p_add: u64, p_del: u64, p_chg: u64, max_objs: usize) {
    // vanish
    let keys: Vec<Key> = world.keys().copied().collect();
    if !keys.is_empty() && rng.chance(1, 40) {
        world.clear();
    } else {
        for k in &keys {
            if rng.chance(p_del, 100) {
                world.remove(k);
            }
        }
    }
    // change
    let keys: Vec<Key> = world.keys().copied().collect();
    for k in &keys {
        if rng.chance(p_chg, 100) {
            let doms = KINDS[k.0].doms;
            let w = world.get_mut(k).unwrap();
            let nf = 1 + rng.usize_below(w.len().min(4));
            for _ in 0..nf {
                let f = rng.usize_below(w.len());
                w[f] = gen_word(rng, doms[f], Some(w[f]));
            }
        }
    }
    // appear
    let mut adds = 0;
    while world.len() < max_objs && rng.chance(p_add, 100) && adds < 40 {
        let kind = rng.usize_below(KINDS.len());
        let key = (kind, gen_id(rng));
        let obj = gen_obj(rng, kind);
        world.insert(key, obj);
        adds += 1;
    }
}

fn world_items(rng: &mut Rng, world: &World) -> Vec<(Key, Vec<i32>)> {
    let mut v: Vec<(Key, Vec<i32>)> = world.iter().map(|(k, w)| (*k, w.clone())).collect();
    rng.shuffle(&mut v);
    v
}

fn gen_history(rng: &mut Rng, tier: Tier) -> History {
    let miri = tier == Tier::Miri;
    let (personality, steps, gaps, max_objs): (&'static str, usize, &[i64], usize) = if miri {
        ("miri-tiny", rng.range(3, 5) as usize, &[1, 2, 251, 300], 4)
    } else {
        match rng.below(10) {
            0 | 1 => ("dense", rng.range(260, 620) as usize, &[1, 1, 1, 1, 1, 1, 1, 1, 2, 3], 8),
            2 | 3 | 4 => ("medium", rng.range(30, 140) as usize, &[1, 5, 10, 20, 30, 31, 32, 33, 50], 40),
            5 | 6 => ("sparse", rng.range(4, 30) as usize, &[100, 200, 249, 250, 251, 252, 300, 500, 1000, 100000], 60),
            7 | 8 => ("keyframe-edge", rng.range(6, 40) as usize, &[125, 250, 1, 249, 2, 251, 124, 126], 20),
            _ => ("crowded", rng.range(3, 12) as usize, &[1, 40, 251, 300], 400),
        }
    };
    let (p_add, p_del, p_chg) = match personality {
        "dense" => (30, 6, 30),
        "crowded" => (97, 3, 20),
        _ => (rng.range(30, 85) as u64, rng.range(2, 30) as u64, rng.range(5, 70) as u64),
    };
    let span: i64 = steps as i64 * *gaps.iter().max().unwrap();
    let mut tick: i64 = match rng.below(6) {
        0 => 0,
        1 => 1,
        2 => i32::MAX as i64 - span - rng.range(0, 10),
        3 => rng.range(0, 1_000_000),
        _ => rng.range(0, 200),
    };
    let probes_tick = rng.chance(1, 2);
    let probes_dup = !miri && rng.chance(1, 8);
    let with_msgs = rng.chance(1, 2);
    let mut world = World::new();
    let mut ops = Vec::new();
    let mut fresh = PROBE_ID_BASE;
    let probe_rate: u64 = (steps as u64 / 3).max(2);
    for s in 0..steps {
        if s > 0 {
            tick += *rng.pick(gaps);
        }
        mutate_world(rng, &mut world, p_add, p_del, p_chg, max_objs);
        if with_msgs && rng.chance(1, 6) {
            ops.push(HOp::Msg(gen_hmsg(rng)));
        }
        let items = world_items(rng, &world);
        ops.push(HOp::Snap { tick: tick as i32, items: items.clone() });
        let force = miri && s == 1;
        if probes_tick && (rng.chance(1, probe_rate) || force) {
            let back = if rng.bool() {
                0
            } else {
                *rng.pick(&[1i64, 1, 2, 31, 250, 251, tick / 2 + 1, tick + 1]) as i32
            };
            let mut it = items.clone();
            let kind = rng.usize_below(KINDS.len());
            it.push(((kind, fresh), gen_obj(rng, kind)));
            fresh = fresh.wrapping_add(1).max(PROBE_ID_BASE);
            ops.push(HOp::TickProbe { back, items: it });
        }
        if probes_dup && rng.chance(1, probe_rate) {
            let mut it = Vec::new();
            for _ in 0..rng.range(1, 3) {
                let kind = rng.usize_below(KINDS.len());
                it.push(((kind, fresh), gen_obj(rng, kind)));
                fresh = fresh.wrapping_add(1).max(PROBE_ID_BASE);
            }
            let first = it[0].clone();
            it.push(first);
            ops.push(HOp::DupProbe { items: it });
        }
        if with_msgs && rng.chance(1, 10) {
            ops.push(HOp::Msg(gen_hmsg(rng)));
        }
    }
    History { personality, ops }
}

fn hop_json(o: &HOp) -> Value {
    match o {
        HOp::Snap { tick, items } => json!({"write_snap": tick, "n": items.len(), "objs": objs_json(items, 6)}),
        HOp::TickProbe { back, items } => json!({"probe": if *back == 0 { "same-tick" } else { "smaller-tick" }, "back": back, "n": items.len()}),
        HOp::DupProbe { items } => json!({"probe": "duplicate-key", "objs": objs_json(items, 6)}),
        HOp::Msg(m) => json!({"write_msg": format!("{:?}", m)}),
    }
}

#[derive(Debug)]
enum Exp {
    Snap { tick: i32, set: World, after: &'static str, op: usize },
    Msg { msg: HMsg, op: usize },
}

#[derive(Debug)]
enum HEv {
    Tick(i32),
    Snap(Vec<(Option<Key>, Vec<i32>)>),
    Msg(HMsg),
    Invalid,
}

fn hl_write_err_name(e: &HlWriteError) -> &'static str {
    match e {
        HlWriteError::Inner(_) => "Inner",
        HlWriteError::SnapBuilder(libtw2_snapshot::snap::BuilderError::DuplicateKey) => "SnapBuilder-DuplicateKey",
        HlWriteError::SnapBuilder(libtw2_snapshot::snap::BuilderError::TooLongSnap) => "SnapBuilder-TooLongSnap",
        HlWriteError::SnapBuilder(libtw2_snapshot::snap::BuilderError::TooManyItems) => "SnapBuilder-TooManyItems",
        HlWriteError::TooLowTickNumber => "TooLowTickNumber",
        HlWriteError::TooLargeSnap => "TooLargeSnap",
        HlWriteError::TooLongNetMsg => "TooLongNetMsg",
    }
}

fn hl_read_err_name(e: &HlReadError) -> String {
    match e {
        HlReadError::Inner(i) => format!("Inner-{}", read_err_name(i)),
        HlReadError::Snap(s) => format!("Snap-{:?}", s),
    }
}

struct HlRead {
    new_err: Option<String>,
    header: Option<GotHeader>,
    events: Vec<HEv>,
    err: Option<String>,
    warnings: Warnings,
}

fn read_high(bytes: &[u8], limit: usize) -> HlRead {
    let mut warn = Warnings::new();
    let mut out = HlRead { new_err: None, header: None, events: Vec::new(), err: None, warnings: Warnings::new() };
    let mut rd: DemoReader<Protocol> = match DemoReader::new(Cursor::new(bytes), &mut warn) {
        Ok(r) => r,
        Err(e) => {
            out.new_err = Some(hl_read_err_name(&e));
            out.warnings = warn;
            return out;
        }
    };
    out.header = Some(GotHeader {
        version: rd.version(),
        net_version: rd.net_version().to_vec(),
        map_name: rd.map_name().to_vec(),
        timestamp: rd.timestamp().to_vec(),
        map_size: rd.map_size(),
        map: rd.map_data().to_vec(),
        crc: rd.map_crc(),
        server: matches!(rd.kind(), DemoKind::Server),
        length: rd.length(),
        markers: rd.timeline_markers().to_vec(),
        sha: rd.map_sha256().map(|s| s.0),
    });
    while out.events.len() <= limit {
        match rd.next_chunk(&mut warn) {
            Ok(None) => break,
            Ok(Some(c)) => out.events.push(match c {
                Chunk::Tick(t) => HEv::Tick(t),
                Chunk::Message(g) => HEv::Msg(own_game(&g)),
                Chunk::Snapshot(items) => HEv::Snap(
                    items.map(|(o, id)| match obj_words(o) {
                        Some((k, w)) => (Some((k, *id)), w),
                        None => (None, Vec::new()),
                    }).collect(),
                ),
                Chunk::Invalid => HEv::Invalid,
            }),
            Err(e) => {
                out.err = Some(hl_read_err_name(&e));
                break;
            }
        }
    }
    out.warnings = warn;
    out
}

// ------------------------------------------------------------ high-level run

fn build_items(items: &[(Key, Vec<i32>)]) -> Vec<(SnapObj, u16)> {
    items.iter().map(|((k, id), w)| (build_obj(*k, w), *id)).collect()
}

fn write_hmsg(w: &mut DemoWriter<'static, Protocol>, m: &HMsg) -> Result<(), HlWriteError> {
    match m {
        HMsg::Chat { team, client_id, text } => w.write_msg(&Game::SvChat(gm::SvChat { team: *team, client_id: *client_id, message: text })),
        HMsg::Kill { killer, victim, weapon, mode_special } => {
            w.write_msg(&Game::SvKillMsg(gm::SvKillMsg { killer: *killer, victim: *victim, weapon: *weapon, mode_special: *mode_special }))
        }
        HMsg::Broadcast { text } => w.write_msg(&Game::SvBroadcast(gm::SvBroadcast { message: text })),
        HMsg::Other(_) => unreachable!(),
    }
}

fn high_case(ctx: &mut Ctx, rng: &mut Rng) {
    let hdr = gen_header(rng, ctx.tier);
    let hist = gen_history(rng, ctx.tier);
    let ops = &hist.ops;
    let case_data = |upto: usize| -> Value {
        let from = upto.saturating_sub(30);
        json!({"level": "high", "personality": hist.personality, "header": hdr_json(&hdr), "ops_total": ops.len(), "ops_from": from,
               "ops": ops[from..upto.min(ops.len())].iter().map(hop_json).collect::<Vec<_>>()})
    };
    let file = Shared::new();
    let kind = if hdr.server { DemoKind::Server } else { DemoKind::Client };
    let w = catch(|| -> Result<DemoWriter<'static, Protocol>, HlWriteError> {
        DemoWriter::new(file.clone(), &hdr.net_version, &hdr.map_name, hdr.sha.map(Sha256), hdr.crc, kind, hdr.length, &hdr.timestamp, &hdr.map)
    });
    let mut w = match w {
        Err(p) => {
            ctx.panic_violation("DemoWriter::new", "header-in-capacity", &p, case_data(0));
            ctx.case(None);
            return;
        }
        Ok(Err(_)) => {
            ctx.count("high_header_rejected", 1);
            ctx.case(None);
            return;
        }
        Ok(Ok(w)) => w,
    };
    ctx.count("high_recordings", 1);
    ctx.count(&format!("high_personality:{}", hist.personality), 1);

    let mut expect: Vec<Exp> = Vec::new();
    let mut after: &'static str = "none";
    let mut last_ok: Option<i32> = None;
    let mut prev_set: Option<World> = None;
    for (i, op) in ops.iter().enumerate() {
        let pre = file.len();
        match op {
            HOp::Snap { tick, items } => {
                let objs = build_items(items);
                let r = catch(|| w.write_snap(*tick, objs.iter().map(|(o, id)| (o, *id))));
                match r {
                    Err(p) => {
                        ctx.panic_violation("DemoWriter::write_snap", "regular", &p, json!({"after": after, "history": case_data(i + 1)}));
                        file.truncate(pre);
                        break;
                    }
                    Ok(Err(e)) => {
                        let name = hl_write_err_name(&e);
                        ctx.count(&format!("valid_snap_refused:{}|after={}", name, after), 1);
                        if after == "tick-probe" {
                            ctx.violation("unusable-after-refusal", "DemoWriter::write_snap", &format!("err={}", name),
                                json!({"tick": tick, "error": name, "objects": items.len()}), case_data(i + 1));
                        }
                        file.truncate(pre);
                        break;
                    }
                    Ok(Ok(())) => {
                        let set: World = items.iter().cloned().collect();
                        if let Some(p) = &prev_set {
                            let appeared = set.keys().filter(|k| !p.contains_key(k)).count() as u64;
                            let vanished = p.keys().filter(|k| !set.contains_key(k)).count() as u64;
                            let changed = set.iter().filter(|(k, v)| p.get(k).map_or(false, |o| o != *v)).count() as u64;
                            ctx.count("objects_appeared", appeared);
                            ctx.count("objects_vanished", vanished);
                            ctx.count("objects_changed", changed);
                            if appeared + vanished + changed == 0 {
                                ctx.count("ticks_without_change", 1);
                            }
                        }
                        ctx.count("high_ticks_written", 1);
                        ctx.count("high_objects_written", set.len() as u64);
                        ctx.max("max_objects_per_tick", set.len() as u64);
                        for (k, _) in set.keys() {
                            ctx.seen("object_kinds_written", KINDS[*k].name);
                        }
                        expect.push(Exp::Snap { tick: *tick, set: set.clone(), after, op: i });
                        prev_set = Some(set);
                        last_ok = Some(*tick);
                    }
                }
            }
            HOp::TickProbe { back, items } => {
                let Some(last) = last_ok else { continue };
                let Some(tick) = last.checked_sub(*back) else { continue };
                let pk = if *back == 0 { "same-tick" } else { "smaller-tick" };
                ctx.count(&format!("tick_probe:{}", pk), 1);
                let objs = build_items(items);
                let r = catch(|| w.write_snap(tick, objs.iter().map(|(o, id)| (o, *id))));
                match r {
                    Err(p) => {
                        ctx.count(&format!("tick_probe_panicked:{}", pk), 1);
                        ctx.panic_violation("DemoWriter::write_snap", &format!("probe={}", pk), &p,
                            json!({"probe": pk, "last_accepted_tick": last, "probe_tick": tick, "history": case_data(i + 1)}));
                        file.truncate(pre);
                        break;
                    }
                    Ok(Err(e)) => {
                        ctx.count(&format!("tick_probe_refused:{}", pk), 1);
                        ctx.seen("tick_probe_errors", hl_write_err_name(&e));
                        if file.len() != pre {
                            ctx.violation("refusal-wrote-data", "DemoWriter::write_snap", &format!("probe={}", pk),
                                json!({"bytes": file.len() - pre}), case_data(i + 1));
                            file.truncate(pre);
                            break;
                        }
                        if after == "none" {
                            after = "tick-probe";
                        }
                    }
                    Ok(Ok(())) => {
                        ctx.violation("tick-not-refused", "DemoWriter::write_snap", &format!("probe={}", pk),
                            json!({"last_accepted_tick": last, "probe_tick": tick}), case_data(i + 1));
                        file.truncate(pre);
                        break;
                    }
                }
            }
            HOp::DupProbe { items } => {
                let Some(last) = last_ok else { continue };
                let Some(tick) = last.checked_add(1) else { continue };
                ctx.count("dup_key_probe", 1);
                let objs = build_items(items);
                let r = catch(|| w.write_snap(tick, objs.iter().map(|(o, id)| (o, *id))));
                match r {
                    Err(p) => {
                        ctx.panic_violation("DemoWriter::write_snap", "probe=duplicate-key", &p, case_data(i + 1));
                        file.truncate(pre);
                        break;
                    }
                    Ok(Err(e)) => {
                        ctx.seen("dup_key_probe_errors", hl_write_err_name(&e));
                        if file.len() != pre {
                            file.truncate(pre);
                            break;
                        }
                        after = "dup-key-probe";
                    }
                    Ok(Ok(())) => {
                        ctx.seen("dup_key_probe_errors", "accepted");
                        file.truncate(pre);
                        break;
                    }
                }
            }
            HOp::Msg(m) => {
                let r = catch(|| write_hmsg(&mut w, m));
                match r {
                    Err(p) => {
                        ctx.panic_violation("DemoWriter::write_msg", &format!("after={}", after), &p, case_data(i + 1));
                        file.truncate(pre);
                        break;
                    }
                    Ok(Err(e)) => {
                        ctx.count(&format!("valid_msg_refused:{}", hl_write_err_name(&e)), 1);
                        file.truncate(pre);
                        break;
                    }
                    Ok(Ok(())) => {
                        ctx.count("high_msgs_written", 1);
                        expect.push(Exp::Msg { msg: m.clone(), op: i });
                    }
                }
            }
        }
    }
    drop(w);
    let bytes = file.take();

    // What the writer chose (key frame or delta), observed through the low-level reader.
    let mut via: BTreeMap<i32, &'static str> = BTreeMap::new();
    if let Ok(low) = catch(|| read_low(&bytes, expect.len() * 2 + 2)) {
        let mut cur = None;
        let mut keyframes = 0u64;
        for c in &low.chunks {
            match c {
                GotChunk::Tick(t, kf) => {
                    cur = Some(*t);
                    if *kf {
                        ctx.count("high_tick_keyframe_flag", 1);
                    }
                }
                GotChunk::Snap(_) => {
                    keyframes += 1;
                    ctx.count("high_key_frames", 1);
                    if let Some(t) = cur {
                        via.insert(t, "snapshot");
                    }
                }
                GotChunk::Delta(_) => {
                    ctx.count("high_deltas", 1);
                    if let Some(t) = cur {
                        via.insert(t, "delta");
                    }
                }
                _ => {}
            }
        }
        if keyframes >= 2 {
            ctx.count("key_frame_intervals_crossed", keyframes - 1);
        }
        if keyframes >= 3 {
            ctx.count("recordings_over_more_than_one_interval", 1);
        }
    }

    let want_events: usize = expect.iter().map(|e| if matches!(e, Exp::Snap { .. }) { 2 } else { 1 }).sum();
    let got = match catch(|| read_high(&bytes, want_events + 1)) {
        Err(p) => {
            ctx.panic_violation("DemoReader", &format!("after={}", after), &p, case_data(ops.len()));
            ctx.case(None);
            return;
        }
        Ok(g) => g,
    };
    if let Some(e) = &got.new_err {
        ctx.violation("read-error", "DemoReader::new", e, json!({"error": e}), case_data(0));
        ctx.case(None);
        return;
    }
    let mut ok = check_header(ctx, "DemoReader", &hdr, got.header.as_ref().unwrap(), &case_data(0));
    let mut pos = 0usize;
    let mut verified_ticks = 0u64;
    'cmp: for e in &expect {
        let (op_idx, what) = match e {
            Exp::Snap { op, .. } => (*op, "snapshot"),
            Exp::Msg { op, .. } => (*op, "message"),
        };
        let next = |ctx: &mut Ctx, pos: &mut usize| -> Option<&HEv> {
            let g = got.events.get(*pos);
            *pos += 1;
            if g.is_none() {
                match &got.err {
                    Some(er) => ctx.violation("read-error", "DemoReader::next_chunk", &format!("{}|expected={}", er, what),
                        json!({"error": er, "event_index": *pos - 1}), case_data(op_idx + 1)),
                    None => ctx.violation("chunk-differs", "DemoReader::next_chunk", &format!("missing|expected={}", what),
                        json!({"read": got.events.len(), "expected": want_events}), case_data(op_idx + 1)),
                }
            }
            g
        };
        match e {
            Exp::Msg { msg, .. } => {
                let Some(g) = next(ctx, &mut pos) else { ok = false; break 'cmp };
                match g {
                    HEv::Msg(m) if m == msg => {}
                    other => {
                        ctx.violation("chunk-differs", "DemoReader::next_chunk", "message",
                            json!({"expected": format!("{:?}", msg), "got": format!("{:?}", other).chars().take(300).collect::<String>()}), case_data(op_idx + 1));
                        ok = false;
                        break 'cmp;
                    }
                }
            }
            Exp::Snap { tick, set, after, .. } => {
                let Some(g) = next(ctx, &mut pos) else { ok = false; break 'cmp };
                match g {
                    HEv::Tick(t) if t == tick => {}
                    other => {
                        ctx.violation("chunk-differs", "DemoReader::next_chunk", &format!("tick|after={}", after),
                            json!({"expected_tick": tick, "got": format!("{:?}", other).chars().take(200).collect::<String>()}), case_data(op_idx + 1));
                        ok = false;
                        break 'cmp;
                    }
                }
                let Some(g) = next(ctx, &mut pos) else { ok = false; break 'cmp };
                let how = via.get(tick).copied().unwrap_or("unknown");
                match g {
                    HEv::Snap(items) => {
                        let mut got_set = World::new();
                        let mut dup_or_unknown = 0;
                        for (k, w) in items {
                            match k {
                                Some(k) => {
                                    if got_set.insert(*k, w.clone()).is_some() {
                                        dup_or_unknown += 1;
                                    }
                                }
                                None => dup_or_unknown += 1,
                            }
                        }
                        if got_set != *set || dup_or_unknown != 0 {
                            let missing: Vec<(Key, Vec<i32>)> = set.iter().filter(|(k, _)| !got_set.contains_key(k)).map(|(k, v)| (*k, v.clone())).collect();
                            let extra: Vec<(Key, Vec<i32>)> = got_set.iter().filter(|(k, _)| !set.contains_key(k)).map(|(k, v)| (*k, v.clone())).collect();
                            let differing: Vec<Value> = set.iter().filter_map(|(k, v)| got_set.get(k).filter(|g| *g != v).map(|g|
                                json!({"k": KINDS[k.0].name, "id": k.1, "written": v, "read": g}))).take(6).collect();
                            let what = if !extra.is_empty() { "extra-objects" } else if !missing.is_empty() { "missing-objects" }
                                       else if !differing.is_empty() { "field-values" } else { "duplicate-or-unknown-objects" };
                            ctx.violation("objects-differ", "DemoReader::next_chunk", &format!("{}|after={}", what, after),
                                json!({"tick": tick, "via": how, "written": set.len(), "read": items.len(), "missing": objs_json(&missing, 6),
                                       "extra": objs_json(&extra, 6), "differing": differing, "dup_or_unknown": dup_or_unknown}),
                                case_data(op_idx + 1));
                            ok = false;
                            break 'cmp;
                        }
                        verified_ticks += 1;
                        ctx.count(&format!("high_ticks_verified_via_{}", how), 1);
                    }
                    other => {
                        ctx.violation("chunk-differs", "DemoReader::next_chunk", &format!("snapshot|after={}", after),
                            json!({"tick": tick, "via": how, "got": format!("{:?}", other).chars().take(200).collect::<String>()}), case_data(op_idx + 1));
                        ok = false;
                        break 'cmp;
                    }
                }
            }
        }
    }
    if ok && got.events.len() > want_events {
        ctx.violation("chunk-differs", "DemoReader::next_chunk", "extra-chunk",
            json!({"read": got.events.len(), "expected": want_events}), case_data(ops.len()));
        ok = false;
    }
    if ok {
        if let Some(e) = &got.err {
            ctx.violation("read-error", "DemoReader::next_chunk", &format!("{}|at-end", e), json!({"error": e}), case_data(ops.len()));
            ok = false;
        }
    }
    if ok && !got.warnings.is_empty() {
        ctx.violation("warning", "DemoReader", &warn_name(&got.warnings.0[0]), json!({"warnings": got.warnings.0}), case_data(ops.len()));
        ok = false;
    }
    if ok {
        ctx.count("high_roundtrips_ok", 1);
        if after == "tick-probe" {
            ctx.count("high_roundtrips_ok_after_tick_probe", 1);
        }
    }
    ctx.count("high_ticks_verified", verified_ticks);
    if ctx.want_sample() && expect.len() >= 3 && ops.len() <= 14 {
        ctx.sample(json!({"phase": "high", "file_len": bytes.len(), "case": case_data(ops.len())}));
    }
    let nontrivial = verified_ticks >= 2 && via.values().any(|v| *v == "delta");
    ctx.case(if nontrivial { Some(fnv1a(&bytes)) } else { None });
}

fn main() {
    let mut ctx = Ctx::from_args("C15");
    ctx.rule = "low: PRNG header (strings 0..capacity-1 non-NUL bytes, map 0..6000 bytes, with/without SHA-256) + 0..90 chunks (strictly increasing ticks with gaps around 31/32 and beyond i32 differences, key frames, snapshot/delta/message payloads built to an exact Huffman-compressed size around 29/30, 255/256, 65534/65535 and beyond, empty payloads, message lengths of every residue mod 4) written with demo::Writer into memory and read with demo::Reader; non-trivial = at least 2 chunks accepted; distinct = hash of the written file. high: world histories of 18 typed DDNet object kinds (no bool members) over 3..620 ticks with five gap personalities, objects appearing/changing/vanishing, typed messages, non-increasing-tick probes (same / smaller) and duplicate-key probes, through ddnet::DemoWriter -> ddnet::DemoReader; non-trivial = at least 2 ticks verified and at least one written as a delta; distinct = hash of the written file".into();
    ctx.assumptions = vec![
        "header strings are C strings: no NUL bytes inside, length at most capacity-1; header length >= 0".into(),
        "low-level ticks strictly increase (the low-level writer asserts this; only the high-level writer promises an error)".into(),
        "a payload is 'accepted' when the write call returns Ok; a panic of the writer on any payload is reported (clause panic), an Err is a refusal".into(),
        "object field values are drawn inside the ranges of the protocol description; ids below 60000 for world objects".into(),
        "size/marker classes in the counters are read from the written bytes as doc/demo.md lays them out".into(),
    ];
    let h = HuffTable::new();
    ctx.max("huffman_shortest_symbol_bits", h.bits[h.short as usize]);
    if ctx.replay.is_none() && ctx.shard == 0 {
        negative_length_probe(&mut ctx);
    }
    let n_low = ctx.volume(500, 10_000, 2, 60);
    let n_high = ctx.volume(250, 5_000, 1, 30);
    ctx.arm("low", 900.0);
    ctx.run_cases("low", n_low, |ctx, _idx, rng| low_case(ctx, rng, &h));
    ctx.disarm();
    ctx.arm("high", 900.0);
    ctx.run_cases("high", n_high, |ctx, _idx, rng| high_case(ctx, rng));
    ctx.disarm();
    ctx.finish();
}
