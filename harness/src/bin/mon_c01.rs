//! C01 — vital chunks are delivered exactly once, in order, uncorrupted; non-vital
//! chunks delivered were really sent; `ready` at most once and not before the
//! acceptor answered. Online oracle in netsim::Sim::delivery_oracle.

use libtw2_net::connection as c6;
use libtw2_net::connection7 as c7;
use serde_json::json;
use verif_harness::netsim::*;
use verif_harness::Ctx;
use verif_harness::Rng;
use verif_harness::Tier;

const OWN: [&str; 3] = ["prefix", "nonvital-membership", "ready"];

fn one<C: Conn>(ctx: &mut Ctx, rng: &mut Rng, hp: &HistoryParams, kind: &str) {
    let sim: Sim<C> = run_history(rng, hp, |_, _| true);
    fold_stats(ctx, &sim);
    let case_data = json!({"kind": kind, "variant": hp.variant.name(), "moves": hp.moves, "personality": hp.personality.to_json()});
    forward_findings(ctx, &sim, &OWN, &case_data);
    // non-trivial: the handshake completed and at least one vital chunk was delivered
    let nontrivial = sim.stats.ready > 0 && sim.stats.vital_delivered[0] + sim.stats.vital_delivered[1] > 0;
    let mut h = 0u64;
    for s in &sim.states_seen {
        h ^= *s;
    }
    ctx.case(if nontrivial { Some(h) } else { None });
    if ctx.want_sample() && nontrivial && sim.log.len() >= 30 {
        ctx.sample(json!({"kind": kind, "variant": hp.variant.name(), "personality": hp.personality.to_json(),
            "first_moves": sim.log[..30].iter().map(|m| m.to_json()).collect::<Vec<_>>(), "total_moves": sim.log.len(),
            "vital_delivered": sim.stats.vital_delivered, "resend_chunks_on_wire": sim.stats.resend_chunks_on_wire}));
    }
}

fn dispatch(ctx: &mut Ctx, rng: &mut Rng, hp: &HistoryParams, kind: &str) {
    match hp.variant {
        Variant::V7 => one::<c7::Connection>(ctx, rng, hp, kind),
        _ => one::<c6::Connection>(ctx, rng, hp, kind),
    }
}

fn main() {
    let mut ctx = Ctx::from_args("C01");
    ctx.rule = "each case is one history of two real Connection endpoints over a virtual lossy/duplicating/reordering wire (per-history personality: loss 0-60%, dup 0-30%, reorder window 0-64, bursts, chunk sizes concentrated on boundaries); non-trivial = handshake completed and at least one vital chunk delivered; distinct = XOR-hash of the set of (state_A, state_B) fingerprints visited".into();
    ctx.assumptions = vec![
        "application drains every event iterator (harness does)".into(),
        "fewer than 500 vital chunks unacknowledged at once (checked through the verif_unacked hook before each vital send)".into(),
        "a datagram is dropped by the harness once either side assigned 500 further sequence numbers since its emission (quantifier: not delayed across 1024)".into(),
        "payload sizes stay within what send accepts; corruption of datagram contents is out of scope here (C03/C06)".into(),
    ];
    let n = ctx.volume(250, 8_000, 4, 20);
    ctx.arm("chaos-histories", 1800.0);
    ctx.run_cases("chaos", n, |ctx, idx, rng| {
        let variant = Variant::all()[(idx % 3) as usize];
        let moves = match ctx.tier {
            Tier::Miri => 120,
            _ => *rng.pick(&[200usize, 400, 1000, 2000, 5000]),
        };
        let hp = HistoryParams::random(rng, variant, moves);
        dispatch(ctx, rng, &hp, "chaos");
    });
    // Long histories: enough vital chunks per direction for the 10-bit sequence to wrap.
    let nlong = ctx.volume(1, 6, 0, 1);
    ctx.run_cases("long", nlong, |ctx, idx, rng| {
        let variant = Variant::all()[((idx + ctx.shard) % 3) as usize];
        let mut hp = HistoryParams::random(rng, variant, 40_000);
        hp.personality.loss = rng.range(0, 15) as u32;
        hp.personality.w_send = 40;
        hp.personality.w_deliver = 40;
        hp.personality.vital_pct = 100;
        hp.personality.big_pct = 0;
        hp.personality.both_send = true;
        dispatch(ctx, rng, &hp, "long");
    });
    ctx.disarm();
    ctx.finish();
}
