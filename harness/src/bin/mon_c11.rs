//! C11 — snapshot and delta parsers are total and enforce their limits.
//!
//! Hostile byte/integer sequences go through Snap::read / read_from_ints,
//! Delta::read / read_from_ints and Snap::read_with_delta. Oracles: value or
//! error, no panic, bounded CPU; a counting global allocator bounds the peak
//! allocation of each call by a small multiple of the input; every accepted
//! snapshot has <= 1024 items, re-serialises to <= 64 KiB, survives write+read
//! and can be used with every other snapshot operation.

use libtw2_gamenet_common::snap_obj::TypeId;
use libtw2_packer::with_packer;
use libtw2_packer::IntUnpacker;
use libtw2_packer::Unpacker;
use libtw2_snapshot::snap::Delta;
use libtw2_snapshot::Snap;
use serde_json::json;
use std::alloc::GlobalAlloc;
use std::alloc::Layout;
use std::alloc::System;
use std::sync::atomic::AtomicUsize;
use std::sync::atomic::Ordering;
use verif_harness::catch;
use verif_harness::refmodel::varint;
use verif_harness::snapgen::*;
use verif_harness::Ctx;
use verif_harness::Rng;
use verif_harness::Warnings;

// ---- allocation monitor
struct Counting;
static CUR: AtomicUsize = AtomicUsize::new(0);
static PEAK: AtomicUsize = AtomicUsize::new(0);

unsafe impl GlobalAlloc for Counting {
    unsafe fn alloc(&self, l: Layout) -> *mut u8 {
        let p = System.alloc(l);
        if !p.is_null() {
            let c = CUR.fetch_add(l.size(), Ordering::Relaxed) + l.size();
            PEAK.fetch_max(c, Ordering::Relaxed);
        }
        p
    }
    unsafe fn dealloc(&self, p: *mut u8, l: Layout) {
        System.dealloc(p, l);
        CUR.fetch_sub(l.size(), Ordering::Relaxed);
    }
    unsafe fn realloc(&self, p: *mut u8, l: Layout, new: usize) -> *mut u8 {
        let q = System.realloc(p, l, new);
        if !q.is_null() {
            if new >= l.size() {
                let c = CUR.fetch_add(new - l.size(), Ordering::Relaxed) + (new - l.size());
                PEAK.fetch_max(c, Ordering::Relaxed);
            } else {
                CUR.fetch_sub(l.size() - new, Ordering::Relaxed);
            }
        }
        q
    }
}
#[global_allocator]
static ALLOC: Counting = Counting;

/// Runs `f` and returns the peak number of bytes allocated above the level at entry.
fn with_peak<R, F: FnOnce() -> R>(f: F) -> (R, usize) {
    let base = CUR.load(Ordering::Relaxed);
    PEAK.store(base, Ordering::Relaxed);
    let r = f();
    let peak = PEAK.load(Ordering::Relaxed);
    (r, peak.saturating_sub(base))
}

fn alloc_limit(input_bytes: usize) -> usize {
    64 * input_bytes + 64 * 1024
}

fn ints_to_bytes(ints: &[i32]) -> Vec<u8> {
    let mut out = Vec::with_capacity(ints.len() * 2);
    for &i in ints {
        out.extend(varint::encode(i));
    }
    out
}

fn snap_ints(m: &Model) -> Vec<i32> {
    // doc/snapshot.md: data_size, num_items, offsets (bytes), items (key, data) in unsigned key order
    let mut keys: Vec<(&(u16, u16), &Vec<i32>)> = m.iter().collect();
    keys.sort_by_key(|(k, _)| ((k.0 as u32) << 16) | k.1 as u32);
    let mut out = Vec::new();
    let data_words: usize = keys.iter().map(|(_, d)| 1 + d.len()).sum();
    out.push((data_words * 4) as i32);
    out.push(keys.len() as i32);
    let mut off = 0i32;
    for (_, d) in &keys {
        out.push(off);
        off += 4 * (1 + d.len() as i32);
    }
    for (k, d) in &keys {
        out.push((((k.0 as u32) << 16) | k.1 as u32) as i32);
        out.extend(d.iter());
    }
    out
}

fn delta_ints(deleted: &[(u16, u16)], updated: &[((u16, u16), Vec<i32>)]) -> Vec<i32> {
    let mut out = vec![deleted.len() as i32, updated.len() as i32, 0];
    for k in deleted {
        out.push((((k.0 as u32) << 16) | k.1 as u32) as i32);
    }
    for (k, d) in updated {
        out.push(k.0 as i32);
        out.push(k.1 as i32);
        if obj_size(k.0).is_none() {
            out.push(d.len() as i32);
        }
        out.extend(d.iter());
    }
    out
}

const BOUNDARY: [i32; 14] = [0, 1, -1, 2, 3, 4, 5, 7, 8, i32::MIN, i32::MAX, 1024, 1025, 65536];

fn corrupt(rng: &mut Rng, ints: &[i32], header_len: usize) -> (Vec<i32>, &'static str) {
    let mut v = ints.to_vec();
    let n = v.len();
    match rng.below(9) {
        0 => {
            // header field
            if n > 0 {
                let i = rng.usize_below(header_len.min(n));
                v[i] = boundary(rng, v[i], n);
            }
            (v, "header-field")
        }
        1 => {
            // any field to a boundary value
            if n > 0 {
                let i = rng.usize_below(n);
                v[i] = boundary(rng, v[i], n);
            }
            (v, "any-field")
        }
        2 => {
            let cut = rng.usize_below(n + 1);
            v.truncate(cut);
            (v, "truncated")
        }
        3 => {
            // duplicate a stretch (duplicate keys / updates)
            if n > 3 {
                let a = rng.range(2, n as i64 - 1) as usize;
                let len = rng.range(1, (n - a).min(8) as i64) as usize;
                let dup: Vec<i32> = v[a..a + len].to_vec();
                let at = rng.range(a as i64, n as i64) as usize;
                for (j, x) in dup.into_iter().enumerate() {
                    v.insert(at + j, x);
                }
            }
            (v, "duplicated-stretch")
        }
        4 => {
            // oversized count
            if n > 1 {
                v[rng.usize_below(2)] = *rng.pick(&[1024, 1025, 2000, 16384, 65536, 1 << 20, i32::MAX]);
            }
            (v, "oversized-count")
        }
        5 => {
            // type number anywhere in the 16-bit range in a key-looking position
            if n > header_len {
                let i = rng.range(header_len as i64, n as i64 - 1) as usize;
                let t = *rng.pick(&[0u32, 1, 0x3fff, 0x4000, 0x4001, 0x7fff, 0x8000, 0xffff]);
                v[i] = ((t << 16) | (v[i] as u32 & 0xffff)) as i32;
            }
            (v, "type-number")
        }
        6 => {
            let extra = rng.range(1, 20) as usize;
            for _ in 0..extra {
                v.push(rng.edgy_i32());
            }
            (v, "extended")
        }
        7 => {
            if n > 0 {
                let i = rng.usize_below(n);
                v[i] = v[i].wrapping_add(*rng.pick(&[1, -1, 4, -4]));
            }
            (v, "off-by-small")
        }
        _ => {
            let (a, _) = corrupt(rng, &v, header_len);
            let (b, _) = corrupt(rng, &a, header_len);
            (b, "double")
        }
    }
}

fn boundary(rng: &mut Rng, old: i32, n: usize) -> i32 {
    match rng.below(5) {
        0 => *rng.pick(&BOUNDARY),
        1 => old.wrapping_add(*rng.pick(&[1, -1, 2, 3, 4, -4])),
        2 => (n as i32) * 4 + *rng.pick(&[-4, 0, 4, 1]),
        3 => (n as i32) + *rng.pick(&[-1, 0, 1]),
        _ => rng.edgy_i32(),
    }
}

struct Pools {
    snaps: Vec<(Snap, usize)>,
    deltas: Vec<Delta>,
}

/// Everything that must hold for an accepted snapshot.
fn accepted_snapshot(ctx: &mut Ctx, s: &Snap, pools: &Pools, origin: &str, case: &serde_json::Value) {
    let r = catch(|| -> Result<(), String> {
        let n = s.items().count();
        if s.items().len() != n {
            return Err("items-len-mismatch".into());
        }
        let mut buf = Vec::new();
        let mut ints = vec![0i32; 17_000];
        let written = s.write_to_ints(&mut buf, &mut ints).map_err(|_| "reserialises-over-64KiB".to_string())?.len();
        let total_items = ints[1] as usize;
        if total_items > 1024 {
            return Err("more-than-1024-items".into());
        }
        if written * 4 > 64 * 1024 {
            return Err("reserialises-over-64KiB".into());
        }
        let mut copy = Snap::empty();
        let mut w = Warnings::new();
        copy.read_from_ints(&mut w, &ints[..written]).map_err(|e| format!("reread-fails:{:?}", e))?;
        let a: Vec<_> = s.items().map(|i| (i.type_id, i.id, i.data.to_vec())).collect();
        let b: Vec<_> = copy.items().map(|i| (i.type_id, i.id, i.data.to_vec())).collect();
        if a != b || s.crc() != copy.crc() {
            return Err("reread-differs".into());
        }
        let mut bytes: Vec<u8> = Vec::with_capacity(400_000);
        with_packer(&mut bytes, |p| s.write(&mut buf, p).map(|_| ())).map_err(|_| "write-bytes-capacity".to_string())?;
        let mut tmp = Vec::new();
        copy.read(&mut w, &mut tmp, &bytes).map_err(|e| format!("reread-bytes-fails:{:?}", e))?;
        for (t, id, d) in &a {
            if s.item(*t, *id) != Some(&d[..]) {
                return Err(format!("lookup-of-enumerated-item-fails|{}", if matches!(t, TypeId::Uuid(_)) { "uuid" } else { "ordinal" }));
            }
        }
        // recycle + add_item + finish
        let mut b2 = s.clone().recycle();
        let _ = b2.add_item(TypeId::Ordinal(1), 0, &[1, 2, 3]);
        let _ = b2.add_item(TypeId::Uuid(uuid::Uuid::from_bytes([7; 16])), 1, &[4]);
        let s2 = b2.finish();
        let _ = s2.items().count();
        Ok(())
    });
    match r {
        Err(p) => ctx.panic_violation("follow-up on accepted snapshot", "recycle/add_item/write/items", &p, case.clone()),
        Ok(Err(e)) => ctx.violation("accepted-snapshot", "follow-up", &e, json!({"origin": origin}), case.clone()),
        Ok(Ok(())) => {}
    }
    // Delta::create against other accepted snapshots
    for (other, _) in pools.snaps.iter().rev().take(3) {
        let r = catch(|| {
            let mut d = Delta::new();
            d.create(other, s);
            d.create(s, other);
        });
        ctx.count("delta_create_between_accepted", 1);
        if let Err(p) = r {
            ctx.panic_violation("Delta::create", "two-accepted-snapshots", &p, case.clone());
        }
    }
}

fn feed_snapshot(ctx: &mut Ctx, pools: &mut Pools, ints: &[i32], origin: &str, as_bytes: bool) {
    let bytes = if as_bytes { ints_to_bytes(ints) } else { Vec::new() };
    let input_bytes = if as_bytes { bytes.len() } else { ints.len() * 4 };
    let case = json!({"kind": "snapshot", "origin": origin, "as_bytes": as_bytes, "ints": if ints.len() <= 400 { json!(ints) } else { json!({"len": ints.len(), "head": &ints[..40]}) }});
    // the destination is sometimes a reused object that held an accepted snapshot before
    // (Storage's free list does that): what it held must not shine through
    let mut snap = if !pools.snaps.is_empty() && ints.len() % 3 == 0 { pools.snaps[ints.len() % pools.snaps.len()].0.clone() } else { Snap::empty() };
    let mut tmp: Vec<i32> = Vec::new();
    let (r, peak) = with_peak(|| {
        catch(|| {
            let mut w = Warnings::new();
            if as_bytes {
                snap.read(&mut w, &mut tmp, &bytes)
            } else {
                snap.read_from_ints(&mut w, ints)
            }
        })
    });
    ctx.count("snapshot_inputs", 1);
    let site = if as_bytes { "Snap::read" } else { "Snap::read_from_ints" };
    if peak > alloc_limit(input_bytes) {
        ctx.violation("alloc", site, "peak-over-64x-input", json!({"peak_bytes": peak, "input_bytes": input_bytes, "origin": origin}), case.clone());
    }
    ctx.max("max_alloc_ratio_x100", (peak * 100 / input_bytes.max(64)) as u64);
    match r {
        Err(p) => ctx.panic_violation(site, "hostile-input", &p, case),
        Ok(Err(e)) => ctx.seen("snapshot_errors", &format!("{:?}", e)),
        Ok(Ok(())) => {
            ctx.count("snapshots_accepted", 1);
            // the limits are on what is accepted, whatever the route
            let n_items = snap.items().count();
            let mut wbuf = Vec::new();
            let mut out = vec![0i32; 40_000];
            let ser = catch(|| snap.write_to_ints(&mut wbuf, &mut out).map(|s| s.len()).ok());
            let ser_bytes = ser.as_ref().ok().and_then(|x| *x).map(|n| n * 4);
            if let Some(b) = ser_bytes {
                ctx.max("max_accepted_snapshot_bytes", b as u64);
            }
            let total_items = ser.as_ref().ok().and_then(|x| *x).map(|_| out[1] as usize).unwrap_or(n_items);
            ctx.max("max_accepted_snapshot_items", total_items as u64);
            if total_items > 1024 || ser_bytes.map(|b| b > 65536).unwrap_or(false) {
                ctx.violation("limit-not-enforced", site, if total_items > 1024 { "more-than-1024-items" } else { "more-than-64KiB" }, json!({"items": total_items, "bytes": ser_bytes, "origin": origin}), case.clone());
            }
            if origin != "valid" {
                ctx.count("corrupted_snapshots_accepted", 1);
            }
            accepted_snapshot(ctx, &snap, pools, origin, &case);
            if pools.snaps.len() < 64 {
                pools.snaps.push((snap, input_bytes));
            } else {
                let i = (ctx.evaluations as usize) % 64;
                pools.snaps[i] = (snap, input_bytes);
            }
        }
    }
}

fn feed_delta(ctx: &mut Ctx, pools: &mut Pools, ints: &[i32], origin: &str, as_bytes: bool) {
    let bytes = if as_bytes { ints_to_bytes(ints) } else { Vec::new() };
    let input_bytes = if as_bytes { bytes.len() } else { ints.len() * 4 };
    let case = json!({"kind": "delta", "origin": origin, "as_bytes": as_bytes, "ints": if ints.len() <= 400 { json!(ints) } else { json!({"len": ints.len(), "head": &ints[..40]}) }});
    let mut delta = Delta::new();
    let (r, peak) = with_peak(|| {
        catch(|| {
            let mut w = Warnings::new();
            if as_bytes {
                delta.read(&mut w, obj_size, &mut Unpacker::new(&bytes))
            } else {
                delta.read_from_ints(&mut w, obj_size, &mut IntUnpacker::new(ints))
            }
        })
    });
    ctx.count("delta_inputs", 1);
    let site = if as_bytes { "Delta::read" } else { "Delta::read_from_ints" };
    if peak > alloc_limit(input_bytes) {
        ctx.violation("alloc", site, "peak-over-64x-input", json!({"peak_bytes": peak, "input_bytes": input_bytes, "origin": origin}), case.clone());
    }
    match r {
        Err(p) => ctx.panic_violation(site, "hostile-input", &p, case),
        Ok(Err(e)) => ctx.seen("delta_errors", &format!("{:?}", e)),
        Ok(Ok(())) => {
            ctx.count("deltas_accepted", 1);
            // apply to accepted snapshots
            for (si, (s, sbytes)) in pools.snaps.iter().enumerate().rev().take(6) {
                let mut out = if si % 2 == 0 { pools.snaps[(si + 1) % pools.snaps.len()].0.clone() } else { Snap::empty() };
                let (r, peak) = with_peak(|| {
                    catch(|| {
                        let mut w = Warnings::new();
                        out.read_with_delta(&mut w, s, &delta)
                    })
                });
                ctx.count("applications", 1);
                let case2 = json!({"delta": case, "snapshot_pool_index": si, "snapshot": s.items().map(|i| json!([format!("{:?}", i.type_id), i.id, i.data.len()])).take(50).collect::<Vec<_>>()});
                if peak > alloc_limit(input_bytes + sbytes) {
                    ctx.violation("alloc", "Snap::read_with_delta", "peak-over-64x-input", json!({"peak_bytes": peak, "input_bytes": input_bytes + sbytes, "origin": origin}), case2.clone());
                }
                match r {
                    Err(p) => ctx.panic_violation("Snap::read_with_delta", "accepted-delta-on-accepted-snapshot", &p, case2),
                    Ok(Err(e)) => ctx.seen("apply_errors", &format!("{:?}", e)),
                    Ok(Ok(())) => {
                        ctx.count("applications_accepted", 1);
                        accepted_snapshot(ctx, &out, pools, "delta-result", &case2);
                    }
                }
            }
            if pools.deltas.len() < 16 {
                pools.deltas.push(delta);
            }
        }
    }
}

/// A valid snapshot that exercises the UUID registry at the raw level.
fn valid_snapshot(rng: &mut Rng) -> Model {
    let nkeys = if cfg!(miri) { *rng.pick(&[0usize, 1, 3, 10]) } else { *rng.pick(&[0usize, 1, 3, 10, 50, 300, 1024]) };
    let maxw = *rng.pick(&[0usize, 2, 8, 60]);
    let u = Universe::random(rng, nkeys, maxw, 0x3fff);
    let mut m = u.snapshot(rng, 80);
    // registry-type items must be 4 words, the generator above may have made type-0 items of any size: fix them up
    let keys: Vec<(u16, u16)> = m.keys().filter(|k| k.0 == 0).cloned().collect();
    for k in keys {
        m.insert(k, vec![rng.i32(), rng.i32(), rng.i32(), k.1 as i32]);
    }
    // a few UUID types with items
    for i in 0..rng.below(4) as u16 {
        let t = 0x4000 + i;
        if m.len() + 2 < 1024 && model_size(&m) + 64 < 65536 {
            m.insert((0, t), vec![rng.i32(), rng.i32(), rng.i32(), i as i32]);
            m.insert((t, rng.below(0x10000) as u16), vec![value(rng)]);
        }
    }
    m
}

fn valid_delta(rng: &mut Rng, base: &Model) -> Vec<i32> {
    let mut deleted = Vec::new();
    let mut updated = Vec::new();
    for (k, d) in base {
        match rng.below(4) {
            0 => deleted.push(*k),
            1 => updated.push((*k, d.iter().map(|_| rng.range(-3, 3) as i32).collect())),
            _ => {}
        }
    }
    for _ in 0..rng.below(5) {
        let t = *rng.pick(&[1u16, 2, 3, 21, 22, 0x100, 0x3fff]);
        let size = obj_size(t).map(|s| s as usize).unwrap_or(rng.usize_below(5));
        let k = (t, rng.below(0x10000) as u16);
        if !base.contains_key(&k) {
            updated.push((k, (0..size).map(|_| value(rng)).collect()));
        }
    }
    delta_ints(&deleted, &updated)
}

fn main() {
    let mut ctx = Ctx::from_args("C11");
    ctx.rule = "inputs: PRNG word/byte sequences; valid snapshots and deltas (built by an independent serializer from doc/snapshot.md) with header-field / any-field boundary values (0, +-1, unaligned, MIN, MAX, just past the end), truncation at a random position, duplicated stretches, oversized counts, type numbers over the 16-bit range, extension, double corruption; each as integers and as packed bytes; every accepted delta is applied to up to 6 accepted snapshots; non-trivial = input differs from its valid base; distinct = hash of the input integers".into();
    ctx.assumptions = vec![
        "allocation bound: peak bytes allocated during one call <= 64 x input bytes + 64 KiB (input = the bytes or 4 x the integers handed in, plus the snapshot for read_with_delta)".into(),
        "pre-agreed sizes: types 1..20 (1..3 words); everything else explicit".into(),
    ];
    let mut pools = Pools { snaps: Vec::new(), deltas: Vec::new() };
    ctx.arm("c11", 1800.0);
    let n = ctx.volume(8_000, 300_000, 30, 2_000);
    ctx.run_cases("snapshots", n, |ctx, _i, rng| {
        let (ints, origin): (Vec<i32>, &str) = match rng.below(11) {
            10 if cfg!(miri) => (vec![0, 0], "valid"),
            0 => {
                let l = rng.range(0, 40) as usize;
                ((0..l).map(|_| rng.edgy_i32()).collect(), "random-words")
            }
            1 => {
                let m = valid_snapshot(rng);
                (snap_ints(&m), "valid")
            }
            10 if !cfg!(miri) => {
                // snapshots sized exactly around the 64 KiB / 1024-item limits
                let mut m = Model::new();
                if rng.bool() {
                    let target_bytes = (65536i64 + *rng.pick(&[-16i64, -8, -4, 0, 4, 8, 12, 16])) as usize;
                    let n = *rng.pick(&[1usize, 2, 7, 100]);
                    // bytes = 4 * (2 + 2n + words)
                    let words = target_bytes / 4 - 2 - 2 * n;
                    for i in 0..n {
                        let w = if i + 1 == n { words - (words / n) * (n - 1) } else { words / n };
                        m.insert((100, i as u16), vec![i as i32; w]);
                    }
                } else {
                    let n = *rng.pick(&[1023usize, 1024, 1025, 1026]);
                    for i in 0..n {
                        m.insert((100 + (i / 600) as u16, (i % 600) as u16), vec![]);
                    }
                }
                (snap_ints(&m), "limit-boundary")
            }
            _ => {
                let m = valid_snapshot(rng);
                let base = snap_ints(&m);
                let nitems = m.len();
                let (c, what) = corrupt(rng, &base, 2 + nitems);
                (c, what)
            }
        };
        let as_bytes = rng.chance(1, 3);
        feed_snapshot(ctx, &mut pools, &ints, origin, as_bytes);
        ctx.count(&format!("snapshot_input[{}]", origin), 1);
        ctx.case(if origin == "valid" { None } else { Some(verif_harness::fnv1a(&ints_to_bytes(&ints))) });
        if ctx.want_sample() && ints.len() <= 24 && origin != "valid" && origin != "random-words" {
            ctx.sample(json!({"kind": "snapshot", "corruption": origin, "ints": ints}));
        }
    });
    ctx.run_cases("deltas", n, |ctx, _i, rng| {
        // make sure there are snapshots to apply to
        if pools.snaps.len() < 8 {
            let m = valid_snapshot(rng);
            feed_snapshot(ctx, &mut pools, &snap_ints(&m), "valid", false);
        }
        let base_model = valid_snapshot(rng);
        if rng.chance(1, 4) {
            feed_snapshot(ctx, &mut pools, &snap_ints(&base_model), "valid", false);
        }
        let (ints, origin): (Vec<i32>, &str) = match rng.below(10) {
            0 => {
                let l = rng.range(0, 40) as usize;
                ((0..l).map(|_| rng.edgy_i32()).collect(), "random-words")
            }
            1 | 2 => (valid_delta(rng, &base_model), "valid"),
            _ => {
                let base = valid_delta(rng, &base_model);
                let (c, what) = corrupt(rng, &base, 3);
                (c, what)
            }
        };
        let as_bytes = rng.chance(1, 3);
        feed_delta(ctx, &mut pools, &ints, origin, as_bytes);
        ctx.count(&format!("delta_input[{}]", origin), 1);
        ctx.case(if origin == "valid" { None } else { Some(verif_harness::fnv1a(&ints_to_bytes(&ints)) ^ 0xde17a) });
        if ctx.want_sample() && ints.len() <= 24 && origin != "valid" && origin != "random-words" {
            ctx.sample(json!({"kind": "delta", "corruption": origin, "ints": ints}));
        }
    });
    ctx.disarm();
    ctx.finish();
}
