//! Shared machinery of the runtime monitors: PRNG, case runner, panic capture,
//! CPU watchdog, violation records with signatures and replay data, shard
//! output. One monitor binary per property lives in src/bin/.
//!
//! A monitor process is one *shard* of one check. It writes a single JSON file
//! (`--out`) that the driver (/verif/check) merges with the other shards'.

#![allow(clippy::new_without_default)]

use serde_json::json;
use serde_json::Value;
use std::any::Any;
use std::cell::RefCell;
use std::collections::BTreeMap;
use std::collections::HashSet;
use std::panic;
use std::sync::atomic::AtomicU64;
use std::sync::atomic::Ordering;
use std::sync::Mutex;
use std::time::Instant;

pub mod canary;
pub mod netsim;
pub mod pktgen;
pub mod snapgen;
pub mod refmodel;

// ---------------------------------------------------------------- PRNG

pub fn splitmix64(state: &mut u64) -> u64 {
    *state = state.wrapping_add(0x9e37_79b9_7f4a_7c15);
    let mut z = *state;
    z = (z ^ (z >> 30)).wrapping_mul(0xbf58_476d_1ce4_e5b9);
    z = (z ^ (z >> 27)).wrapping_mul(0x94d0_49bb_1331_11eb);
    z ^ (z >> 31)
}

pub fn fnv1a(bytes: &[u8]) -> u64 {
    let mut h: u64 = 0xcbf2_9ce4_8422_2325;
    for &b in bytes {
        h ^= b as u64;
        h = h.wrapping_mul(0x0000_0100_0000_01b3);
    }
    h
}

pub fn mix(a: u64, b: u64) -> u64 {
    let mut s = a ^ b.rotate_left(32) ^ 0x5851_f42d_4c95_7f2d;
    splitmix64(&mut s)
}

/// xoshiro256**
#[derive(Clone, Debug)]
pub struct Rng {
    s: [u64; 4],
}

impl Rng {
    pub fn new(seed: u64) -> Rng {
        let mut sm = seed;
        Rng {
            s: [
                splitmix64(&mut sm),
                splitmix64(&mut sm),
                splitmix64(&mut sm),
                splitmix64(&mut sm),
            ],
        }
    }
    pub fn u64(&mut self) -> u64 {
        let result = self.s[1].wrapping_mul(5).rotate_left(7).wrapping_mul(9);
        let t = self.s[1] << 17;
        self.s[2] ^= self.s[0];
        self.s[3] ^= self.s[1];
        self.s[1] ^= self.s[2];
        self.s[0] ^= self.s[3];
        self.s[2] ^= t;
        self.s[3] = self.s[3].rotate_left(45);
        result
    }
    pub fn u32(&mut self) -> u32 {
        (self.u64() >> 32) as u32
    }
    pub fn i32(&mut self) -> i32 {
        self.u32() as i32
    }
    pub fn u8(&mut self) -> u8 {
        (self.u64() >> 56) as u8
    }
    /// Uniform in 0..n (n > 0).
    pub fn below(&mut self, n: u64) -> u64 {
        assert!(n > 0);
        // Bias is irrelevant here.
        ((self.u64() as u128 * n as u128) >> 64) as u64
    }
    pub fn usize_below(&mut self, n: usize) -> usize {
        self.below(n as u64) as usize
    }
    /// Uniform in lo..=hi.
    pub fn range(&mut self, lo: i64, hi: i64) -> i64 {
        assert!(lo <= hi);
        lo + self.below((hi - lo) as u64 + 1) as i64
    }
    pub fn chance(&mut self, num: u64, den: u64) -> bool {
        self.below(den) < num
    }
    pub fn bool(&mut self) -> bool {
        self.u64() >> 63 != 0
    }
    pub fn pick<'a, T>(&mut self, xs: &'a [T]) -> &'a T {
        &xs[self.usize_below(xs.len())]
    }
    pub fn weighted(&mut self, weights: &[u32]) -> usize {
        let total: u64 = weights.iter().map(|&w| w as u64).sum();
        let mut x = self.below(total);
        for (i, &w) in weights.iter().enumerate() {
            if x < w as u64 {
                return i;
            }
            x -= w as u64;
        }
        unreachable!()
    }
    pub fn fill(&mut self, buf: &mut [u8]) {
        for chunk in buf.chunks_mut(8) {
            let v = self.u64().to_le_bytes();
            chunk.copy_from_slice(&v[..chunk.len()]);
        }
    }
    pub fn bytes(&mut self, len: usize) -> Vec<u8> {
        let mut v = vec![0; len];
        self.fill(&mut v);
        v
    }
    pub fn shuffle<T>(&mut self, xs: &mut [T]) {
        for i in (1..xs.len()).rev() {
            let j = self.usize_below(i + 1);
            xs.swap(i, j);
        }
    }
    /// An `i32` drawn from boundary values most of the time.
    pub fn edgy_i32(&mut self) -> i32 {
        match self.below(12) {
            0 => 0,
            1 => 1,
            2 => -1,
            3 => i32::MIN,
            4 => i32::MAX,
            5 => i32::MIN + 1,
            6 => i32::MAX - 1,
            7 => self.range(-64, 64) as i32,
            8 => self.range(-70000, 70000) as i32,
            9 => 1 << self.below(31),
            10 => -(1 << self.below(31)),
            _ => self.i32(),
        }
    }
}

pub fn hex(bytes: &[u8]) -> String {
    let mut s = String::with_capacity(bytes.len() * 2);
    for b in bytes {
        s.push_str(&format!("{:02x}", b));
    }
    s
}

pub fn unhex(s: &str) -> Vec<u8> {
    let s = s.as_bytes();
    assert!(s.len() % 2 == 0);
    (0..s.len() / 2)
        .map(|i| u8::from_str_radix(std::str::from_utf8(&s[2 * i..2 * i + 2]).unwrap(), 16).unwrap())
        .collect()
}

/// Hex for samples/replays: long inputs are abbreviated for *samples* only.
pub fn hex_short(bytes: &[u8]) -> String {
    if bytes.len() <= 48 {
        hex(bytes)
    } else {
        format!(
            "{}..({} bytes)..{}",
            hex(&bytes[..24]),
            bytes.len(),
            hex(&bytes[bytes.len() - 8..])
        )
    }
}

// ---------------------------------------------------------------- panic capture

thread_local! {
    static LAST_PANIC: RefCell<Option<(String, String)>> = RefCell::new(None);
    static QUIET: RefCell<bool> = RefCell::new(false);
    static UNWINDING: std::cell::Cell<u32> = std::cell::Cell::new(0);
}

#[derive(Clone, Debug)]
pub struct Panicked {
    /// Message with digits and paths stripped (for signatures).
    pub msg_sig: String,
    /// Full message.
    pub msg: String,
    /// file:line:col
    pub location: String,
    /// Just the file (repo relative where possible), no line numbers.
    pub file: String,
}

fn payload_to_string(p: &(dyn Any + Send)) -> String {
    if let Some(s) = p.downcast_ref::<&'static str>() {
        s.to_string()
    } else if let Some(s) = p.downcast_ref::<String>() {
        s.clone()
    } else {
        "<non-string panic payload>".to_string()
    }
}

pub fn install_panic_hook() {
    let default = panic::take_hook();
    panic::set_hook(Box::new(move |info| {
        let loc = info
            .location()
            .map(|l| format!("{}:{}:{}", l.file(), l.line(), l.column()))
            .unwrap_or_default();
        let msg = payload_to_string(info.payload());
        let quiet = QUIET.with(|q| *q.borrow());
        let first = LAST_PANIC.with(|p| p.borrow().clone());
        let depth = UNWINDING.with(|d| {
            let n = d.get();
            d.set(n + 1);
            n
        });
        if quiet && depth >= 1 {
            // A second panic while the first one is still unwinding inside one
            // `catch`: the runtime aborts the process right after this hook.
            // When the code under test is involved this is recorded as a
            // violation (with phase and case for replay) instead of a dead shard.
            let (fmsg, floc) = first.clone().unwrap_or_default();
            if loc.starts_with("/repo/") || floc.starts_with("/repo/") {
                let info = WD_INFO.lock().ok().and_then(|g| g.clone());
                if let Some(wi) = info {
                    let case = WD_CASE.load(Ordering::SeqCst);
                    let mut replay = wi.base.clone();
                    replay["phase"] = json!(wi.phase);
                    replay["case"] = json!(case);
                    let file = |l: &str| l.split(':').next().unwrap_or("").trim_start_matches("/repo/").rsplit("/registry/src/").next().unwrap_or("").to_string();
                    let v = json!({
                        "property": wi.property,
                        "uncaught_panic": true,
                        "violations": [{
                            "signature": format!("{}|abort|panic while unwinding in phase {}|first={}|in={}|second={}|in={}", wi.property, wi.phase, strip_numbers(&fmsg), file(&floc), strip_numbers(&msg), file(&loc)),
                            "clause": "abort",
                            "detail": {"first_message": fmsg, "first_location": floc, "second_message": msg, "second_location": loc, "phase": wi.phase, "case": case},
                            "replay": replay,
                            "count": 1,
                        }],
                    });
                    let _ = std::fs::write(&wi.out, to_json(&v));
                    eprintln!("panic while unwinding in the code under test: first {} at {}; then {} at {}", fmsg, floc, msg, loc);
                    std::process::exit(0);
                }
            }
            default(info);
            return;
        }
        LAST_PANIC.with(|p| *p.borrow_mut() = Some((msg.clone(), loc.clone())));
        if !quiet {
            // Safety net: a panic of the code under test that escaped every
            // `catch` of the monitor still becomes a violation record (with the
            // phase and case for replay) instead of a dead shard.
            if loc.starts_with("/repo/") {
                let info = WD_INFO.lock().ok().and_then(|g| g.clone());
                if let Some(wi) = info {
                    let case = WD_CASE.load(Ordering::SeqCst);
                    let mut replay = wi.base.clone();
                    replay["phase"] = json!(wi.phase);
                    replay["case"] = json!(case);
                    let file = loc.split(':').next().unwrap_or("").trim_start_matches("/repo/").to_string();
                    let v = json!({
                        "property": wi.property,
                        "uncaught_panic": true,
                        "violations": [{
                            "signature": format!("{}|panic|uncaught in phase {}|msg={}|in={}", wi.property, wi.phase, strip_numbers(&msg), file),
                            "clause": "panic",
                            "detail": {"message": msg, "location": loc, "phase": wi.phase, "case": case},
                            "replay": replay,
                            "count": 1,
                        }],
                    });
                    let _ = std::fs::write(&wi.out, to_json(&v));
                    eprintln!("uncaught panic of the code under test at {}: {}", loc, msg);
                    std::process::exit(0);
                }
            }
            default(info);
        }
    }));
}

/// Strips digits (collapsed to `N`) so that signatures do not depend on the
/// concrete values in assertion messages.
pub fn strip_numbers(s: &str) -> String {
    let mut out = String::new();
    let mut in_num = false;
    for c in s.chars() {
        if c.is_ascii_digit() {
            if !in_num {
                out.push('N');
            }
            in_num = true;
        } else {
            in_num = false;
            out.push(c);
        }
    }
    if out.len() > 160 {
        let mut cut = 160;
        while !out.is_char_boundary(cut) {
            cut -= 1;
        }
        out.truncate(cut);
    }
    out
}

/// Runs `f`, catching panics of the code under test. The monitor's own state
/// must not be borrowed mutably across this boundary in a way that a panic
/// would leave inconsistent; callers treat the objects touched by `f` as
/// poisoned afterwards.
pub fn catch<R, F: FnOnce() -> R>(f: F) -> Result<R, Panicked> {
    let was_quiet = QUIET.with(|q| std::mem::replace(&mut *q.borrow_mut(), true));
    LAST_PANIC.with(|p| *p.borrow_mut() = None);
    UNWINDING.with(|d| d.set(0));
    let r = panic::catch_unwind(panic::AssertUnwindSafe(f));
    UNWINDING.with(|d| d.set(0));
    QUIET.with(|q| *q.borrow_mut() = was_quiet);
    match r {
        Ok(v) => Ok(v),
        Err(payload) => {
            let (msg, location) = LAST_PANIC
                .with(|p| p.borrow_mut().take())
                .unwrap_or_else(|| (payload_to_string(&*payload), String::new()));
            let file = location
                .split(':')
                .next()
                .unwrap_or("")
                .trim_start_matches("/repo/")
                .to_string();
            Err(Panicked {
                msg_sig: strip_numbers(&msg),
                msg,
                location,
                file,
            })
        }
    }
}

// ---------------------------------------------------------------- CPU watchdog

static WD_ARMED_AT_NS: AtomicU64 = AtomicU64::new(0); // 0 = disarmed
static WD_LIMIT_NS: AtomicU64 = AtomicU64::new(0);
static WD_CASE: AtomicU64 = AtomicU64::new(0);
static WD_INFO: Mutex<Option<WatchdogInfo>> = Mutex::new(None);

#[derive(Clone)]
#[allow(dead_code)]
struct WatchdogInfo {
    out: String,
    property: String,
    base: Value,
    phase: String,
    site: String,
}

#[cfg(not(miri))]
fn process_cpu_ns() -> u64 {
    let mut ts = libc::timespec {
        tv_sec: 0,
        tv_nsec: 0,
    };
    unsafe {
        libc::clock_gettime(libc::CLOCK_PROCESS_CPUTIME_ID, &mut ts);
    }
    ts.tv_sec as u64 * 1_000_000_000 + ts.tv_nsec as u64
}
#[cfg(miri)]
fn process_cpu_ns() -> u64 {
    1
}

#[cfg(not(miri))]
fn start_watchdog() {
    std::thread::spawn(|| loop {
        std::thread::sleep(std::time::Duration::from_millis(100));
        let armed = WD_ARMED_AT_NS.load(Ordering::SeqCst);
        if armed == 0 {
            continue;
        }
        let limit = WD_LIMIT_NS.load(Ordering::SeqCst);
        let now = process_cpu_ns();
        if now.saturating_sub(armed) > limit {
            // Re-check that the same section is still armed.
            if WD_ARMED_AT_NS.load(Ordering::SeqCst) != armed {
                continue;
            }
            let info = WD_INFO.lock().unwrap().clone();
            if let Some(info) = info {
                let case = WD_CASE.load(Ordering::SeqCst);
                let mut replay = info.base.clone();
                replay["phase"] = json!(info.phase);
                replay["case"] = json!(case);
                let v = json!({
                    "property": info.property,
                    "watchdog_fired": true,
                    "violations": [{
                        "signature": format!("{}|no-return|{}|cpu-budget", info.property, info.site),
                        "clause": "no-return",
                        "detail": {"cpu_limit_s": limit as f64 / 1e9, "phase": info.phase, "case": case},
                        "replay": replay,
                        "count": 1,
                    }],
                });
                let _ = std::fs::write(&info.out, to_json(&v));
            }
            std::process::exit(0);
        }
    });
}
#[cfg(miri)]
fn start_watchdog() {}

// ---------------------------------------------------------------- context

#[derive(Clone, Copy, Debug, PartialEq, Eq)]
pub enum Tier {
    Quick,
    Thorough,
    Miri,
    Asan,
}

pub struct Violation {
    pub signature: String,
    pub clause: String,
    pub detail: Value,
    pub replay: Value,
    pub count: u64,
}

pub struct Ctx {
    pub property: String,
    pub tier: Tier,
    pub profile: String,
    pub seed: u64,
    pub shard: u64,
    pub nshards: u64,
    pub out: Option<String>,
    pub replay: Option<Value>,
    pub evaluations: u64,
    pub distinct: HashSet<u64>,
    pub distinct_overflow: u64,
    pub counters: BTreeMap<String, u64>,
    pub maxima: BTreeMap<String, u64>,
    pub sets: BTreeMap<String, std::collections::BTreeSet<String>>,
    pub samples: Vec<Value>,
    pub violations: BTreeMap<String, Violation>,
    pub exhaustive: Option<bool>,
    pub notes: Vec<String>,
    /// How cases are generated and what makes one non-trivial/distinct.
    pub rule: String,
    pub assumptions: Vec<String>,
    cur_phase: String,
    cur_case: u64,
    started: Instant,
}

const DISTINCT_CAP: usize = 400_000;
const SAMPLE_CAP: usize = 6;

impl Ctx {
    /// Parses `--tier T --seed S --shard I --nshards N --out FILE [--replay FILE]
    /// [--profile P]` from argv.
    pub fn from_args(property: &str) -> Ctx {
        let args: Vec<String> = std::env::args().collect();
        let mut tier = Tier::Quick;
        let mut seed = 1u64;
        let mut shard = 0u64;
        let mut nshards = 1u64;
        let mut out = None;
        let mut replay = None;
        let mut profile = "monitor".to_string();
        let mut i = 1;
        while i < args.len() {
            let val = || args.get(i + 1).cloned().unwrap_or_else(|| panic!("missing value for {}", args[i]));
            match &args[i][..] {
                "--tier" => {
                    tier = match &val()[..] {
                        "quick" => Tier::Quick,
                        "thorough" => Tier::Thorough,
                        "miri" => Tier::Miri,
                        "asan" => Tier::Asan,
                        t => panic!("unknown tier {}", t),
                    }
                }
                "--seed" => seed = val().parse().unwrap(),
                "--shard" => shard = val().parse().unwrap(),
                "--nshards" => nshards = val().parse().unwrap(),
                "--out" => out = Some(val()),
                "--profile" => profile = val(),
                "--replay" => {
                    let text = std::fs::read_to_string(val()).expect("replay file");
                    replay = Some(serde_json::from_str(&text).expect("replay json"));
                }
                a => panic!("unknown argument {}", a),
            }
            i += 2;
        }
        if let Some(r) = &replay {
            let r: &Value = r;
            seed = r["seed"].as_u64().unwrap_or(seed);
            shard = r["shard"].as_u64().unwrap_or(shard);
            nshards = r["nshards"].as_u64().unwrap_or(nshards);
            tier = match r["tier"].as_str() {
                Some("thorough") => Tier::Thorough,
                Some("miri") => Tier::Miri,
                Some("asan") => Tier::Asan,
                _ => Tier::Quick,
            };
        }
        install_panic_hook();
        start_watchdog();
        let ctx = Ctx {
            property: property.to_string(),
            tier,
            profile,
            seed,
            shard,
            nshards,
            out,
            replay,
            evaluations: 0,
            distinct: HashSet::new(),
            distinct_overflow: 0,
            counters: BTreeMap::new(),
            maxima: BTreeMap::new(),
            sets: BTreeMap::new(),
            samples: Vec::new(),
            violations: BTreeMap::new(),
            exhaustive: None,
            notes: Vec::new(),
            rule: String::new(),
            assumptions: Vec::new(),
            cur_phase: String::new(),
            cur_case: 0,
            started: Instant::now(),
        };
        *WD_INFO.lock().unwrap() = Some(WatchdogInfo {
            out: ctx.out.clone().unwrap_or_else(|| "/dev/null".into()),
            property: ctx.property.clone(),
            base: ctx.replay_base(),
            phase: String::new(),
            site: String::new(),
        });
        ctx
    }

    pub fn tier_name(&self) -> &'static str {
        match self.tier {
            Tier::Quick => "quick",
            Tier::Thorough => "thorough",
            Tier::Miri => "miri",
            Tier::Asan => "asan",
        }
    }

    /// Chooses a volume by tier. Values are *per shard*.
    pub fn volume(&self, quick: u64, thorough: u64, miri: u64, asan: u64) -> u64 {
        match self.tier {
            Tier::Quick => quick,
            Tier::Thorough => thorough,
            Tier::Miri => miri,
            Tier::Asan => asan,
        }
    }

    pub fn is_sanitizer_tier(&self) -> bool {
        matches!(self.tier, Tier::Miri | Tier::Asan)
    }

    fn replay_base(&self) -> Value {
        json!({
            "property": self.property,
            "seed": self.seed,
            "shard": self.shard,
            "nshards": self.nshards,
            "tier": self.tier_name(),
            "profile": self.profile,
        })
    }

    /// Seed for case `idx` of phase `phase` in this shard.
    pub fn case_seed(&self, phase: &str, idx: u64) -> u64 {
        let mut s = mix(self.seed, fnv1a(self.property.as_bytes()));
        s = mix(s, fnv1a(phase.as_bytes()));
        s = mix(s, self.shard.wrapping_mul(0x1_0000_0001).wrapping_add(self.nshards));
        mix(s, idx)
    }

    /// Runs `n` cases of `phase` (or only the replayed one). Each case gets its
    /// own PRNG derived from (seed, property, phase, shard, idx) so that it can
    /// be re-executed in isolation.
    pub fn run_cases<F: FnMut(&mut Ctx, u64, &mut Rng)>(&mut self, phase: &str, n: u64, mut f: F) {
        let only: Option<u64> = match &self.replay {
            Some(r) => {
                if r["phase"].as_str() != Some(phase) {
                    return;
                }
                Some(r["case"].as_u64().expect("replay case"))
            }
            None => None,
        };
        self.cur_phase = phase.to_string();
        if let Some(info) = WD_INFO.lock().unwrap().as_mut() {
            info.phase = phase.to_string();
        }
        let range = match only {
            Some(c) => c..c + 1,
            None => 0..n,
        };
        for idx in range {
            self.cur_case = idx;
            WD_CASE.store(idx, Ordering::Relaxed);
            let mut rng = Rng::new(self.case_seed(phase, idx));
            f(self, idx, &mut rng);
        }
    }

    /// Sets the phase name without the case loop (for exhaustive sweeps that
    /// partition a range over shards themselves).
    pub fn set_phase(&mut self, phase: &str) -> bool {
        if let Some(r) = &self.replay {
            if r["phase"].as_str() != Some(phase) {
                return false;
            }
        }
        self.cur_phase = phase.to_string();
        if let Some(info) = WD_INFO.lock().unwrap().as_mut() {
            info.phase = phase.to_string();
        }
        true
    }
    pub fn set_case(&mut self, idx: u64) {
        self.cur_case = idx;
        WD_CASE.store(idx, Ordering::Relaxed);
    }
    pub fn replay_case(&self) -> Option<u64> {
        self.replay.as_ref().and_then(|r| r["case"].as_u64())
    }

    /// Arms the CPU watchdog for the code that follows: if the process burns
    /// more than `cpu_s` CPU seconds before `disarm`, a `no-return` violation
    /// for (`site`, current phase and case) is recorded and the shard ends.
    pub fn arm(&self, site: &str, cpu_s: f64) {
        if let Some(info) = WD_INFO.lock().unwrap().as_mut() {
            if info.site != site {
                info.site = site.to_string();
            }
        }
        WD_LIMIT_NS.store((cpu_s * 1e9) as u64, Ordering::SeqCst);
        WD_ARMED_AT_NS.store(process_cpu_ns().max(1), Ordering::SeqCst);
    }
    pub fn disarm(&self) {
        WD_ARMED_AT_NS.store(0, Ordering::SeqCst);
    }

    pub fn count(&mut self, key: &str, n: u64) {
        if let Some(c) = self.counters.get_mut(key) {
            *c += n;
        } else {
            self.counters.insert(key.to_string(), n);
        }
    }
    pub fn max(&mut self, key: &str, v: u64) {
        let e = self.maxima.entry(key.to_string()).or_insert(0);
        if v > *e {
            *e = v;
        }
    }
    /// Records a member of a small named set (error variants seen, states, ...).
    pub fn seen(&mut self, set: &str, member: &str) {
        let s = self.sets.entry(set.to_string()).or_default();
        if s.len() < 2000 && !s.contains(member) {
            s.insert(member.to_string());
        }
    }

    /// One executed case. `nontrivial_class` is `Some(hash)` when the case is
    /// non-trivial by the monitor's stated rule; the hash identifies the case
    /// for distinct counting.
    pub fn case(&mut self, nontrivial_class: Option<u64>) {
        self.evaluations += 1;
        if let Some(h) = nontrivial_class {
            // Beyond the cap nothing more is counted (conservative undercount).
            if self.distinct.len() < DISTINCT_CAP {
                self.distinct.insert(h);
            }
        }
    }
    /// Bulk accounting for sweeps whose cases are distinct by construction.
    pub fn cases_bulk(&mut self, evaluations: u64, distinct_by_construction: u64) {
        self.evaluations += evaluations;
        self.distinct_overflow += distinct_by_construction;
    }

    pub fn sample(&mut self, v: Value) {
        if self.samples.len() < SAMPLE_CAP {
            self.samples.push(v);
        }
    }
    pub fn want_sample(&self) -> bool {
        self.samples.len() < SAMPLE_CAP
    }

    /// Records a violation. `site` and `class` go into the signature and must be
    /// deterministic (no seeds, addresses, line numbers).
    pub fn violation(&mut self, clause: &str, site: &str, class: &str, detail: Value, case_data: Value) {
        let signature = format!("{}|{}|{}|{}", self.property, clause, site, class);
        if let Some(v) = self.violations.get_mut(&signature) {
            v.count += 1;
            return;
        }
        let mut replay = self.replay_base();
        replay["phase"] = json!(self.cur_phase);
        replay["case"] = json!(self.cur_case);
        replay["case_data"] = case_data;
        if self.replay.is_some() {
            eprintln!("replayed violation: {} detail={}", signature, detail);
        }
        self.violations.insert(
            signature.clone(),
            Violation {
                signature,
                clause: clause.to_string(),
                detail,
                replay,
                count: 1,
            },
        );
    }

    /// Convenience: violation for a panic.
    pub fn panic_violation(&mut self, site: &str, class: &str, p: &Panicked, case_data: Value) {
        let site = format!("{}|msg={}|in={}", site, p.msg_sig, p.file);
        self.violation(
            "panic",
            &site,
            class,
            json!({"message": p.msg, "location": p.location}),
            case_data,
        );
    }

    pub fn note(&mut self, s: &str) {
        if !self.notes.iter().any(|n| n == s) {
            self.notes.push(s.to_string());
        }
    }

    /// Writes the shard result and exits 0. The driver decides the verdict.
    pub fn finish(self) -> ! {
        self.disarm();
        let mut hashes: Vec<u64> = self.distinct.iter().copied().collect();
        hashes.sort_unstable();
        let v = json!({
            "property": self.property,
            "tier": self.tier_name(),
            "profile": self.profile,
            "seed": self.seed,
            "shard": self.shard,
            "nshards": self.nshards,
            "evaluations": self.evaluations,
            "distinct_hashes": hashes.iter().map(|h| format!("{:x}", h)).collect::<Vec<_>>(),
            "distinct_extra": self.distinct_overflow,
            "counters": self.counters,
            "maxima": self.maxima,
            "sets": self.sets,
            "samples": self.samples,
            "exhaustive": self.exhaustive,
            "notes": self.notes,
            "rule": self.rule,
            "assumptions": self.assumptions,
            "wall_s": self.started.elapsed().as_secs_f64(),
            "violations": self.violations.values().map(|v| json!({
                "signature": v.signature,
                "clause": v.clause,
                "detail": v.detail,
                "replay": v.replay,
                "count": v.count,
            })).collect::<Vec<_>>(),
        });
        let text = to_json(&v);
        match &self.out {
            Some(path) => std::fs::write(path, text).expect("write shard output"),
            None => println!("{}", text),
        }
        if self.replay.is_some() {
            if self.violations.is_empty() {
                println!("REPLAY property={} verdict=held", self.property);
            } else {
                for v in self.violations.values() {
                    println!("REPLAY property={} verdict=violated signature={}", self.property, v.signature);
                }
            }
        }
        std::process::exit(0)
    }
}

/// A warning sink that records the `Debug` rendering of every warning.
#[derive(Default, Debug, Clone)]
pub struct Warnings(pub Vec<String>);

impl<W: std::fmt::Debug> libtw2_warn::Warn<W> for Warnings {
    fn warn(&mut self, w: W) {
        if self.0.len() < 64 {
            self.0.push(format!("{:?}", w));
        }
    }
}

impl Warnings {
    pub fn new() -> Warnings {
        Warnings(Vec::new())
    }
    pub fn is_empty(&self) -> bool {
        self.0.is_empty()
    }
}

/// JSON serialisation by hand: serde_json 1.0.39 formats numbers through
/// itoa 0.4 (`mem::uninitialized`), which Miri rejects.
pub fn to_json(v: &Value) -> String {
    let mut out = String::new();
    write_json(v, &mut out);
    out
}

fn write_json(v: &Value, out: &mut String) {
    match v {
        Value::Null => out.push_str("null"),
        Value::Bool(b) => out.push_str(if *b { "true" } else { "false" }),
        Value::Number(n) => {
            if let Some(u) = n.as_u64() {
                out.push_str(&format!("{}", u));
            } else if let Some(i) = n.as_i64() {
                out.push_str(&format!("{}", i));
            } else {
                let f = n.as_f64().unwrap_or(0.0);
                if f.is_finite() {
                    out.push_str(&format!("{:?}", f));
                } else {
                    out.push_str("null");
                }
            }
        }
        Value::String(s) => write_json_str(s, out),
        Value::Array(a) => {
            out.push('[');
            for (i, x) in a.iter().enumerate() {
                if i > 0 {
                    out.push(',');
                }
                write_json(x, out);
            }
            out.push(']');
        }
        Value::Object(m) => {
            out.push('{');
            for (i, (k, x)) in m.iter().enumerate() {
                if i > 0 {
                    out.push(',');
                }
                write_json_str(k, out);
                out.push(':');
                write_json(x, out);
            }
            out.push('}');
        }
    }
}

fn write_json_str(s: &str, out: &mut String) {
    out.push('"');
    for c in s.chars() {
        match c {
            '"' => out.push_str("\\\""),
            '\\' => out.push_str("\\\\"),
            '\n' => out.push_str("\\n"),
            '\r' => out.push_str("\\r"),
            '\t' => out.push_str("\\t"),
            c if (c as u32) < 0x20 => out.push_str(&format!("\\u{:04x}", c as u32)),
            c => out.push(c),
        }
    }
    out.push('"');
}
