//! Owned packet values for both protocol versions and their generators
//! (C05 round trips, C06 corpus of valid packets to corrupt).

use crate::Rng;
use libtw2_net::protocol as p6;
use libtw2_net::protocol7 as p7;
use serde_json::json;
use serde_json::Value;

/// Recorded game traffic shipped with the repository (uncompressed side).
pub fn recorded_traffic() -> Vec<Vec<u8>> {
    let text = include_str!("/repo/huffman/data/test_cases");
    let mut out = Vec::new();
    for line in text.lines() {
        let raw = line.split('#').next().unwrap_or("");
        let bytes: Vec<u8> = raw.split_whitespace().filter_map(|h| u8::from_str_radix(h, 16).ok()).collect();
        if !bytes.is_empty() {
            out.push(bytes);
        }
    }
    out
}

/// Recorded compressed streams (right-hand side of the test cases).
pub fn recorded_compressed() -> Vec<(Vec<u8>, Vec<u8>)> {
    let text = include_str!("/repo/huffman/data/test_cases");
    let mut out = Vec::new();
    for line in text.lines() {
        let mut it = line.split('#');
        let raw: Vec<u8> = it.next().unwrap_or("").split_whitespace().filter_map(|h| u8::from_str_radix(h, 16).ok()).collect();
        let comp: Vec<u8> = it.next().unwrap_or("").split_whitespace().filter_map(|h| u8::from_str_radix(h, 16).ok()).collect();
        if !comp.is_empty() {
            out.push((raw, comp));
        }
    }
    out
}

#[derive(Clone, Copy, Debug, PartialEq, Eq)]
pub enum Content {
    Zeros,
    Repeated,
    Text,
    Recorded,
    Noise,
}

pub const CONTENTS: [Content; 5] = [Content::Zeros, Content::Repeated, Content::Text, Content::Recorded, Content::Noise];

pub fn content(rng: &mut Rng, class: Content, len: usize, recorded: &[Vec<u8>]) -> Vec<u8> {
    match class {
        Content::Zeros => vec![0; len],
        Content::Repeated => vec![rng.u8(); len],
        Content::Text => {
            let t = b"Teeworlds is a free online multiplayer game, available for all major operating systems. ";
            let off = rng.usize_below(t.len());
            (0..len).map(|i| t[(i + off) % t.len()]).collect()
        }
        Content::Recorded => {
            let mut v = Vec::with_capacity(len);
            while v.len() < len {
                let r = &recorded[rng.usize_below(recorded.len())];
                v.extend_from_slice(r);
            }
            v.truncate(len);
            v
        }
        Content::Noise => rng.bytes(len),
    }
}

pub fn pick_payload_len(rng: &mut Rng, max: usize) -> usize {
    match rng.below(8) {
        0 => 0,
        1 => 1,
        2 => max,
        3 => max - rng.usize_below(8.min(max + 1)),
        4 => rng.usize_below(16.min(max + 1)),
        5 => rng.usize_below(200.min(max + 1)),
        _ => rng.usize_below(max + 1),
    }
}

// ---------------------------------------------------------------- 0.6

#[derive(Clone, Debug, PartialEq, Eq)]
pub enum Ctrl6 {
    KeepAlive,
    Connect,
    ConnectAccept,
    Accept,
    Close(Vec<u8>),
}

#[derive(Clone, Debug, PartialEq, Eq)]
pub enum Pkt6 {
    Connless(Vec<u8>),
    Control { ack: u16, token: Option<[u8; 4]>, ctrl: Ctrl6 },
    Chunks { ack: u16, token: Option<[u8; 4]>, request_resend: bool, num_chunks: u8, payload: Vec<u8> },
}

impl Pkt6 {
    pub fn kind(&self) -> String {
        match self {
            Pkt6::Connless(_) => "connless".into(),
            Pkt6::Control { ctrl, token, .. } => format!(
                "control-{}{}",
                match ctrl {
                    Ctrl6::KeepAlive => "keepalive",
                    Ctrl6::Connect => "connect",
                    Ctrl6::ConnectAccept => "connectaccept",
                    Ctrl6::Accept => "accept",
                    Ctrl6::Close(_) => "close",
                },
                if token.is_some() { "+token" } else { "" }
            ),
            Pkt6::Chunks { token, .. } => format!("chunks{}", if token.is_some() { "+token" } else { "" }),
        }
    }
    pub fn has_token(&self) -> Option<bool> {
        match self {
            Pkt6::Connless(_) => None,
            Pkt6::Control { token, .. } | Pkt6::Chunks { token, .. } => Some(token.is_some()),
        }
    }
    pub fn to_json(&self) -> Value {
        match self {
            Pkt6::Connless(p) => json!({"connless": crate::hex(p)}),
            Pkt6::Control { ack, token, ctrl } => json!({"control": format!("{:?}", ctrl), "ack": ack, "token": token.map(|t| crate::hex(&t))}),
            Pkt6::Chunks { ack, token, request_resend, num_chunks, payload } => json!({"chunks": crate::hex(payload), "ack": ack, "token": token.map(|t| crate::hex(&t)), "request_resend": request_resend, "num_chunks": num_chunks}),
        }
    }
    pub fn from_json(v: &Value) -> Pkt6 {
        let tok = |v: &Value| v["token"].as_str().map(|s| {
            let b = crate::unhex(s);
            [b[0], b[1], b[2], b[3]]
        });
        if let Some(p) = v["connless"].as_str() {
            return Pkt6::Connless(crate::unhex(p));
        }
        if let Some(p) = v["chunks"].as_str() {
            return Pkt6::Chunks {
                ack: v["ack"].as_u64().unwrap() as u16,
                token: tok(v),
                request_resend: v["request_resend"].as_bool().unwrap(),
                num_chunks: v["num_chunks"].as_u64().unwrap() as u8,
                payload: crate::unhex(p),
            };
        }
        let c = v["control"].as_str().unwrap();
        let ctrl = if c == "KeepAlive" {
            Ctrl6::KeepAlive
        } else if c == "Connect" {
            Ctrl6::Connect
        } else if c == "ConnectAccept" {
            Ctrl6::ConnectAccept
        } else if c == "Accept" {
            Ctrl6::Accept
        } else {
            // Close([..])
            let inner = c.trim_start_matches("Close([").trim_end_matches("])");
            Ctrl6::Close(inner.split(',').filter_map(|x| x.trim().parse().ok()).collect())
        };
        Pkt6::Control { ack: v["ack"].as_u64().unwrap() as u16, token: tok(v), ctrl }
    }

    /// Writes through the library's writer.
    pub fn write(&self, buf: &mut [u8]) -> Result<Vec<u8>, String> {
        let p = match self {
            Pkt6::Connless(d) => p6::Packet::Connless(d),
            Pkt6::Control { ack, token, ctrl } => p6::Packet::Connected(p6::ConnectedPacket {
                ack: *ack,
                token: token.map(p6::Token),
                type_: p6::ConnectedPacketType::Control(match ctrl {
                    Ctrl6::KeepAlive => p6::ControlPacket::KeepAlive,
                    Ctrl6::Connect => p6::ControlPacket::Connect,
                    Ctrl6::ConnectAccept => p6::ControlPacket::ConnectAccept,
                    Ctrl6::Accept => p6::ControlPacket::Accept,
                    Ctrl6::Close(r) => p6::ControlPacket::Close(r),
                }),
            }),
            Pkt6::Chunks { ack, token, request_resend, num_chunks, payload } => p6::Packet::Connected(p6::ConnectedPacket {
                ack: *ack,
                token: token.map(p6::Token),
                type_: p6::ConnectedPacketType::Chunks(*request_resend, *num_chunks, payload),
            }),
        };
        p.write(buf).map(|b| b.to_vec()).map_err(|e| format!("{:?}", e))
    }

    pub fn from_lib(p: &p6::Packet) -> Pkt6 {
        match *p {
            p6::Packet::Connless(d) => Pkt6::Connless(d.to_vec()),
            p6::Packet::Connected(c) => match c.type_ {
                p6::ConnectedPacketType::Control(ctrl) => Pkt6::Control {
                    ack: c.ack,
                    token: c.token.map(|t| t.0),
                    ctrl: match ctrl {
                        p6::ControlPacket::KeepAlive => Ctrl6::KeepAlive,
                        p6::ControlPacket::Connect => Ctrl6::Connect,
                        p6::ControlPacket::ConnectAccept => Ctrl6::ConnectAccept,
                        p6::ControlPacket::Accept => Ctrl6::Accept,
                        p6::ControlPacket::Close(r) => Ctrl6::Close(r.to_vec()),
                    },
                },
                p6::ConnectedPacketType::Chunks(rr, n, payload) => Pkt6::Chunks {
                    ack: c.ack,
                    token: c.token.map(|t| t.0),
                    request_resend: rr,
                    num_chunks: n,
                    payload: payload.to_vec(),
                },
            },
        }
    }
}

pub fn reason(rng: &mut Rng, len: usize) -> Vec<u8> {
    (0..len).map(|_| 1 + rng.u8() % 255).collect()
}

pub fn gen6(rng: &mut Rng, recorded: &[Vec<u8>]) -> (Pkt6, Content) {
    let class = *rng.pick(&CONTENTS);
    let token = if rng.bool() {
        let mut t = [0u8; 4];
        rng.fill(&mut t);
        Some(t)
    } else {
        None
    };
    let ack = match rng.below(4) {
        0 => 0,
        1 => 1023,
        _ => rng.below(1024) as u16,
    };
    let p = match rng.below(10) {
        0 => {
            let len = pick_payload_len(rng, p6::MAX_PAYLOAD);
            Pkt6::Connless(content(rng, class, len, recorded))
        }
        1..=3 => {
            let ctrl = match rng.below(6) {
                0 => Ctrl6::KeepAlive,
                1 => Ctrl6::Connect,
                2 => Ctrl6::ConnectAccept,
                3 => Ctrl6::Accept,
                _ => {
                    let len = match rng.below(4) {
                        0 => 0,
                        1 => 127,
                        2 => 3,
                        _ => rng.usize_below(128),
                    };
                    Ctrl6::Close(reason(rng, len))
                }
            };
            Pkt6::Control { ack, token, ctrl }
        }
        _ => {
            let max = 1400 - 3 - if token.is_some() { 4 } else { 0 };
            let len = pick_payload_len(rng, max);
            Pkt6::Chunks {
                ack,
                token,
                request_resend: rng.bool(),
                num_chunks: match rng.below(4) {
                    0 => 0,
                    1 => 255,
                    _ => rng.u8(),
                },
                payload: content(rng, class, len, recorded),
            }
        }
    };
    (p, class)
}

// ---------------------------------------------------------------- 0.7

#[derive(Clone, Debug, PartialEq, Eq)]
pub enum Ctrl7 {
    KeepAlive,
    Connect([u8; 4]),
    Accept,
    Close(Vec<u8>),
    Token([u8; 4]),
}

#[derive(Clone, Debug, PartialEq, Eq)]
pub enum Pkt7 {
    Connless { token: [u8; 4], response_token: [u8; 4], payload: Vec<u8> },
    Control { ack: u16, token: [u8; 4], ctrl: Ctrl7 },
    Chunks { ack: u16, token: [u8; 4], request_resend: bool, num_chunks: u8, payload: Vec<u8> },
}

impl Pkt7 {
    pub fn kind(&self) -> String {
        match self {
            Pkt7::Connless { .. } => "connless".into(),
            Pkt7::Control { ctrl, token, .. } => format!(
                "control-{}{}",
                match ctrl {
                    Ctrl7::KeepAlive => "keepalive",
                    Ctrl7::Connect(_) => "connect",
                    Ctrl7::Accept => "accept",
                    Ctrl7::Close(_) => "close",
                    Ctrl7::Token(_) => "token",
                },
                if *token == [0xff; 4] { "+tokennone" } else { "" }
            ),
            Pkt7::Chunks { .. } => "chunks".into(),
        }
    }
    pub fn to_json(&self) -> Value {
        json!(format!("{:?}", self))
    }
    pub fn write(&self, buf: &mut [u8]) -> Result<Vec<u8>, String> {
        let p = match self {
            Pkt7::Connless { token, response_token, payload } => p7::Packet::Connless(p7::ConnlessPacket {
                token: p7::Token(*token),
                response_token: p7::Token(*response_token),
                payload,
            }),
            Pkt7::Control { ack, token, ctrl } => p7::Packet::Connected(p7::ConnectedPacket {
                ack: *ack,
                token: p7::Token(*token),
                type_: p7::ConnectedPacketType::Control(match ctrl {
                    Ctrl7::KeepAlive => p7::ControlPacket::KeepAlive,
                    Ctrl7::Connect(t) => p7::ControlPacket::Connect(p7::Token(*t)),
                    Ctrl7::Accept => p7::ControlPacket::Accept,
                    Ctrl7::Close(r) => p7::ControlPacket::Close(r),
                    Ctrl7::Token(t) => p7::ControlPacket::Token(p7::Token(*t)),
                }),
            }),
            Pkt7::Chunks { ack, token, request_resend, num_chunks, payload } => p7::Packet::Connected(p7::ConnectedPacket {
                ack: *ack,
                token: p7::Token(*token),
                type_: p7::ConnectedPacketType::Chunks(*request_resend, *num_chunks, payload),
            }),
        };
        p.write(buf).map(|b| b.to_vec()).map_err(|e| format!("{:?}", e))
    }
    pub fn from_lib(p: &p7::Packet) -> Pkt7 {
        match *p {
            p7::Packet::Connless(c) => Pkt7::Connless {
                token: c.token.0,
                response_token: c.response_token.0,
                payload: c.payload.to_vec(),
            },
            p7::Packet::Connected(c) => match c.type_ {
                p7::ConnectedPacketType::Control(ctrl) => Pkt7::Control {
                    ack: c.ack,
                    token: c.token.0,
                    ctrl: match ctrl {
                        p7::ControlPacket::KeepAlive => Ctrl7::KeepAlive,
                        p7::ControlPacket::Connect(t) => Ctrl7::Connect(t.0),
                        p7::ControlPacket::Accept => Ctrl7::Accept,
                        p7::ControlPacket::Close(r) => Ctrl7::Close(r.to_vec()),
                        p7::ControlPacket::Token(t) => Ctrl7::Token(t.0),
                    },
                },
                p7::ConnectedPacketType::Chunks(rr, n, payload) => Pkt7::Chunks {
                    ack: c.ack,
                    token: c.token.0,
                    request_resend: rr,
                    num_chunks: n,
                    payload: payload.to_vec(),
                },
            },
        }
    }
}

fn token7(rng: &mut Rng, allow_none: bool) -> [u8; 4] {
    let mut t = [0u8; 4];
    match rng.below(6) {
        0 if allow_none => t = [0xff; 4],
        1 => t = [0; 4],
        _ => rng.fill(&mut t),
    }
    if !allow_none && t == [0xff; 4] {
        t[0] = 0xfe;
    }
    t
}

pub fn gen7(rng: &mut Rng, recorded: &[Vec<u8>]) -> (Pkt7, Content) {
    let class = *rng.pick(&CONTENTS);
    let ack = match rng.below(4) {
        0 => 0,
        1 => 1023,
        _ => rng.below(1024) as u16,
    };
    let p = match rng.below(10) {
        0 => {
            let len = pick_payload_len(rng, p7::MAX_PAYLOAD);
            Pkt7::Connless {
                token: token7(rng, true),
                response_token: token7(rng, true),
                payload: content(rng, class, len, recorded),
            }
        }
        1..=3 => {
            let token = token7(rng, true);
            let ctrl = match rng.below(6) {
                0 => Ctrl7::KeepAlive,
                // the writer documents (asserts) that response tokens are not TOKEN_NONE
                1 => Ctrl7::Connect(token7(rng, false)),
                2 => Ctrl7::Accept,
                3 => Ctrl7::Token(token7(rng, false)),
                _ => {
                    let len = match rng.below(4) {
                        0 => 0,
                        1 => 127,
                        2 => 3,
                        _ => rng.usize_below(128),
                    };
                    Ctrl7::Close(reason(rng, len))
                }
            };
            Pkt7::Control { ack, token, ctrl }
        }
        _ => {
            let len = pick_payload_len(rng, 1400 - 7);
            Pkt7::Chunks {
                ack,
                token: token7(rng, true),
                request_resend: rng.bool(),
                num_chunks: match rng.below(4) {
                    0 => 0,
                    1 => 255,
                    _ => rng.u8(),
                },
                payload: content(rng, class, len, recorded),
            }
        }
    };
    (p, class)
}
