//! Snapshot models and generators shared by C09–C13.

use crate::Rng;
use libtw2_snapshot::snap::RawBuilder;
use libtw2_snapshot::snap::RawSnap;
use std::collections::BTreeMap;

/// Model of a raw snapshot: (raw type, id) -> data words.
pub type Model = BTreeMap<(u16, u16), Vec<i32>>;

/// The pre-agreed item sizes used by the monitors: types 1..=20 have a fixed
/// size of 1..=3 words, every other type carries its size explicitly. A plain
/// `fn` because the C++ reference wrapper wants a function pointer.
pub fn obj_size(t: u16) -> Option<u32> {
    if (1..=20).contains(&t) {
        Some(1 + (t % 3) as u32)
    } else {
        None
    }
}

pub fn model_crc(m: &Model) -> i32 {
    m.values().flat_map(|d| d.iter()).fold(0i32, |s, &a| s.wrapping_add(a))
}

pub fn build_raw(m: &Model) -> Result<RawSnap, String> {
    let mut b = RawBuilder::new();
    for (&(t, id), data) in m {
        b.add_item(t, id, data).map_err(|e| format!("{:?}", e))?;
    }
    Ok(b.finish())
}

/// Like `build_raw`, but after `after` items the builder is offered an item
/// that cannot fit (17000 words under an unused key). It must refuse it and
/// carry on as if nothing had happened. `Err` also when the probe was accepted.
pub fn build_raw_with_refusal(m: &Model, after: usize) -> Result<RawSnap, String> {
    let mut b = RawBuilder::new();
    let huge = vec![0x5a5a_5a5ai32; 17_000];
    let mut probe = (0x7ffeu16, 0u16);
    while m.contains_key(&probe) {
        probe.1 += 1;
    }
    let mut probed = false;
    for (i, (&(t, id), data)) in m.iter().enumerate() {
        if i == after {
            if b.add_item(probe.0, probe.1, &huge).is_ok() {
                return Err("oversized-item-accepted".into());
            }
            probed = true;
        }
        b.add_item(t, id, data).map_err(|e| format!("{:?}", e))?;
    }
    if !probed && b.add_item(probe.0, probe.1, &huge).is_ok() {
        return Err("oversized-item-accepted".into());
    }
    Ok(b.finish())
}

pub fn raw_to_model(s: &RawSnap) -> Model {
    s.items().map(|i| ((i.raw_type_id, i.id), i.data.to_vec())).collect()
}

/// Serialized size in bytes of a model (doc/snapshot.md: header 2 ints, one
/// offset and one key per item, data words).
pub fn model_size(m: &Model) -> usize {
    4 * (2 + 2 * m.len() + m.values().map(|d| d.len()).sum::<usize>())
}

pub const VALUES: [i32; 5] = [0, 1, -1, i32::MIN, i32::MAX];

pub fn value(rng: &mut Rng) -> i32 {
    match rng.below(8) {
        0..=4 => VALUES[rng.usize_below(5)],
        5 => rng.range(-1000, 1000) as i32,
        _ => rng.i32(),
    }
}

/// Type ids the raw generators draw from: pre-agreed sizes, explicit sizes, the
/// UUID registry type 0, both sides of the signed-key boundary.
pub const RAW_TYPES: [u16; 22] = [0, 1, 2, 3, 4, 5, 19, 20, 21, 22, 63, 64, 0x100, 0x3fff, 0x4000, 0x4001, 0x7ffe, 0x7fff, 0x8000, 0x8001, 0xfffe, 0xffff];

/// A key universe: keys with their (fixed) size. Within one universe the size
/// is a function of the key (the wire format cannot express a size change of a
/// live key, and `Delta::create` documents that precondition).
pub struct Universe {
    pub keys: Vec<((u16, u16), usize)>,
}

impl Universe {
    pub fn random(rng: &mut Rng, nkeys: usize, max_item_words: usize, max_type: u16) -> Universe {
        let mut keys: BTreeMap<(u16, u16), usize> = BTreeMap::new();
        let ntypes = rng.range(1, 8) as usize;
        let mut types = Vec::new();
        for _ in 0..ntypes {
            let t = loop {
                let t = if rng.chance(3, 4) { *rng.pick(&RAW_TYPES) } else { rng.below(0x10000) as u16 };
                if t <= max_type {
                    break t;
                }
            };
            types.push(t);
        }
        let mut guard = 0;
        while keys.len() < nkeys && guard < nkeys * 20 {
            guard += 1;
            let t = *rng.pick(&types);
            let id = match rng.below(4) {
                0 => rng.below(4) as u16,
                1 => 0xffff - rng.below(4) as u16,
                _ => rng.below(0x10000) as u16,
            };
            let size = match obj_size(t) {
                Some(s) => s as usize,
                None => match rng.below(5) {
                    0 => 0,
                    1 => 1,
                    2 => rng.usize_below(4),
                    _ => rng.usize_below(max_item_words + 1),
                },
            };
            keys.entry((t, id)).or_insert(size);
        }
        Universe { keys: keys.into_iter().collect() }
    }

    /// A random snapshot over this universe, kept below the 1024-item / 64 KiB limits.
    pub fn snapshot(&self, rng: &mut Rng, density_pct: u64) -> Model {
        let mut m = Model::new();
        for &(k, size) in &self.keys {
            if rng.below(100) < density_pct {
                let data: Vec<i32> = (0..size).map(|_| value(rng)).collect();
                m.insert(k, data);
                if m.len() > 1024 || model_size(&m) > 64 * 1024 {
                    m.remove(&k);
                }
            }
        }
        m
    }

    /// A successor of `a`: items added, removed, changed and untouched.
    pub fn mutate(&self, rng: &mut Rng, a: &Model) -> Model {
        let mut m = Model::new();
        for &(k, size) in &self.keys {
            let present = a.get(&k);
            let r = rng.below(100);
            match present {
                Some(d) => {
                    if r < 15 {
                        // removed
                    } else if r < 55 {
                        // changed: some words move by small or wrapping amounts
                        let mut d = d.clone();
                        for w in &mut d {
                            if rng.bool() {
                                *w = match rng.below(4) {
                                    0 => w.wrapping_add(rng.range(-5, 5) as i32),
                                    1 => w.wrapping_add(i32::MAX),
                                    2 => value(rng),
                                    _ => w.wrapping_sub(1),
                                };
                            }
                        }
                        m.insert(k, d);
                    } else {
                        m.insert(k, d.clone());
                    }
                }
                None => {
                    if r < 25 {
                        m.insert(k, (0..size).map(|_| value(rng)).collect());
                    }
                }
            }
            if m.len() > 1024 || model_size(&m) > 64 * 1024 {
                m.remove(&k);
            }
        }
        m
    }
}

// ---------------------------------------------------------------- typed level (Builder / TypeId)

use libtw2_gamenet_common::snap_obj::TypeId;
use libtw2_snapshot::snap::Builder;
use libtw2_snapshot::Snap;
use serde_json::json;
use uuid::Uuid;

pub type Typed = BTreeMap<(TypeId, u16), Vec<i32>>;

pub fn gen_typed(rng: &mut Rng) -> (Typed, Vec<(TypeId, u16)>) {
    let nitems = if cfg!(miri) { rng.range(0, 20) as usize } else { match rng.below(7) {
        0 => 0,
        1 => 1,
        2 => rng.range(1, 10) as usize,
        3 => rng.range(10, 100) as usize,
        4 => 1024,
        _ => rng.range(1, 1024) as usize,
    } };
    let nuuid = match rng.below(6) {
        0 => 0,
        1 => 1,
        2 => 2,
        3 => rng.range(2, 8) as usize,
        _ => rng.range(0, 40) as usize,
    };
    let uuids: Vec<Uuid> = (0..nuuid)
        .map(|_| {
            let mut b = [0u8; 16];
            rng.fill(&mut b);
            if rng.chance(1, 8) {
                b = [0; 16];
                b[15] = rng.u8();
            }
            Uuid::from_bytes(b)
        })
        .collect();
    let nord = rng.range(1, 6) as usize;
    let ords: Vec<u16> = (0..nord)
        .map(|_| match rng.below(4) {
            0 => 1,
            1 => 0x3fff,
            _ => rng.range(1, 0x3fff) as u16,
        })
        .collect();
    let maxw = *rng.pick(&[0usize, 1, 4, 16, 100, 2000]);
    let mut m = Typed::new();
    let mut order = Vec::new();
    let mut bytes = 8usize;
    let mut types_used = std::collections::BTreeSet::new();
    let mut guard = 0;
    while order.len() < nitems && guard < nitems * 4 + 8 {
        guard += 1;
        let t = if !uuids.is_empty() && rng.chance(1, 2) { TypeId::Uuid(*rng.pick(&uuids)) } else { TypeId::Ordinal(*rng.pick(&ords)) };
        let id = match rng.below(4) {
            0 => rng.below(3) as u16,
            1 => 0xffff - rng.below(3) as u16,
            _ => rng.below(0x10000) as u16,
        };
        let len = match rng.below(4) {
            0 => 0,
            1 => rng.usize_below(4),
            _ => rng.usize_below(maxw + 1),
        };
        if m.contains_key(&(t, id)) {
            continue;
        }
        // stay inside the limits: registry items count as items, too
        let new_type = matches!(t, TypeId::Uuid(_)) && !types_used.contains(&t);
        let items_after = order.len() + types_used.iter().filter(|t| matches!(t, TypeId::Uuid(_))).count() + 1 + new_type as usize;
        let bytes_after = bytes + 8 + 4 * len + if new_type { 8 + 16 } else { 0 };
        if items_after > 1024 || bytes_after > 65536 {
            continue;
        }
        bytes = bytes_after;
        types_used.insert(t);
        m.insert((t, id), (0..len).map(|_| value(rng)).collect());
        order.push((t, id));
    }
    (m, order)
}

pub fn typed_json(m: &Typed) -> serde_json::Value {
    json!(m.iter().map(|(k, d)| json!([format!("{:?}", k.0), k.1, d.len()])).collect::<Vec<_>>())
}

pub fn build_typed(order: &[(TypeId, u16)], m: &Typed, mut b: Builder) -> Result<Snap, String> {
    for k in order {
        b.add_item(k.0, k.1, &m[k]).map_err(|e| format!("{:?}", e))?;
    }
    Ok(b.finish())
}


/// Enumerates a snapshot through the public API.
pub fn typed_of(s: &Snap) -> Typed {
    s.items().map(|i| ((i.type_id, i.id), i.data.to_vec())).collect()
}
