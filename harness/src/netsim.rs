//! Virtual network for the connection-layer monitors (C01–C04, C20).
//!
//! Two real `Connection`s, a shared virtual clock, two directed multisets of
//! in-flight datagrams and an adversary that may deliver any of them, drop or
//! duplicate it. The online oracles (delivery prefix, wire well-formedness,
//! finite deadline, callback budget) live here; each monitor forwards the
//! clauses it owns.

use crate::catch;
use crate::fnv1a;
use crate::hex_short;
use crate::Panicked;
use crate::Rng;
use libtw2_net::connection as c6;
use libtw2_net::connection7 as c7;
use libtw2_net::protocol as p6;
use libtw2_net::protocol7 as p7;
use libtw2_net::Timeout;
use libtw2_net::Timestamp;
use serde_json::json;
use serde_json::Value;
use std::collections::HashSet;

pub const BUDGET_PANIC: &str = "VERIF callback budget exceeded";
pub const START_US: u64 = 1_000_000_000;

#[derive(Clone, Copy, Debug, PartialEq, Eq, Hash)]
pub enum Variant {
    V6Token,
    V6NoToken,
    V7,
}

impl Variant {
    pub fn name(self) -> &'static str {
        match self {
            Variant::V6Token => "0.6+token",
            Variant::V6NoToken => "0.6",
            Variant::V7 => "0.7",
        }
    }
    pub fn all() -> [Variant; 3] {
        [Variant::V6Token, Variant::V6NoToken, Variant::V7]
    }
}

// ------------------------------------------------------------------ callback

/// The harness side of `Callback`: virtual clock, outbox, scripted randomness
/// and a call counter that turns an unbounded loop inside one API call into a
/// deterministic panic (see DESIGN.md C02).
/// Injected send failure: the socket refused the datagram.
#[derive(Clone, Copy, Debug)]
pub struct SendFail;

#[derive(Clone, Debug)]
pub struct Cb {
    /// fault injection: this many upcoming `send` calls fail
    pub fail_sends: u32,
    pub send_failures: u64,
    pub now_us: u64,
    pub sent: Vec<Vec<u8>>,
    pub rng: Rng,
    /// Values handed out by `secure_random` before the PRNG is used.
    pub script: Vec<[u8; 4]>,
    pub randoms: Vec<Vec<u8>>,
    pub calls: u64,
    pub budget: u64,
}

impl Cb {
    pub fn new(seed: u64) -> Cb {
        Cb {
            fail_sends: 0,
            send_failures: 0,
            now_us: START_US,
            sent: Vec::new(),
            rng: Rng::new(seed),
            script: Vec::new(),
            randoms: Vec::new(),
            calls: 0,
            budget: 100_000,
        }
    }
    fn bump(&mut self) {
        self.calls += 1;
        if self.calls > self.budget {
            panic!("{}", BUDGET_PANIC);
        }
    }
    fn random(&mut self, buffer: &mut [u8]) {
        self.bump();
        if buffer.len() == 4 && !self.script.is_empty() {
            buffer.copy_from_slice(&self.script.remove(0));
        } else {
            self.rng.fill(buffer);
        }
        self.randoms.push(buffer.to_vec());
    }
    fn push(&mut self, data: &[u8]) -> Result<(), SendFail> {
        self.bump();
        if self.fail_sends > 0 {
            self.fail_sends -= 1;
            self.send_failures += 1;
            return Err(SendFail);
        }
        self.sent.push(data.to_vec());
        Ok(())
    }
    fn time(&mut self) -> Timestamp {
        self.bump();
        Timestamp::from_usecs_since_epoch(self.now_us)
    }
}

impl c6::Callback for Cb {
    type Error = SendFail;
    fn secure_random(&mut self, buffer: &mut [u8]) {
        self.random(buffer)
    }
    fn send(&mut self, buffer: &[u8]) -> Result<(), SendFail> {
        self.push(buffer)
    }
    fn time(&mut self) -> Timestamp {
        Cb::time(self)
    }
}

impl c7::Callback for Cb {
    type Error = SendFail;
    fn secure_random(&mut self, buffer: &mut [u8]) {
        self.random(buffer)
    }
    fn send(&mut self, buffer: &[u8]) -> Result<(), SendFail> {
        self.push(buffer)
    }
    fn time(&mut self) -> Timestamp {
        Cb::time(self)
    }
}

// ------------------------------------------------------------------ endpoint abstraction

#[derive(Clone, Debug, PartialEq, Eq)]
pub enum Event {
    Connless(Vec<u8>),
    Chunk(Vec<u8>, bool),
    Ready,
    Disconnect(Vec<u8>),
}

impl Event {
    pub fn to_json(&self) -> Value {
        match self {
            Event::Connless(d) => json!({"connless": hex_short(d)}),
            Event::Chunk(d, v) => json!({"chunk": hex_short(d), "vital": v}),
            Event::Ready => json!("ready"),
            Event::Disconnect(r) => json!({"disconnect": hex_short(r)}),
        }
    }
}

pub fn timeout_us(t: Timeout) -> Option<u64> {
    t.to_opt().map(|t| t.as_usecs_since_epoch())
}

/// A parsed wire chunk (owned).
#[derive(Clone, Debug)]
pub struct WireChunk {
    pub data: Vec<u8>,
    pub vital: Option<(u16, bool)>,
}

/// What the library's own reader makes of a datagram.
#[derive(Clone, Debug)]
pub enum Parsed {
    Error(String),
    Connless(Vec<u8>),
    Control { name: String, ack: u16 },
    Chunks {
        ack: u16,
        request_resend: bool,
        num_chunks: u8,
        chunks: Vec<WireChunk>,
        compressed: bool,
    },
}

pub trait Conn: Sized {
    const V7: bool;
    fn new() -> Self;
    fn connect(&mut self, cb: &mut Cb);
    fn disconnect(&mut self, cb: &mut Cb, reason: &[u8]);
    /// `Err(())` = TooLongData.
    fn send(&mut self, cb: &mut Cb, data: &[u8], vital: bool) -> Result<(), ()>;
    fn send_connless(&mut self, cb: &mut Cb, data: &[u8]) -> Result<(), ()>;
    fn flush(&mut self, cb: &mut Cb);
    fn tick(&mut self, cb: &mut Cb);
    fn needs_tick(&self) -> Option<u64>;
    /// Feeds a datagram and drains the event iterator. Returns events and the
    /// `Debug` rendering of the warnings.
    fn feed(&mut self, cb: &mut Cb, data: &[u8]) -> (Vec<Event>, Vec<String>);
    fn clone_hook(&self) -> Self;
    fn fingerprint(&self) -> String;
    fn state_name(&self) -> &'static str;
    fn unacked(&self) -> usize;
    fn queued(&self) -> (usize, usize);
    fn seq(&self) -> Option<(u16, u16, bool)>;
    fn send_timer(&self) -> Option<u64>;
    /// Parses a datagram with the library's own reader. `has_token`: the true
    /// token mode (0.6 only).
    fn parse(data: &[u8], has_token: bool) -> (Parsed, Vec<String>);
    /// Largest payload `send` accepts according to the API constant.
    fn max_payload() -> usize;
    /// The token incoming connection-oriented datagrams must carry, once the
    /// endpoint has fixed one (0.6: DDNet token extension in use; 0.7: own token).
    fn fixed_token(&self) -> Option<[u8; 4]>;
    /// The token attached to outgoing datagrams, where known.
    fn peer_token(&self) -> Option<[u8; 4]>;
}

fn drain6(it: c6::ReceivePacket) -> Vec<Event> {
    it.map(|c| match c {
        c6::ReceiveChunk::Connless(d) => Event::Connless(d.to_vec()),
        c6::ReceiveChunk::Connected(d, v) => Event::Chunk(d.to_vec(), v),
        c6::ReceiveChunk::Ready => Event::Ready,
        c6::ReceiveChunk::Disconnect(r) => Event::Disconnect(r.to_vec()),
    })
    .collect()
}

fn drain7(it: c7::ReceivePacket) -> Vec<Event> {
    it.map(|c| match c {
        c7::ReceiveChunk::Connless(d) => Event::Connless(d.to_vec()),
        c7::ReceiveChunk::Connected(d, v) => Event::Chunk(d.to_vec(), v),
        c7::ReceiveChunk::Ready => Event::Ready,
        c7::ReceiveChunk::Disconnect(r) => Event::Disconnect(r.to_vec()),
    })
    .collect()
}

/// A refused datagram is simply lost; the call itself went through.
fn unwrap_inf(r: Result<(), SendFail>) {
    let _ = r;
}

impl Conn for c6::Connection {
    const V7: bool = false;
    fn new() -> Self {
        c6::Connection::new()
    }
    fn connect(&mut self, cb: &mut Cb) {
        unwrap_inf(c6::Connection::connect(self, cb))
    }
    fn disconnect(&mut self, cb: &mut Cb, reason: &[u8]) {
        unwrap_inf(c6::Connection::disconnect(self, cb, reason))
    }
    fn send(&mut self, cb: &mut Cb, data: &[u8], vital: bool) -> Result<(), ()> {
        match c6::Connection::send(self, cb, data, vital) {
            Ok(()) => Ok(()),
            Err(c6::Error::TooLongData) => Err(()),
            Err(c6::Error::Callback(SendFail)) => Ok(()), // the chunk is queued, only the implicit flush failed
        }
    }
    fn send_connless(&mut self, cb: &mut Cb, data: &[u8]) -> Result<(), ()> {
        match c6::Connection::send_connless(self, cb, data) {
            Ok(()) => Ok(()),
            Err(c6::Error::TooLongData) => Err(()),
            Err(c6::Error::Callback(SendFail)) => Ok(()), // the chunk is queued, only the implicit flush failed
        }
    }
    fn flush(&mut self, cb: &mut Cb) {
        unwrap_inf(c6::Connection::flush(self, cb))
    }
    fn tick(&mut self, cb: &mut Cb) {
        unwrap_inf(c6::Connection::tick(self, cb))
    }
    fn needs_tick(&self) -> Option<u64> {
        timeout_us(c6::Connection::needs_tick(self))
    }
    fn feed(&mut self, cb: &mut Cb, data: &[u8]) -> (Vec<Event>, Vec<String>) {
        let mut buf = [0u8; 2048];
        let mut warn = crate::Warnings::new();
        let (it, res) = c6::Connection::feed(self, cb, &mut warn, data, &mut buf[..]);
        unwrap_inf(res);
        (drain6(it), warn.0)
    }
    fn clone_hook(&self) -> Self {
        self.verif_clone()
    }
    fn fingerprint(&self) -> String {
        self.verif_fingerprint()
    }
    fn state_name(&self) -> &'static str {
        self.verif_state_name()
    }
    fn unacked(&self) -> usize {
        self.verif_unacked()
    }
    fn queued(&self) -> (usize, usize) {
        self.verif_queued()
    }
    fn seq(&self) -> Option<(u16, u16, bool)> {
        self.verif_seq()
    }
    fn send_timer(&self) -> Option<u64> {
        timeout_us(self.verif_send_timer())
    }
    fn parse(data: &[u8], has_token: bool) -> (Parsed, Vec<String>) {
        let mut buf = [0u8; 2048];
        let mut warn = crate::Warnings::new();
        let compressed = data.len() >= 3 && (data[0] >> 4) & p6::PACKETFLAG_COMPRESSION != 0 && (data[0] >> 4) & p6::PACKETFLAG_CONNLESS == 0;
        let r = p6::Packet::read(&mut warn, data, Some(has_token), &mut buf[..]);
        let parsed = match r {
            Err(e) => Parsed::Error(format!("{:?}", e)),
            Ok(p6::Packet::Connless(d)) => Parsed::Connless(d.to_vec()),
            Ok(p6::Packet::Connected(c)) => match c.type_ {
                p6::ConnectedPacketType::Control(ctrl) => Parsed::Control {
                    name: format!("{:?}", ctrl),
                    ack: c.ack,
                },
                p6::ConnectedPacketType::Chunks(rr, n, payload) => {
                    let mut it = p6::ChunksIter::new(payload, n);
                    let mut chunks = Vec::new();
                    while let Some(ch) = it.next_warn(&mut warn) {
                        chunks.push(WireChunk {
                            data: ch.data.to_vec(),
                            vital: ch.vital,
                        });
                    }
                    Parsed::Chunks {
                        ack: c.ack,
                        request_resend: rr,
                        num_chunks: n,
                        chunks,
                        compressed,
                    }
                }
            },
        };
        (parsed, warn.0)
    }
    fn max_payload() -> usize {
        p6::MAX_PAYLOAD
    }
    fn fixed_token(&self) -> Option<[u8; 4]> {
        match self.verif_expected_token() {
            Some(Some(t)) => Some(t.0),
            _ => None,
        }
    }
    fn peer_token(&self) -> Option<[u8; 4]> {
        self.fixed_token()
    }
}

impl Conn for c7::Connection {
    const V7: bool = true;
    fn new() -> Self {
        c7::Connection::new()
    }
    fn connect(&mut self, cb: &mut Cb) {
        unwrap_inf(c7::Connection::connect(self, cb))
    }
    fn disconnect(&mut self, cb: &mut Cb, reason: &[u8]) {
        unwrap_inf(c7::Connection::disconnect(self, cb, reason))
    }
    fn send(&mut self, cb: &mut Cb, data: &[u8], vital: bool) -> Result<(), ()> {
        match c7::Connection::send(self, cb, data, vital) {
            Ok(()) => Ok(()),
            Err(c7::Error::TooLongData) => Err(()),
            Err(c7::Error::Callback(SendFail)) => Ok(()), // the chunk is queued, only the implicit flush failed
        }
    }
    fn send_connless(&mut self, cb: &mut Cb, data: &[u8]) -> Result<(), ()> {
        match c7::Connection::send_connless(self, cb, data) {
            Ok(()) => Ok(()),
            Err(c7::Error::TooLongData) => Err(()),
            Err(c7::Error::Callback(SendFail)) => Ok(()), // the chunk is queued, only the implicit flush failed
        }
    }
    fn flush(&mut self, cb: &mut Cb) {
        unwrap_inf(c7::Connection::flush(self, cb))
    }
    fn tick(&mut self, cb: &mut Cb) {
        unwrap_inf(c7::Connection::tick(self, cb))
    }
    fn needs_tick(&self) -> Option<u64> {
        timeout_us(c7::Connection::needs_tick(self))
    }
    fn feed(&mut self, cb: &mut Cb, data: &[u8]) -> (Vec<Event>, Vec<String>) {
        let mut buf = [0u8; 2048];
        let mut warn = crate::Warnings::new();
        let (it, res) = c7::Connection::feed(self, cb, &mut warn, data, &mut buf[..]);
        unwrap_inf(res);
        (drain7(it), warn.0)
    }
    fn clone_hook(&self) -> Self {
        self.verif_clone()
    }
    fn fingerprint(&self) -> String {
        self.verif_fingerprint()
    }
    fn state_name(&self) -> &'static str {
        self.verif_state_name()
    }
    fn unacked(&self) -> usize {
        self.verif_unacked()
    }
    fn queued(&self) -> (usize, usize) {
        self.verif_queued()
    }
    fn seq(&self) -> Option<(u16, u16, bool)> {
        self.verif_seq()
    }
    fn send_timer(&self) -> Option<u64> {
        timeout_us(self.verif_send_timer())
    }
    fn parse(data: &[u8], _has_token: bool) -> (Parsed, Vec<String>) {
        let mut buf = [0u8; 2048];
        let mut warn = crate::Warnings::new();
        let flags = if data.is_empty() { 0 } else { (data[0] >> 2) & 0xf };
        let compressed = data.len() >= 7 && flags & p7::PACKETFLAG_COMPRESSION != 0 && flags & p7::PACKETFLAG_CONNLESS == 0;
        let r = p7::Packet::read(&mut warn, data, &mut buf[..]);
        let parsed = match r {
            Err(e) => Parsed::Error(format!("{:?}", e)),
            Ok(p7::Packet::Connless(d)) => Parsed::Connless(d.payload.to_vec()),
            Ok(p7::Packet::Connected(c)) => match c.type_ {
                p7::ConnectedPacketType::Control(ctrl) => Parsed::Control {
                    name: format!("{:?}", ctrl),
                    ack: c.ack,
                },
                p7::ConnectedPacketType::Chunks(rr, n, payload) => {
                    let mut it = p7::ChunksIter::new(payload, n);
                    let mut chunks = Vec::new();
                    while let Some(ch) = it.next_warn(&mut warn) {
                        chunks.push(WireChunk {
                            data: ch.data.to_vec(),
                            vital: ch.vital,
                        });
                    }
                    Parsed::Chunks {
                        ack: c.ack,
                        request_resend: rr,
                        num_chunks: n,
                        chunks,
                        compressed,
                    }
                }
            },
        };
        (parsed, warn.0)
    }
    fn max_payload() -> usize {
        p7::MAX_PAYLOAD
    }
    fn fixed_token(&self) -> Option<[u8; 4]> {
        self.verif_tokens().0.map(|t| t.0)
    }
    fn peer_token(&self) -> Option<[u8; 4]> {
        self.verif_tokens().1.map(|t| t.0)
    }
}

// ------------------------------------------------------------------ independent header classifier

/// The harness's own reading of the packet header (doc/packet*.md): used where
/// the oracle must not depend on the library's reader.
#[derive(Clone, Copy, Debug, PartialEq, Eq)]
pub enum Kind {
    Connless,
    Control(u8),
    Chunks,
    Short,
}

pub fn classify(v7: bool, d: &[u8]) -> Kind {
    if !v7 {
        if d.len() < 3 {
            return Kind::Short;
        }
        let flags = d[0] >> 4;
        if flags & 2 != 0 {
            return Kind::Connless;
        }
        if flags & 1 != 0 {
            return match d.get(3) {
                Some(&c) => Kind::Control(c),
                None => Kind::Short,
            };
        }
        Kind::Chunks
    } else {
        if d.is_empty() {
            return Kind::Short;
        }
        let flags = (d[0] >> 2) & 0xf;
        if flags & 8 != 0 {
            return Kind::Connless;
        }
        if d.len() < 7 {
            return Kind::Short;
        }
        if flags & 1 != 0 {
            return match d.get(7) {
                Some(&c) => Kind::Control(c),
                None => Kind::Short,
            };
        }
        Kind::Chunks
    }
}

/// Control byte of the message with which an acceptor answers the connect.
pub fn accept_ctrl(_v7: bool) -> u8 {
    // 0.6: CONNECTACCEPT = 2; 0.7: ACCEPT = 2.
    2
}

// ------------------------------------------------------------------ simulation

#[derive(Clone, Debug)]
pub struct Datagram {
    pub id: u64,
    pub bytes: Vec<u8>,
    /// vital submissions of (sender, receiver) when it was put on the wire
    pub vital_at_emit: (u64, u64),
    pub copies_made: u32,
}

#[derive(Clone, Debug)]
pub enum Move {
    Connect,
    Send { side: usize, len: usize, vital: bool, fill: u8 },
    Connless { side: usize, len: usize },
    Flush(usize),
    Tick(usize),
    Advance(u64),
    AdvanceToDeadline,
    Deliver { to: usize, idx: usize },
    Drop { to: usize, idx: usize },
    Dup { to: usize, idx: usize },
    Disconnect { side: usize, reason_len: usize },
    /// fault injection: the next `n` datagrams this side hands to its socket are refused
    FailSends { side: usize, n: u32 },
}

impl Move {
    pub fn to_json(&self) -> Value {
        match self {
            Move::Connect => json!("connect"),
            Move::Send { side, len, vital, fill } => json!({"send": side, "len": len, "vital": vital, "fill": fill}),
            Move::Connless { side, len } => json!({"connless": side, "len": len}),
            Move::Flush(s) => json!({"flush": s}),
            Move::Tick(s) => json!({"tick": s}),
            Move::Advance(us) => json!({"advance_us": us}),
            Move::AdvanceToDeadline => json!("advance_to_deadline"),
            Move::Deliver { to, idx } => json!({"deliver_to": to, "idx": idx}),
            Move::Drop { to, idx } => json!({"drop_to": to, "idx": idx}),
            Move::Dup { to, idx } => json!({"dup_to": to, "idx": idx}),
            Move::Disconnect { side, reason_len } => json!({"disconnect": side, "reason_len": reason_len}),
            Move::FailSends { side, n } => json!({"fail_sends": side, "n": n}),
        }
    }
    pub fn from_json(v: &Value) -> Move {
        if v == "connect" {
            return Move::Connect;
        }
        if v == "advance_to_deadline" {
            return Move::AdvanceToDeadline;
        }
        let u = |k: &str| v[k].as_u64().unwrap() as usize;
        if !v["send"].is_null() {
            return Move::Send { side: u("send"), len: u("len"), vital: v["vital"].as_bool().unwrap(), fill: u("fill") as u8 };
        }
        if !v["connless"].is_null() {
            return Move::Connless { side: u("connless"), len: u("len") };
        }
        if !v["flush"].is_null() {
            return Move::Flush(u("flush"));
        }
        if !v["tick"].is_null() {
            return Move::Tick(u("tick"));
        }
        if !v["advance_us"].is_null() {
            return Move::Advance(v["advance_us"].as_u64().unwrap());
        }
        if !v["deliver_to"].is_null() {
            return Move::Deliver { to: u("deliver_to"), idx: u("idx") };
        }
        if !v["drop_to"].is_null() {
            return Move::Drop { to: u("drop_to"), idx: u("idx") };
        }
        if !v["dup_to"].is_null() {
            return Move::Dup { to: u("dup_to"), idx: u("idx") };
        }
        if !v["fail_sends"].is_null() {
            return Move::FailSends { side: u("fail_sends"), n: u("n") as u32 };
        }
        if !v["disconnect"].is_null() {
            return Move::Disconnect { side: u("disconnect"), reason_len: u("reason_len") };
        }
        panic!("bad move {}", v)
    }
}

#[derive(Clone, Debug)]
pub struct Finding {
    /// number of moves applied when the finding was recorded
    pub at_move: usize,
    pub clause: &'static str,
    pub site: String,
    pub class: String,
    pub detail: Value,
}

#[derive(Default, Clone, Debug)]
pub struct Stats {
    pub moves: u64,
    pub emitted: u64,
    pub delivered: u64,
    pub dropped: u64,
    pub duplicated: u64,
    pub dup_deliveries: u64,
    pub reordered_deliveries: u64,
    pub stale_dropped: u64,
    pub vital_submitted: [u64; 2],
    pub vital_delivered: [u64; 2],
    pub nonvital_submitted: u64,
    pub nonvital_delivered: u64,
    pub connless_delivered: u64,
    pub resend_chunks_on_wire: u64,
    pub request_resend_on_wire: u64,
    pub compressed_on_wire: u64,
    pub uncompressed_chunk_packets: u64,
    pub too_long_refused: u64,
    pub seq_wraps: u64,
    pub max_unacked: u64,
    pub max_queued_chunks: u64,
    pub max_datagrams_per_call: u64,
    pub ready: u64,
    pub warnings_on_feed: u64,
    pub token_mismatch: u64,
    pub send_failures_armed: u64,
}

pub struct Side<C: Conn> {
    pub conn: C,
    pub cb: Cb,
    pub submitted_vital: Vec<Vec<u8>>,
    pub submitted_nonvital: HashSet<Vec<u8>>,
    pub submitted_connless: HashSet<Vec<u8>>,
    /// How many of the *peer's* vital chunks were handed to this application.
    pub delivered_vital: usize,
    pub ready_seen: u32,
    pub disconnected_event: bool,
    /// Set when a panic escaped from this endpoint: it must not be used again.
    pub poisoned: bool,
    pub emitted_accept: bool,
    pub nonvital_counter: u32,
}

pub struct Sim<C: Conn> {
    pub seed: u64,
    /// scripted secure_random values per side at the start (for replay from the log)
    pub initial_scripts: [Vec<[u8; 4]>; 2],
    pub variant: Variant,
    pub sides: [Side<C>; 2],
    /// wire[d]: datagrams travelling towards side d.
    pub wire: [Vec<Datagram>; 2],
    pub next_id: u64,
    pub last_delivered_id: [u64; 2],
    pub delivered_ids: HashSet<u64>,
    pub log: Vec<Move>,
    pub findings: Vec<Finding>,
    pub stats: Stats,
    pub states_seen: HashSet<u64>,
    pub check_wire: bool,
    pub allow_disconnect_unconnected: bool,
    pub ended: bool,
    /// Panic that ended the history, if any.
    pub panicked: Option<(String, Panicked)>,
}

/// Sizes the generators concentrate on.
pub const EDGE_SIZES: [usize; 24] = [
    0, 1, 2, 3, 15, 16, 17, 63, 64, 65, 255, 256, 1021, 1022, 1023, 1024, 1025, 1383, 1386, 1387, 1388, 1389, 1390, 1391,
];

pub fn payload(side: usize, vital: bool, index: u32, len: usize, fill: u8) -> Vec<u8> {
    // Self-describing where the length permits: direction, kind, running index.
    let mut v = Vec::with_capacity(len);
    let head = [
        if side == 0 { b'A' } else { b'B' },
        if vital { b'V' } else { b'N' },
        index as u8,
        (index >> 8) as u8,
        (index >> 16) as u8,
        (index >> 24) as u8,
    ];
    let mut r = Rng::new(((index as u64) << 8) | ((side as u64) << 1) | vital as u64);
    for i in 0..len {
        let b = if i < head.len() {
            head[i]
        } else {
            match fill % 4 {
                0 => 0,                                   // highly compressible
                1 => b"the quick brown fox "[i % 20],     // text
                2 => r.u8(),                              // noise
                _ => if i % 7 == 0 { r.u8() } else { 0 }, // sparse
            }
        };
        v.push(b);
    }
    v
}

impl<C: Conn> Sim<C> {
    pub fn new(variant: Variant, seed: u64) -> Sim<C> {
        assert!(C::V7 == (variant == Variant::V7));
        let side = |i: u64| Side {
            conn: C::new(),
            cb: Cb::new(crate::mix(seed, i)),
            submitted_vital: Vec::new(),
            submitted_nonvital: HashSet::new(),
            submitted_connless: HashSet::new(),
            delivered_vital: 0,
            ready_seen: 0,
            disconnected_event: false,
            poisoned: false,
            emitted_accept: false,
            nonvital_counter: 0,
        };
        Sim {
            seed,
            initial_scripts: [Vec::new(), Vec::new()],
            variant,
            sides: [side(0), side(1)],
            wire: [Vec::new(), Vec::new()],
            next_id: 1,
            last_delivered_id: [0, 0],
            delivered_ids: HashSet::new(),
            log: Vec::new(),
            findings: Vec::new(),
            stats: Stats::default(),
            states_seen: HashSet::new(),
            check_wire: true,
            allow_disconnect_unconnected: false,
            ended: false,
            panicked: None,
        }
    }

    pub fn now(&self) -> u64 {
        self.sides[0].cb.now_us
    }

    pub fn set_now(&mut self, t: u64) {
        self.sides[0].cb.now_us = t;
        self.sides[1].cb.now_us = t;
    }

    pub fn finding(&mut self, clause: &'static str, site: &str, class: &str, detail: Value) {
        if self.findings.len() < 32 {
            self.findings.push(Finding {
                at_move: self.log.len(),
                clause,
                site: site.to_string(),
                class: class.to_string(),
                detail,
            });
        }
    }

    pub fn online(&self, side: usize) -> bool {
        self.sides[side].conn.state_name() == "Online"
    }

    /// Is `m` a valid API call in the current state (the API's documented
    /// preconditions)? Adversary moves need an existing datagram.
    pub fn valid(&self, m: &Move) -> bool {
        if self.ended {
            return false;
        }
        let st = |s: usize| self.sides[s].conn.state_name();
        match *m {
            Move::Connect => st(0) == "Unconnected",
            Move::Send { side, vital, .. } => {
                // quantifier: fewer than 512 unacknowledged at once
                self.online(side) && (!vital || self.sides[side].conn.unacked() < 500)
            }
            Move::Connless { side, .. } => self.online(side),
            Move::Flush(side) => self.online(side),
            Move::Tick(_) | Move::Advance(_) | Move::AdvanceToDeadline | Move::FailSends { .. } => true,
            Move::Deliver { to, idx } | Move::Drop { to, idx } | Move::Dup { to, idx } => idx < self.wire[to].len(),
            Move::Disconnect { side, .. } => st(side) != "Disconnected" && (self.allow_disconnect_unconnected || st(side) != "Unconnected"),
        }
    }

    fn has_token_mode(&self, side: usize, state_before: &str, kind: Kind) -> bool {
        // A connection that was never connected has no token to send (the
        // Close of a rejected connection).
        if state_before == "Unconnected" && kind == Kind::Control(4) {
            return false;
        }
        match self.variant {
            Variant::V6Token => true,
            // Without token support on the accepting side, the only datagrams
            // that carry a token are the connector's Connect (offering the
            // extension) and a Close sent while still connecting.
            Variant::V6NoToken => {
                side == 0
                    && matches!(state_before, "Unconnected" | "Connecting")
                    && matches!(kind, Kind::Control(1) | Kind::Control(4))
            }
            Variant::V7 => true,
        }
    }

    /// Collects what `side` put into its outbox during the last call: wire
    /// oracle (C04), classification, then onto the wire.
    fn collect(&mut self, side: usize, state_before: &'static str, site: &str) {
        let sent = std::mem::take(&mut self.sides[side].cb.sent);
        self.stats.max_datagrams_per_call = self.stats.max_datagrams_per_call.max(sent.len() as u64);
        for bytes in sent {
            self.stats.emitted += 1;
            let kind = classify(C::V7, &bytes);
            if side == 1 && kind == Kind::Control(accept_ctrl(C::V7)) {
                self.sides[1].emitted_accept = true;
            }
            if self.check_wire {
                self.wire_oracle(side, state_before, site, &bytes);
            }
            let mut bytes = bytes;
            // 0.6 without token: the acceptor sees the token-less connect.
            if self.variant == Variant::V6NoToken && side == 0 && kind == Kind::Control(1) && bytes.len() == 12 {
                bytes.truncate(4);
            }
            let d = Datagram {
                id: self.next_id,
                bytes,
                vital_at_emit: (
                    self.sides[side].submitted_vital.len() as u64,
                    self.sides[1 - side].submitted_vital.len() as u64,
                ),
                copies_made: 0,
            };
            self.next_id += 1;
            self.wire[1 - side].push(d);
        }
    }

    /// C04: every datagram handed to the send callback is ≤ 1400 bytes, parses
    /// without error or warning, carries as many chunks as its header says and
    /// every chunk is bit-identical to what was queued.
    fn wire_oracle(&mut self, side: usize, state_before: &'static str, site: &str, bytes: &[u8]) {
        let vname = self.variant.name();
        if bytes.len() > 1400 {
            self.finding("wire-too-long", site, vname, json!({"len": bytes.len()}));
            return;
        }
        let has_token = self.has_token_mode(side, state_before, classify(C::V7, bytes));
        let parsed = catch(|| C::parse(bytes, has_token));
        let (parsed, warnings) = match parsed {
            Ok(x) => x,
            Err(p) => {
                self.finding("wire-unparseable", site, &format!("{}|reader-panic:{}", vname, p.msg_sig), json!({"bytes": hex_short(bytes)}));
                return;
            }
        };
        if !warnings.is_empty() {
            let mut w = warnings.clone();
            w.sort();
            w.dedup();
            self.finding("wire-warning", site, &format!("{}|{}", vname, w.join("+")), json!({"bytes": hex_short(bytes), "len": bytes.len(), "warnings": warnings}));
            return;
        }
        match parsed {
            Parsed::Error(e) => {
                self.finding("wire-unparseable", site, &format!("{}|{}", vname, e), json!({"bytes": hex_short(bytes), "len": bytes.len()}));
            }
            Parsed::Connless(d) => {
                if !self.sides[side].submitted_connless.contains(&d) {
                    self.finding("wire-chunk-differs", site, &format!("{}|connless", vname), json!({"payload": hex_short(&d)}));
                }
            }
            Parsed::Control { .. } => {}
            Parsed::Chunks { num_chunks, chunks, request_resend, compressed, .. } => {
                if compressed {
                    self.stats.compressed_on_wire += 1;
                } else {
                    self.stats.uncompressed_chunk_packets += 1;
                }
                if request_resend {
                    self.stats.request_resend_on_wire += 1;
                }
                if chunks.len() != num_chunks as usize {
                    self.finding("wire-chunk-count", site, vname, json!({"header": num_chunks, "carried": chunks.len(), "bytes": hex_short(bytes)}));
                    return;
                }
                let submitted = self.sides[side].submitted_vital.len();
                for ch in &chunks {
                    match ch.vital {
                        Some((seq, resend)) => {
                            if resend {
                                self.stats.resend_chunks_on_wire += 1;
                            }
                            // the unique submission index j in (submitted-1024, submitted) with (j+1) % 1024 == seq
                            let mut j = None;
                            let lo = submitted.saturating_sub(1023);
                            for cand in lo..submitted {
                                if (cand + 1) % 1024 == seq as usize {
                                    j = Some(cand);
                                }
                            }
                            match j {
                                Some(j) if self.sides[side].submitted_vital[j] == ch.data => {}
                                _ => {
                                    self.finding("wire-chunk-differs", site, &format!("{}|vital", vname), json!({"seq": seq, "resend": resend, "chunk": hex_short(&ch.data), "index": j}));
                                    return;
                                }
                            }
                        }
                        None => {
                            if !self.sides[side].submitted_nonvital.contains(&ch.data) {
                                self.finding("wire-chunk-differs", site, &format!("{}|nonvital", vname), json!({"chunk": hex_short(&ch.data)}));
                                return;
                            }
                        }
                    }
                }
            }
        }
    }

    /// C01: delivery oracle at the return of a feed.
    fn delivery_oracle(&mut self, to: usize, events: &[Event]) {
        let vname = self.variant.name();
        let from = 1 - to;
        for ev in events {
            match ev {
                Event::Chunk(data, true) => {
                    let cursor = self.sides[to].delivered_vital;
                    let expected = self.sides[from].submitted_vital.get(cursor);
                    if expected.map(|e| e == data).unwrap_or(false) {
                        self.sides[to].delivered_vital += 1;
                        self.stats.vital_delivered[to] += 1;
                    } else {
                        // classify: duplicate / skip / reorder / altered / invented
                        let pos = self.sides[from].submitted_vital.iter().position(|s| s == data);
                        let what = match pos {
                            Some(p) if p < cursor => "duplicate-or-reordered-old",
                            Some(_) => "skipped-ahead",
                            None => "altered-or-invented",
                        };
                        self.finding("prefix", "Connection::feed", &format!("{}|{}", vname, what), json!({"to": to, "cursor": cursor, "found_at": pos, "delivered": hex_short(data), "expected": expected.map(|e| hex_short(e))}));
                        // resynchronise so that one defect is one finding
                        if let Some(p) = pos {
                            if p >= cursor {
                                self.sides[to].delivered_vital = p + 1;
                            }
                        }
                    }
                }
                Event::Chunk(data, false) => {
                    self.stats.nonvital_delivered += 1;
                    if !self.sides[from].submitted_nonvital.contains(data) {
                        self.finding("nonvital-membership", "Connection::feed", vname, json!({"to": to, "delivered": hex_short(data)}));
                    }
                }
                Event::Connless(data) => {
                    self.stats.connless_delivered += 1;
                    if !self.sides[from].submitted_connless.contains(data) {
                        self.finding("nonvital-membership", "Connection::feed", &format!("{}|connless", vname), json!({"to": to, "delivered": hex_short(data)}));
                    }
                }
                Event::Ready => {
                    self.stats.ready += 1;
                    self.sides[to].ready_seen += 1;
                    if to != 0 {
                        self.finding("ready", "Connection::feed", &format!("{}|acceptor-told-ready", vname), json!({}));
                    } else {
                        if self.sides[0].ready_seen > 1 {
                            self.finding("ready", "Connection::feed", &format!("{}|ready-twice", vname), json!({"count": self.sides[0].ready_seen}));
                        }
                        if !self.sides[1].emitted_accept {
                            self.finding("ready", "Connection::feed", &format!("{}|ready-before-accept", vname), json!({}));
                        }
                    }
                }
                Event::Disconnect(_) => {
                    self.sides[to].disconnected_event = true;
                }
            }
        }
    }

    fn drop_stale(&mut self) {
        // quantifier: no datagram is delayed across 1024 sequence numbers. We
        // drop at 500 in either direction.
        for to in 0..2 {
            let from = 1 - to;
            let s_now = self.sides[from].submitted_vital.len() as u64;
            let r_now = self.sides[to].submitted_vital.len() as u64;
            let before = self.wire[to].len();
            self.wire[to].retain(|d| s_now - d.vital_at_emit.0 < 500 && r_now - d.vital_at_emit.1 < 500);
            self.stats.stale_dropped += (before - self.wire[to].len()) as u64;
        }
    }

    fn record_state(&mut self) {
        let mut h = 0u64;
        for s in &self.sides {
            let seq = s.conn.seq().unwrap_or((9999, 9999, false));
            let q = s.conn.queued();
            let key = format!("{}|{}|{}|{}|{}|{}", s.conn.state_name(), seq.0, seq.1, seq.2, s.conn.unacked(), q.0);
            h = crate::mix(h, fnv1a(key.as_bytes()));
            self.stats.max_unacked = self.stats.max_unacked.max(s.conn.unacked() as u64);
            self.stats.max_queued_chunks = self.stats.max_queued_chunks.max(q.0 as u64);
        }
        if self.states_seen.len() < 200_000 {
            self.states_seen.insert(h);
        }
    }

    /// Applies one move. Returns false when the move was not valid (skipped).
    pub fn apply(&mut self, m: Move) -> bool {
        if !self.valid(&m) {
            return false;
        }
        self.log.push(m.clone());
        self.stats.moves += 1;
        for s in &mut self.sides {
            s.cb.calls = 0;
        }
        let vname = self.variant.name();
        match m {
            Move::Connect => {
                let st = self.sides[0].conn.state_name();
                self.call(0, "Connection::connect", st, |c, cb| c.connect(cb));
            }
            Move::Send { side, len, vital, fill } => {
                let st = self.sides[side].conn.state_name();
                let index = if vital {
                    self.sides[side].submitted_vital.len() as u32
                } else {
                    self.sides[side].nonvital_counter
                };
                let data = payload(side, vital, index, len, fill);
                let before = if len >= 1000 { self.sides[side].conn.fingerprint() } else { String::new() };
                // The chunk may already go out (flush inside send): register first.
                if vital {
                    self.sides[side].submitted_vital.push(data.clone());
                } else {
                    self.sides[side].submitted_nonvital.insert(data.clone());
                }
                let r = self.call(side, "Connection::send", st, |c, cb| c.send(cb, &data, vital));
                match r {
                    Some(Ok(())) => {
                        if vital {
                            self.stats.vital_submitted[side] += 1;
                            if self.sides[side].submitted_vital.len() % 1024 == 0 {
                                self.stats.seq_wraps += 1;
                            }
                        } else {
                            self.sides[side].nonvital_counter += 1;
                            self.stats.nonvital_submitted += 1;
                        }
                        if len > C::max_payload() {
                            self.finding("too-long-accepted", "Connection::send", vname, json!({"len": len}));
                        }
                    }
                    Some(Err(())) => {
                        // refused: must leave the connection unchanged and usable
                        self.stats.too_long_refused += 1;
                        if vital {
                            self.sides[side].submitted_vital.pop();
                        } else {
                            // keep membership exact: the refused payload was never sent
                            self.sides[side].submitted_nonvital.remove(&data);
                        }
                        let after = if len >= 1000 { self.sides[side].conn.fingerprint() } else { String::new() };
                        if after != before {
                            self.finding("refusal-changed-state", "Connection::send", vname, json!({"len": len, "vital": vital}));
                        }
                        // Every variant can carry what fits the 10-bit chunk size of 0.6.
                        if len < 1024 {
                            self.finding("refused-within-limit", "Connection::send", &format!("{}|len-class={}", vname, len_class(len)), json!({"len": len, "vital": vital}));
                        }
                    }
                    None => {
                        if vital {
                            self.sides[side].submitted_vital.pop();
                        }
                    }
                }
            }
            Move::Connless { side, len } => {
                let st = self.sides[side].conn.state_name();
                let idx = self.sides[side].submitted_connless.len() as u32;
                let mut data = payload(side, false, idx, len, 2);
                if !data.is_empty() {
                    data[0] = b'C';
                }
                self.sides[side].submitted_connless.insert(data.clone());
                let r = self.call(side, "Connection::send_connless", st, |c, cb| c.send_connless(cb, &data));
                if let Some(Err(())) = r {
                    self.stats.too_long_refused += 1;
                    if len <= C::max_payload() {
                        self.finding("refused-within-limit", "Connection::send_connless", vname, json!({"len": len}));
                    }
                }
            }
            Move::Flush(side) => {
                let st = self.sides[side].conn.state_name();
                self.call(side, "Connection::flush", st, |c, cb| c.flush(cb));
            }
            Move::Tick(side) => {
                let st = self.sides[side].conn.state_name();
                self.call(side, "Connection::tick", st, |c, cb| c.tick(cb));
            }
            Move::FailSends { side, n } => {
                self.sides[side].cb.fail_sends = n;
                self.stats.send_failures_armed += n as u64;
            }
            Move::Advance(us) => {
                let t = self.now() + us;
                self.set_now(t);
            }
            Move::AdvanceToDeadline => {
                let d = [self.sides[0].conn.needs_tick(), self.sides[1].conn.needs_tick()];
                let next = d.iter().flatten().min().copied();
                if let Some(t) = next {
                    if t > self.now() && t < u64::MAX / 2 {
                        self.set_now(t);
                    }
                }
            }
            Move::Deliver { to, idx } => {
                let d = self.wire[to].remove(idx);
                self.stats.delivered += 1;
                if !self.delivered_ids.insert(d.id) {
                    self.stats.dup_deliveries += 1;
                }
                if d.id < self.last_delivered_id[to] {
                    self.stats.reordered_deliveries += 1;
                }
                self.last_delivered_id[to] = self.last_delivered_id[to].max(d.id);
                let st = self.sides[to].conn.state_name();
                let r = self.call(to, "Connection::feed", st, |c, cb| c.feed(cb, &d.bytes));
                if let Some((events, warnings)) = r {
                    self.stats.warnings_on_feed += warnings.len() as u64;
                    if warnings.iter().any(|w| w.contains("TokenMismatch")) {
                        self.stats.token_mismatch += 1;
                    }
                    self.delivery_oracle(to, &events);
                }
            }
            Move::Drop { to, idx } => {
                self.wire[to].remove(idx);
                self.stats.dropped += 1;
            }
            Move::Dup { to, idx } => {
                if self.wire[to][idx].copies_made < 3 && self.wire[to].len() < 256 {
                    self.wire[to][idx].copies_made += 1;
                    let d = self.wire[to][idx].clone();
                    self.wire[to].push(d);
                    self.stats.duplicated += 1;
                }
            }
            Move::Disconnect { side, reason_len } => {
                let st = self.sides[side].conn.state_name();
                let reason: Vec<u8> = (0..reason_len).map(|i| b'a' + (i % 26) as u8).collect();
                self.call(side, "Connection::disconnect", st, |c, cb| c.disconnect(cb, &reason));
            }
        }
        self.drop_stale();
        if self.panicked.is_none() {
            self.record_state();
        }
        true
    }

    /// Runs one API call of `side` under catch; collects the outbox.
    fn call<R, F: FnOnce(&mut C, &mut Cb) -> R>(&mut self, side: usize, site: &'static str, state_before: &'static str, f: F) -> Option<R> {
        if self.sides[side].poisoned {
            return None;
        }
        let s = &mut self.sides[side];
        let r = catch(|| f(&mut s.conn, &mut s.cb));
        match r {
            Ok(v) => {
                self.collect(side, state_before, site);
                Some(v)
            }
            Err(p) => {
                self.sides[side].poisoned = true;
                self.ended = true;
                let vname = self.variant.name();
                if p.msg.contains(BUDGET_PANIC) {
                    self.finding("no-return", site, &format!("{}|callback-budget|state={}", vname, state_before), json!({"budget": self.sides[side].cb.budget, "state": state_before}));
                } else {
                    self.finding("panic", &format!("{}|msg={}|in={}", site, p.msg_sig, p.file), &format!("{}|state={}", vname, state_before), json!({"message": p.msg, "location": p.location}));
                }
                self.panicked = Some((site.to_string(), p));
                None
            }
        }
    }

    pub fn log_json(&self) -> Value {
        json!({"variant": self.variant.name(), "moves": self.log.iter().map(|m| m.to_json()).collect::<Vec<_>>()})
    }
}

pub fn len_class(len: usize) -> &'static str {
    match len {
        0 => "0",
        1..=63 => "1..63",
        64..=1023 => "64..1023",
        1024..=1387 => "1024..1387",
        1388..=1390 => "1388..1390",
        _ => ">1390",
    }
}

// ------------------------------------------------------------------ adversary

/// A per-history "personality" so that runs differ in kind.
#[derive(Clone, Debug)]
pub struct Personality {
    pub loss: u32,     // percent
    pub dup: u32,      // percent
    pub reorder: usize, // window
    pub w_send: u32,
    pub w_flush: u32,
    pub w_tick: u32,
    pub w_advance: u32,
    pub w_deliver: u32,
    pub w_connless: u32,
    pub vital_pct: u32,
    pub big_pct: u32,
    pub both_send: bool,
    pub burst: usize,
    /// weight of injected send failures (0 = none)
    pub w_fail: u32,
}

impl Personality {
    pub fn random(rng: &mut Rng) -> Personality {
        let kind = rng.below(6);
        Personality {
            loss: match kind {
                0 => 0,
                1 => rng.range(1, 10) as u32,
                _ => rng.range(0, 60) as u32,
            },
            dup: if kind == 0 { 0 } else { rng.range(0, 30) as u32 },
            reorder: match rng.below(4) {
                0 => 0,
                1 => 2,
                2 => 8,
                _ => 64,
            },
            w_send: rng.range(5, 40) as u32,
            w_flush: rng.range(1, 15) as u32,
            w_tick: rng.range(2, 20) as u32,
            w_advance: rng.range(2, 20) as u32,
            w_deliver: rng.range(10, 60) as u32,
            w_connless: rng.range(0, 3) as u32,
            vital_pct: *rng.pick(&[100, 90, 70, 50, 20]),
            big_pct: *rng.pick(&[0, 5, 20, 60]),
            both_send: rng.chance(3, 4),
            burst: *rng.pick(&[1, 1, 1, 3, 10, 40]),
            w_fail: *rng.pick(&[0, 0, 0, 1, 3]),
        }
    }
    pub fn to_json(&self) -> Value {
        json!({"loss": self.loss, "dup": self.dup, "reorder": self.reorder, "vital_pct": self.vital_pct, "big_pct": self.big_pct, "burst": self.burst, "both_send": self.both_send})
    }
}

pub fn pick_len(rng: &mut Rng, big_pct: u32, max_accepted: usize) -> usize {
    if rng.below(100) < big_pct as u64 {
        match rng.below(3) {
            0 => *rng.pick(&EDGE_SIZES).min(&max_accepted),
            1 => rng.range(max_accepted as i64 - 8, max_accepted as i64) as usize,
            _ => rng.range(200, max_accepted as i64) as usize,
        }
    } else {
        match rng.below(4) {
            0 => *rng.pick(&[0usize, 1, 2, 3, 15, 16, 17, 63, 64, 65]),
            1 => rng.range(6, 40) as usize,
            _ => rng.range(0, 200) as usize,
        }
    }
}

/// Chooses the next chaos move.
pub fn chaos_move<C: Conn>(sim: &Sim<C>, rng: &mut Rng, p: &Personality, max_len: usize) -> Move {
    let total_wire = sim.wire[0].len() + sim.wire[1].len();
    let weights = [
        p.w_send,
        p.w_flush,
        p.w_tick,
        p.w_advance,
        if total_wire > 0 { p.w_deliver + (total_wire as u32).min(40) } else { 0 },
        p.w_connless,
        p.w_fail,
    ];
    match rng.weighted(&weights) {
        0 => {
            let side = if p.both_send { rng.usize_below(2) } else { 0 };
            Move::Send {
                side,
                len: pick_len(rng, p.big_pct, max_len),
                vital: rng.below(100) < p.vital_pct as u64,
                fill: rng.u8(),
            }
        }
        1 => Move::Flush(rng.usize_below(2)),
        2 => Move::Tick(rng.usize_below(2)),
        3 => match rng.below(8) {
            0 => Move::Advance(0),
            1 => Move::Advance(1_000),
            2 => Move::Advance(100_000),
            3 => Move::Advance(500_000),
            4 => Move::Advance(1_000_000),
            5 => Move::Advance(rng.range(0, 1_200_000) as u64),
            _ => Move::AdvanceToDeadline,
        },
        4 => {
            let to = if sim.wire[0].is_empty() {
                1
            } else if sim.wire[1].is_empty() {
                0
            } else {
                rng.usize_below(2)
            };
            let n = sim.wire[to].len();
            let idx = if p.reorder == 0 { 0 } else { rng.usize_below(n.min(p.reorder)) };
            let x = rng.below(100) as u32;
            if x < p.loss {
                Move::Drop { to, idx }
            } else if x < p.loss + p.dup {
                Move::Dup { to, idx }
            } else {
                Move::Deliver { to, idx }
            }
        }
        5 => Move::Connless {
            side: rng.usize_below(2),
            len: pick_len(rng, p.big_pct, max_len),
        },
        _ => Move::FailSends { side: rng.usize_below(2), n: rng.range(1, 3) as u32 },
    }
}

// ------------------------------------------------------------------ history runner

/// Parameters of one chaos history.
#[derive(Clone, Debug)]
pub struct HistoryParams {
    pub variant: Variant,
    pub moves: usize,
    pub personality: Personality,
    /// Largest payload length the generator asks `send` to carry.
    pub max_len: usize,
    /// Probability (percent) that the first secure_random draws are reserved values.
    pub reserved_random_pct: u32,
    pub disconnect_pct: u32,
}

impl HistoryParams {
    pub fn random(rng: &mut Rng, variant: Variant, moves: usize) -> HistoryParams {
        HistoryParams {
            variant,
            moves,
            personality: Personality::random(rng),
            max_len: 1023,
            reserved_random_pct: 30,
            disconnect_pct: 0,
        }
    }
}

pub fn script_reserved(rng: &mut Rng, cb: &mut Cb) {
    let n = rng.range(1, 3);
    for _ in 0..n {
        cb.script.push(if rng.bool() { [0xff; 4] } else { [0; 4] });
    }
}

/// Runs a chaos history on a fresh pair of endpoints. `hook` is called after
/// every applied move (monitor-specific oracles) and may stop the history by
/// returning false.
pub fn run_history<C: Conn, H: FnMut(&mut Sim<C>, &Move) -> bool>(rng: &mut Rng, hp: &HistoryParams, mut hook: H) -> Sim<C> {
    let mut sim: Sim<C> = Sim::new(hp.variant, rng.u64());
    if rng.below(100) < hp.reserved_random_pct as u64 {
        script_reserved(rng, &mut sim.sides[0].cb);
        script_reserved(rng, &mut sim.sides[1].cb);
    }
    sim.initial_scripts = [sim.sides[0].cb.script.clone(), sim.sides[1].cb.script.clone()];
    // A few moves may precede the connect (ticks and clock advances are valid in every state).
    let pre = if rng.chance(1, 4) { rng.range(1, 4) } else { 0 };
    for _ in 0..pre {
        let m = if rng.bool() { Move::Tick(rng.usize_below(2)) } else { Move::Advance(rng.range(0, 2_000_000) as u64) };
        sim.apply(m.clone());
        if !hook(&mut sim, &m) {
            return sim;
        }
    }
    sim.apply(Move::Connect);
    if !hook(&mut sim, &Move::Connect) {
        return sim;
    }
    let mut burst_left = 0usize;
    let mut burst_move: Option<Move> = None;
    for _ in 0..hp.moves {
        if sim.ended {
            break;
        }
        let m = if burst_left > 0 {
            burst_left -= 1;
            match burst_move.clone().unwrap() {
                Move::Send { side, vital, .. } => Move::Send { side, len: pick_len(rng, hp.personality.big_pct, hp.max_len), vital, fill: rng.u8() },
                m => m,
            }
        } else {
            let m = if hp.disconnect_pct > 0 && rng.below(10_000) < hp.disconnect_pct as u64 {
                Move::Disconnect { side: rng.usize_below(2), reason_len: *rng.pick(&[0usize, 1, 5, 126, 127]) }
            } else {
                chaos_move(&sim, rng, &hp.personality, hp.max_len)
            };
            if let Move::Send { .. } = m {
                if hp.personality.burst > 1 && rng.chance(1, 4) {
                    burst_left = rng.usize_below(hp.personality.burst);
                    burst_move = Some(m.clone());
                }
            }
            m
        };
        if sim.apply(m.clone()) && !hook(&mut sim, &m) {
            break;
        }
    }
    sim
}

/// Folds the statistics of a finished history into the shard context.
pub fn fold_stats<C: Conn>(ctx: &mut crate::Ctx, sim: &Sim<C>) {
    let s = &sim.stats;
    let v = sim.variant.name();
    ctx.count("moves", s.moves);
    ctx.count(&format!("histories[{}]", v), 1);
    ctx.count("datagrams_emitted", s.emitted);
    ctx.count("datagrams_delivered", s.delivered);
    ctx.count("datagrams_dropped", s.dropped);
    ctx.count("datagrams_duplicated", s.duplicated);
    ctx.count("duplicate_deliveries", s.dup_deliveries);
    ctx.count("reordered_deliveries", s.reordered_deliveries);
    ctx.count("stale_dropped", s.stale_dropped);
    ctx.count("vital_submitted", s.vital_submitted[0] + s.vital_submitted[1]);
    ctx.count("vital_delivered", s.vital_delivered[0] + s.vital_delivered[1]);
    ctx.count("nonvital_submitted", s.nonvital_submitted);
    ctx.count("nonvital_delivered", s.nonvital_delivered);
    ctx.count("connless_delivered", s.connless_delivered);
    ctx.count("resend_chunks_on_wire", s.resend_chunks_on_wire);
    ctx.count("request_resend_on_wire", s.request_resend_on_wire);
    ctx.count("compressed_on_wire", s.compressed_on_wire);
    ctx.count("uncompressed_chunk_packets", s.uncompressed_chunk_packets);
    ctx.count("too_long_refused", s.too_long_refused);
    ctx.count("seq_wraps", s.seq_wraps);
    ctx.count("ready_events", s.ready);
    ctx.count("token_mismatch_warnings", s.token_mismatch);
    ctx.count("send_failures_injected", sim.sides[0].cb.send_failures + sim.sides[1].cb.send_failures);
    ctx.max("max_unacked", s.max_unacked);
    ctx.max("max_queued_chunks", s.max_queued_chunks);
    ctx.max("max_datagrams_per_call", s.max_datagrams_per_call);
    ctx.count("distinct_endpoint_state_pairs_sum", sim.states_seen.len() as u64);
}

/// Forwards the findings whose clause is in `own` as violations; everything
/// else is counted as `aborted_by_other_clause`.
/// Re-executes a recorded move list on fresh endpoints (same seed, same scripted
/// randomness). Moves that are not valid in the state reached are skipped.
pub fn replay_log<C: Conn>(like: &Sim<C>, moves: &[Move]) -> Sim<C> {
    let mut sim: Sim<C> = Sim::new(like.variant, like.seed);
    sim.sides[0].cb.script = like.initial_scripts[0].clone();
    sim.sides[1].cb.script = like.initial_scripts[1].clone();
    sim.initial_scripts = like.initial_scripts.clone();
    sim.allow_disconnect_unconnected = like.allow_disconnect_unconnected;
    sim.check_wire = like.check_wire;
    for m in moves {
        if sim.ended {
            break;
        }
        sim.apply(m.clone());
    }
    sim
}

/// Greedy (ddmin-style) minimisation of the move list that leads to a finding
/// of the built-in oracles, bounded by `budget` re-executions.
pub fn minimise<C: Conn>(sim: &Sim<C>, f: &Finding, budget: usize) -> Vec<Move> {
    let reproduces = |moves: &[Move]| {
        let s = replay_log(sim, moves);
        s.findings.iter().any(|g| g.clause == f.clause && g.class == f.class && g.site == f.site)
    };
    let mut moves: Vec<Move> = sim.log[..f.at_move.min(sim.log.len())].to_vec();
    let mut spent = 1;
    if !reproduces(&moves) {
        return sim.log.clone(); // not reproducible from the log alone (monitor-side oracle): keep everything
    }
    let mut chunk = (moves.len() / 2).max(1);
    while chunk >= 1 && spent < budget {
        let mut i = 0;
        while i < moves.len() && spent < budget {
            let end = (i + chunk).min(moves.len());
            let mut candidate = moves.clone();
            candidate.drain(i..end);
            spent += 1;
            if reproduces(&candidate) {
                moves = candidate;
            } else {
                i += chunk;
            }
        }
        if chunk == 1 {
            break;
        }
        chunk /= 2;
    }
    moves
}

const BUILTIN_CLAUSES: [&str; 13] = [
    "prefix", "nonvital-membership", "ready", "wire-too-long", "wire-unparseable", "wire-warning", "wire-chunk-count", "wire-chunk-differs",
    "panic", "no-return", "too-long-accepted", "refusal-changed-state", "refused-within-limit",
];

/// Forwards the findings whose clause is in `own` as violations; everything
/// else is counted as `other_clause[...]`. The first occurrence of a signature
/// in this shard is minimised before it is recorded.
pub fn forward_findings<C: Conn>(ctx: &mut crate::Ctx, sim: &Sim<C>, own: &[&str], case_data: &Value) {
    for f in &sim.findings {
        if own.contains(&f.clause) {
            let mut data = case_data.clone();
            let signature = format!("{}|{}|{}|{}", ctx.property, f.clause, f.site, f.class);
            if !ctx.violations.contains_key(&signature) && BUILTIN_CLAUSES.contains(&f.clause) && sim.log.len() <= 6_000 {
                let small = minimise(sim, f, 120);
                data["minimised_moves"] = json!(small.iter().map(|m| m.to_json()).collect::<Vec<_>>());
                data["minimised_from"] = json!(sim.log.len());
                data["seed"] = json!(sim.seed);
                data["scripted_random"] = json!(sim.initial_scripts.iter().map(|s| s.iter().map(|x| crate::hex(x)).collect::<Vec<_>>()).collect::<Vec<_>>());
            }
            if sim.log.len() <= 400 {
                data["log"] = sim.log_json();
            } else {
                data["log_tail"] = json!(sim.log[sim.log.len() - 200..].iter().map(|m| m.to_json()).collect::<Vec<_>>());
                data["log_len"] = json!(sim.log.len());
            }
            ctx.violation(f.clause, &f.site, &f.class, f.detail.clone(), data);
        } else {
            ctx.count(&format!("other_clause[{}]", f.clause), 1);
        }
    }
}

impl<C: Conn> Sim<C> {
    /// Delivers everything in flight in FIFO order, alternating directions,
    /// until the wire is empty (bounded).
    pub fn deliver_all(&mut self, max_rounds: usize) {
        for _ in 0..max_rounds {
            if self.ended || (self.wire[0].is_empty() && self.wire[1].is_empty()) {
                return;
            }
            for to in [1usize, 0] {
                while !self.wire[to].is_empty() && !self.ended {
                    self.apply(Move::Deliver { to, idx: 0 });
                }
            }
        }
    }
    /// Connects and completes the handshake over a perfect wire. Returns true
    /// when both sides are online (the acceptor goes online with the first
    /// chunk packet, so a keep-alive flush is exchanged).
    pub fn handshake(&mut self) -> bool {
        self.apply(Move::Connect);
        self.deliver_all(8);
        if !self.online(0) {
            return false;
        }
        // first chunk packet moves the acceptor from Pending to Online
        self.apply(Move::Send { side: 0, len: 6, vital: true, fill: 0 });
        self.apply(Move::Flush(0));
        self.deliver_all(8);
        self.online(0) && self.online(1)
    }
}
