//! Virtual network for the connection-layer monitors (filled in with C01).
