//! Independent writer for Teeworlds datafiles (versions 3 and 4), written from
//! doc/datafile.md, and for the map items stored in them, written from
//! doc/map.md. Nothing here calls into libtw2-datafile or libtw2-map.
//!
//! Two layers:
//! * `Spec` is the abstract content of doc/datafile.md "Terminology": items
//!   (type_id, id, i32 data) grouped by type and data items (byte arrays).
//! * `RawFile` is the concrete file (header fields, tables, item bytes, data
//!   bytes) with every field individually settable, so that the monitor can
//!   produce files that are wrong in exactly one place or wrong consistently.

// ------------------------------------------------------------------ zlib

/// Adler-32 of RFC 1950.
pub fn adler32(data: &[u8]) -> u32 {
    let mut a: u32 = 1;
    let mut b: u32 = 0;
    for &x in data {
        a = (a + x as u32) % 65521;
        b = (b + a) % 65521;
    }
    (b << 16) | a
}

/// A valid zlib stream (RFC 1950) whose deflate payload consists of *stored*
/// blocks (RFC 1951 section 3.2.4) of at most `block` bytes each. Needs no
/// compressor and no foreign code.
pub fn zlib_stored(data: &[u8], block: usize) -> Vec<u8> {
    let block = block.max(1).min(65535);
    // CMF = 0x78 (deflate, 32K window), FLG = 0x01 (check bits, no dict, level 0)
    let mut out = vec![0x78, 0x01];
    if data.is_empty() {
        out.extend_from_slice(&[0x01, 0x00, 0x00, 0xff, 0xff]);
    } else {
        let n = (data.len() + block - 1) / block;
        for (i, c) in data.chunks(block).enumerate() {
            out.push(if i + 1 == n { 1 } else { 0 });
            let len = c.len() as u16;
            out.extend_from_slice(&len.to_le_bytes());
            out.extend_from_slice(&(!len).to_le_bytes());
            out.extend_from_slice(c);
        }
    }
    out.extend_from_slice(&adler32(data).to_be_bytes());
    out
}

// ------------------------------------------------------------------ abstract content

#[derive(Clone, Debug, PartialEq, Eq)]
pub struct TypeSpec {
    pub type_id: u16,
    /// (id, data) in file order.
    pub items: Vec<(u16, Vec<i32>)>,
}

#[derive(Clone, Debug, PartialEq, Eq, Default)]
pub struct Spec {
    /// Item types in file order; all items of one type are consecutive.
    pub types: Vec<TypeSpec>,
    /// Data items, uncompressed.
    pub data: Vec<Vec<u8>>,
}

impl Spec {
    pub fn num_items(&self) -> usize {
        self.types.iter().map(|t| t.items.len()).sum()
    }
    /// Flattened (type_id, id, data) in file order.
    pub fn flat_items(&self) -> Vec<(u16, u16, &[i32])> {
        let mut v = Vec::new();
        for t in &self.types {
            for (id, d) in &t.items {
                v.push((t.type_id, *id, &d[..]));
            }
        }
        v
    }
    /// Index range of the items of `type_id` (first table entry with that id).
    pub fn type_range(&self, type_id: u16) -> Option<(usize, usize)> {
        let mut start = 0;
        for t in &self.types {
            if t.type_id == type_id {
                return Some((start, start + t.items.len()));
            }
            start += t.items.len();
        }
        None
    }
}

// ------------------------------------------------------------------ concrete file

#[derive(Clone, Debug)]
pub struct RawFile {
    pub magic: [u8; 4],
    pub version: i32,
    pub size: i32,
    pub swaplen: i32,
    pub num_item_types: i32,
    pub num_items: i32,
    pub num_data: i32,
    pub item_size: i32,
    pub data_size: i32,
    /// (type_id, start, num)
    pub types: Vec<[i32; 3]>,
    pub item_offsets: Vec<i32>,
    pub data_offsets: Vec<i32>,
    /// Present in version 4 only.
    pub data_sizes: Option<Vec<i32>>,
    pub items: Vec<u8>,
    pub data: Vec<u8>,
}

#[derive(Clone, Copy, Debug, PartialEq, Eq, PartialOrd, Ord)]
pub enum FieldKind {
    Magic,
    Version,
    Size,
    Swaplen,
    NumItemTypes,
    NumItems,
    NumData,
    ItemSize,
    DataSize,
    TypeId,
    TypeStart,
    TypeNum,
    ItemOffset,
    DataOffset,
    UncompSize,
    ItemTypeIdAndId,
    ItemSizeField,
}

impl FieldKind {
    pub fn name(self) -> &'static str {
        match self {
            FieldKind::Magic => "hdr.magic",
            FieldKind::Version => "hdr.version",
            FieldKind::Size => "hdr.size",
            FieldKind::Swaplen => "hdr.swaplen",
            FieldKind::NumItemTypes => "hdr.num_item_types",
            FieldKind::NumItems => "hdr.num_items",
            FieldKind::NumData => "hdr.num_data",
            FieldKind::ItemSize => "hdr.item_size",
            FieldKind::DataSize => "hdr.data_size",
            FieldKind::TypeId => "type.type_id",
            FieldKind::TypeStart => "type.start",
            FieldKind::TypeNum => "type.num",
            FieldKind::ItemOffset => "item_offset",
            FieldKind::DataOffset => "data_offset",
            FieldKind::UncompSize => "data_size",
            FieldKind::ItemTypeIdAndId => "item.type_id__id",
            FieldKind::ItemSizeField => "item.size",
        }
    }
}

/// One 32-bit field of a serialised file.
#[derive(Clone, Copy, Debug)]
pub struct Field {
    pub kind: FieldKind,
    /// Index inside its table.
    pub index: usize,
    /// Byte position in the file.
    pub pos: usize,
    /// Value stored there.
    pub value: i32,
    /// The first value that is "just past the end" for this field.
    pub limit: i32,
}

#[derive(Clone, Debug, Default)]
pub struct Layout {
    pub fields: Vec<Field>,
    pub items_start: usize,
    pub data_start: usize,
    pub total: usize,
    /// Absolute (start, len) of every stored data block.
    pub blocks: Vec<(usize, usize)>,
}

fn put(out: &mut Vec<u8>, v: i32) {
    out.extend_from_slice(&v.to_le_bytes());
}

fn clamp_i32(v: i64) -> i32 {
    if v > i32::MAX as i64 {
        i32::MAX
    } else if v < i32::MIN as i64 {
        i32::MIN
    } else {
        v as i32
    }
}

impl RawFile {
    /// The honest file for `spec`. `compress` turns a data item into its
    /// stored form (only called for version 4).
    pub fn from_spec(spec: &Spec, version: i32, reversed_magic: bool, compress: &mut dyn FnMut(usize, &[u8]) -> Vec<u8>) -> RawFile {
        assert!(version == 3 || version == 4);
        let mut types = Vec::new();
        let mut item_offsets = Vec::new();
        let mut items = Vec::new();
        let mut start = 0i32;
        for t in &spec.types {
            types.push([t.type_id as i32, start, t.items.len() as i32]);
            start += t.items.len() as i32;
            for (id, d) in &t.items {
                item_offsets.push(items.len() as i32);
                // upper 16 bit type_id, lower 16 bit id
                let tid = (((t.type_id as u32) << 16) | (*id as u32)) as i32;
                put(&mut items, tid);
                put(&mut items, (d.len() * 4) as i32);
                for &w in d {
                    put(&mut items, w);
                }
            }
        }
        let mut data_offsets = Vec::new();
        let mut data_sizes = Vec::new();
        let mut data = Vec::new();
        for (i, d) in spec.data.iter().enumerate() {
            data_offsets.push(data.len() as i32);
            data_sizes.push(d.len() as i32);
            if version == 4 {
                data.extend_from_slice(&compress(i, d));
            } else {
                data.extend_from_slice(d);
            }
        }
        let mut f = RawFile {
            magic: if reversed_magic { *b"ATAD" } else { *b"DATA" },
            version,
            size: 0,
            swaplen: 0,
            num_item_types: 0,
            num_items: 0,
            num_data: 0,
            item_size: 0,
            data_size: 0,
            types,
            item_offsets,
            data_offsets,
            data_sizes: if version == 4 { Some(data_sizes) } else { None },
            items,
            data,
        };
        f.fix_counts();
        f.fix_sizes();
        f
    }

    /// Header counts and section sizes from the actual tables.
    pub fn fix_counts(&mut self) {
        self.num_item_types = self.types.len() as i32;
        self.num_items = self.item_offsets.len() as i32;
        self.num_data = self.data_offsets.len() as i32;
        self.item_size = self.items.len() as i32;
        self.data_size = self.data.len() as i32;
    }

    /// `size` and `swaplen` as doc/datafile.md defines them, computed from the
    /// *declared* header counts: size = whole file minus version_header, size
    /// and swaplen (16 bytes); swaplen = size minus the data section.
    pub fn fix_sizes(&mut self) {
        let total: i64 = 36
            + 12 * self.num_item_types as i64
            + 4 * self.num_items as i64
            + 4 * self.num_data as i64
            + if self.version >= 4 { 4 * self.num_data as i64 } else { 0 }
            + self.item_size as i64
            + self.data_size as i64;
        self.size = clamp_i32(total - 16);
        self.swaplen = clamp_i32(total - 16 - self.data_size as i64);
    }

    pub fn to_bytes(&self) -> Vec<u8> {
        self.serialise().0
    }

    pub fn serialise(&self) -> (Vec<u8>, Layout) {
        let mut out = Vec::new();
        let mut l = Layout::default();
        let actual_total: i64 = 36
            + 12 * self.types.len() as i64
            + 4 * (self.item_offsets.len() + self.data_offsets.len()) as i64
            + self.data_sizes.as_ref().map(|d| 4 * d.len() as i64).unwrap_or(0)
            + (self.items.len() + self.data.len()) as i64;
        let nitems = self.item_offsets.len() as i32;
        macro_rules! field {
            ($kind:expr, $index:expr, $value:expr, $limit:expr) => {{
                l.fields.push(Field { kind: $kind, index: $index, pos: out.len(), value: $value, limit: $limit });
                put(&mut out, $value);
            }};
        }
        l.fields.push(Field { kind: FieldKind::Magic, index: 0, pos: 0, value: i32::from_le_bytes(self.magic), limit: 0 });
        out.extend_from_slice(&self.magic);
        field!(FieldKind::Version, 0, self.version, 5);
        field!(FieldKind::Size, 0, self.size, clamp_i32(actual_total));
        field!(FieldKind::Swaplen, 0, self.swaplen, self.size);
        field!(FieldKind::NumItemTypes, 0, self.num_item_types, self.types.len() as i32 + 1);
        field!(FieldKind::NumItems, 0, self.num_items, nitems + 1);
        field!(FieldKind::NumData, 0, self.num_data, self.data_offsets.len() as i32 + 1);
        field!(FieldKind::ItemSize, 0, self.item_size, self.items.len() as i32 + 4);
        field!(FieldKind::DataSize, 0, self.data_size, self.data.len() as i32 + 1);
        for (i, t) in self.types.iter().enumerate() {
            field!(FieldKind::TypeId, i, t[0], 0x10000);
            field!(FieldKind::TypeStart, i, t[1], nitems);
            field!(FieldKind::TypeNum, i, t[2], nitems.wrapping_sub(t[1]).wrapping_add(1));
        }
        for (i, &o) in self.item_offsets.iter().enumerate() {
            field!(FieldKind::ItemOffset, i, o, self.items.len() as i32);
        }
        for (i, &o) in self.data_offsets.iter().enumerate() {
            field!(FieldKind::DataOffset, i, o, self.data.len() as i32 + 1);
        }
        if let Some(ds) = &self.data_sizes {
            for (i, &s) in ds.iter().enumerate() {
                field!(FieldKind::UncompSize, i, s, s.wrapping_mul(2).wrapping_add(1));
            }
        }
        l.items_start = out.len();
        // Item headers are located through the (honest) offsets where these
        // point inside the item section.
        for (i, &o) in self.item_offsets.iter().enumerate() {
            if o >= 0 && (o as usize) + 8 <= self.items.len() && o % 4 == 0 {
                let p = o as usize;
                let rd = |q: usize| i32::from_le_bytes([self.items[q], self.items[q + 1], self.items[q + 2], self.items[q + 3]]);
                let remaining = (self.items.len() - p - 8) as i32;
                l.fields.push(Field { kind: FieldKind::ItemTypeIdAndId, index: i, pos: l.items_start + p, value: rd(p), limit: 0 });
                l.fields.push(Field { kind: FieldKind::ItemSizeField, index: i, pos: l.items_start + p + 4, value: rd(p + 4), limit: remaining + 4 });
            }
        }
        out.extend_from_slice(&self.items);
        l.data_start = out.len();
        for (i, &o) in self.data_offsets.iter().enumerate() {
            let end = if i + 1 < self.data_offsets.len() { self.data_offsets[i + 1] } else { self.data.len() as i32 };
            if o >= 0 && end >= o && end as usize <= self.data.len() {
                l.blocks.push((l.data_start + o as usize, (end - o) as usize));
            }
        }
        out.extend_from_slice(&self.data);
        l.total = out.len();
        (out, l)
    }

    /// Replaces stored data block `index` by `bytes`, shifting the later
    /// offsets and fixing data_size/size/swaplen, i.e. a consistent file
    /// whose block content is `bytes`.
    pub fn replace_block(&mut self, index: usize, bytes: &[u8]) {
        let start = self.data_offsets[index] as usize;
        let end = if index + 1 < self.data_offsets.len() { self.data_offsets[index + 1] as usize } else { self.data.len() };
        let delta = bytes.len() as i64 - (end - start) as i64;
        self.data.splice(start..end, bytes.iter().cloned());
        for o in self.data_offsets[index + 1..].iter_mut() {
            *o = (*o as i64 + delta) as i32;
        }
        self.data_size = self.data.len() as i32;
        self.fix_sizes();
    }

    /// Grows the byte size of item `index` by `extra` bytes (appended to its
    /// data), shifting later item offsets. The declared item size, the later
    /// offsets, `item_size`, `size` and `swaplen` all stay consistent with
    /// each other; only the "divisible by four" rule of the document is
    /// broken when `extra` is not a multiple of four.
    pub fn grow_item(&mut self, index: usize, extra: usize, fill: u8) {
        let start = self.item_offsets[index] as usize;
        let size_pos = start + 4;
        let old = i32::from_le_bytes([self.items[size_pos], self.items[size_pos + 1], self.items[size_pos + 2], self.items[size_pos + 3]]);
        let end = start + 8 + old as usize;
        let new = old + extra as i32;
        self.items[size_pos..size_pos + 4].copy_from_slice(&new.to_le_bytes());
        self.items.splice(end..end, std::iter::repeat(fill).take(extra));
        for o in self.item_offsets[index + 1..].iter_mut() {
            *o += extra as i32;
        }
        self.item_size = self.items.len() as i32;
        self.fix_sizes();
    }
}

// ------------------------------------------------------------------ map items (doc/map.md)

pub mod map {
    use super::Spec;
    use super::TypeSpec;

    pub const T_VERSION: u16 = 0;
    pub const T_INFO: u16 = 1;
    pub const T_IMAGE: u16 = 2;
    pub const T_ENVELOPE: u16 = 3;
    pub const T_GROUP: u16 = 4;
    pub const T_LAYER: u16 = 5;
    pub const T_ENVPOINTS: u16 = 6;
    pub const T_SOUND: u16 = 7;

    pub const LAYER_TILEMAP: i32 = 2;
    pub const LAYER_QUADS: i32 = 3;
    pub const LAYER_SOUNDS_DEPRECATED: i32 = 9;
    pub const LAYER_SOUNDS: i32 = 10;

    /// I32String of doc/map.md: the C string padded with zeroes to 4n bytes,
    /// 128 added (wrapping) to every byte but the last, which stays a null
    /// byte; four bytes per integer, big endian.
    pub fn i32_string(s: &[u8], n_ints: usize) -> Vec<i32> {
        assert!(s.len() < n_ints * 4);
        let mut bytes = vec![0u8; n_ints * 4];
        bytes[..s.len()].copy_from_slice(s);
        let last = bytes.len() - 1;
        for b in bytes[..last].iter_mut() {
            *b = b.wrapping_add(128);
        }
        bytes.chunks(4).map(|c| i32::from_be_bytes([c[0], c[1], c[2], c[3]])).collect()
    }

    pub fn cstring(s: &[u8]) -> Vec<u8> {
        let mut v = s.to_vec();
        v.push(0);
        v
    }

    #[derive(Clone, Debug, Default)]
    pub struct Info {
        pub author: Option<Vec<u8>>,
        pub version: Option<Vec<u8>>,
        pub credits: Option<Vec<u8>>,
        pub license: Option<Vec<u8>>,
        /// DDNet field; `None` = field absent from the item.
        pub settings: Option<Option<Vec<Vec<u8>>>>,
    }

    #[derive(Clone, Debug)]
    pub struct Image {
        pub version: i32,
        pub width: i32,
        pub height: i32,
        pub name: Vec<u8>,
        /// `None` = external.
        pub data: Option<Vec<u8>>,
        pub variant: i32,
    }

    #[derive(Clone, Debug)]
    pub struct Envelope {
        pub version: i32,
        pub channels: i32,
        pub start_point: i32,
        pub num_points: i32,
        pub name: Vec<u8>,
        pub synchronized: bool,
    }

    #[derive(Clone, Copy, Debug, PartialEq, Eq)]
    pub enum TileKind {
        Tiles,
        Game,
        Tele,
        Speedup,
        Front,
        Switch,
        Tune,
    }

    impl TileKind {
        pub fn flags(self) -> i32 {
            match self {
                TileKind::Tiles => 0,
                TileKind::Game => 1,
                TileKind::Tele => 2,
                TileKind::Speedup => 4,
                TileKind::Front => 8,
                TileKind::Switch => 16,
                TileKind::Tune => 32,
            }
        }
        /// Bytes per tile of the kind-specific tile type.
        pub fn tile_size(self) -> usize {
            match self {
                TileKind::Tiles | TileKind::Game | TileKind::Front | TileKind::Switch => 4,
                TileKind::Tele | TileKind::Tune => 2,
                TileKind::Speedup => 6,
            }
        }
        /// Position of the kind's pointer in the DDNet extension.
        pub fn ext_slot(self) -> Option<usize> {
            match self {
                TileKind::Tiles | TileKind::Game => None,
                TileKind::Tele => Some(0),
                TileKind::Speedup => Some(1),
                TileKind::Front => Some(2),
                TileKind::Switch => Some(3),
                TileKind::Tune => Some(4),
            }
        }
    }

    #[derive(Clone, Debug)]
    pub enum LayerKind {
        Tilemap {
            version: i32,
            width: i32,
            height: i32,
            kind: TileKind,
            color: [u8; 4],
            /// (index among the envelopes, offset)
            color_env: Option<usize>,
            color_env_offset: i32,
            /// index among the images
            image: Option<usize>,
            name: Vec<u8>,
            /// `data`: width*height 'Tile' tiles (4 bytes each); zeroed for
            /// the DDNet physics layers.
            tiles: Vec<u8>,
            /// Kind-specific tiles of the DDNet physics layers.
            special: Option<Vec<u8>>,
            /// Whether the five DDNet pointers are written.
            ddnet_ext: bool,
        },
        Quads {
            version: i32,
            num_quads: i32,
            quads: Vec<u8>,
            image: Option<usize>,
            name: Vec<u8>,
        },
        Sounds {
            deprecated: bool,
            version: i32,
            num_sources: i32,
            sources: Vec<u8>,
            sound: Option<usize>,
            name: Vec<u8>,
        },
    }

    #[derive(Clone, Debug)]
    pub struct Layer {
        /// `_version`: unused, was uninitialised in the reference writer.
        pub garbage: i32,
        pub detail: bool,
        pub kind: LayerKind,
    }

    #[derive(Clone, Debug)]
    pub struct Group {
        pub version: i32,
        pub x_offset: i32,
        pub y_offset: i32,
        pub x_parallax: i32,
        pub y_parallax: i32,
        pub clipping: bool,
        pub clip: [i32; 4],
        pub name: Vec<u8>,
        pub layers: Vec<Layer>,
    }

    #[derive(Clone, Debug)]
    pub struct Sound {
        pub name: Vec<u8>,
        pub data: Vec<u8>,
    }

    #[derive(Clone, Debug, Default)]
    pub struct MapModel {
        pub version: i32,
        pub info: Option<Info>,
        pub images: Vec<Image>,
        pub envelopes: Vec<Envelope>,
        /// Each point: 6 integers, or 22 when all envelopes are version 3.
        pub envpoints: Vec<Vec<i32>>,
        pub groups: Vec<Group>,
        pub sounds: Vec<Sound>,
        /// Unrelated data items placed before everything else (so that data
        /// indices are not all small).
        pub filler_data: Vec<Vec<u8>>,
    }

    /// Data indices the writer assigned.
    #[derive(Clone, Debug, Default)]
    pub struct Indices {
        pub author: Option<usize>,
        pub version: Option<usize>,
        pub credits: Option<usize>,
        pub license: Option<usize>,
        pub settings: Option<usize>,
        pub image_name: Vec<usize>,
        pub image_data: Vec<Option<usize>>,
        /// Per group, per layer: the `data` pointer.
        pub layer_data: Vec<Vec<usize>>,
        /// Per group, per layer: the DDNet pointer of a physics layer.
        pub layer_special: Vec<Vec<Option<usize>>>,
        pub sound_name: Vec<usize>,
        pub sound_data: Vec<usize>,
    }

    pub struct Built {
        pub spec: Spec,
        pub idx: Indices,
    }

    fn opt(i: Option<usize>) -> i32 {
        i.map(|x| x as i32).unwrap_or(-1)
    }

    pub fn build(m: &MapModel) -> Built {
        let mut data: Vec<Vec<u8>> = m.filler_data.clone();
        let mut idx = Indices::default();
        let mut add = |d: Vec<u8>| -> usize {
            data.push(d);
            data.len() - 1
        };
        let mut types: Vec<TypeSpec> = Vec::new();

        // Version: [1] version
        types.push(TypeSpec { type_id: T_VERSION, items: vec![(0, vec![m.version])] });

        // Info
        if let Some(info) = &m.info {
            idx.author = info.author.as_ref().map(|s| add(cstring(s)));
            idx.version = info.version.as_ref().map(|s| add(cstring(s)));
            idx.credits = info.credits.as_ref().map(|s| add(cstring(s)));
            idx.license = info.license.as_ref().map(|s| add(cstring(s)));
            let mut d = vec![1, opt(idx.author), opt(idx.version), opt(idx.credits), opt(idx.license)];
            if let Some(settings) = &info.settings {
                idx.settings = settings.as_ref().map(|list| {
                    let mut bytes = Vec::new();
                    for s in list {
                        bytes.extend_from_slice(s);
                        bytes.push(0);
                    }
                    add(bytes)
                });
                d.push(opt(idx.settings));
            }
            types.push(TypeSpec { type_id: T_INFO, items: vec![(0, d)] });
        }

        // Images
        if !m.images.is_empty() {
            let mut items = Vec::new();
            for (i, im) in m.images.iter().enumerate() {
                let name = add(cstring(&im.name));
                let dat = im.data.as_ref().map(|d| add(d.clone()));
                idx.image_name.push(name);
                idx.image_data.push(dat);
                let mut d = vec![im.version, im.width, im.height, if im.data.is_none() { 1 } else { 0 }, name as i32, opt(dat)];
                if im.version >= 2 {
                    d.push(im.variant);
                }
                items.push((i as u16, d));
            }
            types.push(TypeSpec { type_id: T_IMAGE, items });
        }

        // Envelopes
        if !m.envelopes.is_empty() {
            let mut items = Vec::new();
            for (i, e) in m.envelopes.iter().enumerate() {
                let mut d = vec![e.version, e.channels, e.start_point, e.num_points];
                d.extend(i32_string(&e.name, 8));
                if e.version >= 2 {
                    d.push(e.synchronized as i32);
                }
                items.push((i as u16, d));
            }
            types.push(TypeSpec { type_id: T_ENVELOPE, items });
        }

        // Groups and layers
        let mut group_items = Vec::new();
        let mut layer_items = Vec::new();
        for (gi, g) in m.groups.iter().enumerate() {
            let start_layer = layer_items.len() as i32;
            let mut d = vec![g.version, g.x_offset, g.y_offset, g.x_parallax, g.y_parallax, start_layer, g.layers.len() as i32];
            if g.version >= 2 {
                d.push(g.clipping as i32);
                d.extend_from_slice(&g.clip);
            }
            if g.version >= 3 {
                d.extend(i32_string(&g.name, 3));
            }
            group_items.push((gi as u16, d));
            let mut ld = Vec::new();
            let mut ls = Vec::new();
            for l in &g.layers {
                let id = layer_items.len() as u16;
                let flags = l.detail as i32;
                let mut d;
                match &l.kind {
                    LayerKind::Tilemap { version, width, height, kind, color, color_env, color_env_offset, image, name, tiles, special, ddnet_ext } => {
                        let main = add(tiles.clone());
                        let sp = special.as_ref().map(|s| add(s.clone()));
                        ld.push(main);
                        ls.push(sp);
                        d = vec![l.garbage, LAYER_TILEMAP, flags, *version, *width, *height, kind.flags()];
                        d.extend(color.iter().map(|&c| c as i32));
                        d.push(opt(*color_env));
                        d.push(*color_env_offset);
                        d.push(opt(*image));
                        d.push(main as i32);
                        if *version >= 3 {
                            d.extend(i32_string(name, 3));
                        }
                        if *ddnet_ext {
                            let mut ext = [-1i32; 5];
                            if let (Some(slot), Some(sp)) = (kind.ext_slot(), sp) {
                                ext[slot] = sp as i32;
                            }
                            d.extend_from_slice(&ext);
                        }
                    }
                    LayerKind::Quads { version, num_quads, quads, image, name } => {
                        let main = add(quads.clone());
                        ld.push(main);
                        ls.push(None);
                        d = vec![l.garbage, LAYER_QUADS, flags, *version, *num_quads, main as i32, opt(*image)];
                        if *version >= 2 {
                            d.extend(i32_string(name, 3));
                        }
                    }
                    LayerKind::Sounds { deprecated, version, num_sources, sources, sound, name } => {
                        let main = add(sources.clone());
                        ld.push(main);
                        ls.push(None);
                        let ty = if *deprecated { LAYER_SOUNDS_DEPRECATED } else { LAYER_SOUNDS };
                        d = vec![l.garbage, ty, flags, *version, *num_sources, main as i32, opt(*sound)];
                        d.extend(i32_string(name, 3));
                    }
                }
                layer_items.push((id, d));
            }
            idx.layer_data.push(ld);
            idx.layer_special.push(ls);
        }
        if !group_items.is_empty() {
            types.push(TypeSpec { type_id: T_GROUP, items: group_items });
        }
        if !layer_items.is_empty() {
            types.push(TypeSpec { type_id: T_LAYER, items: layer_items });
        }

        // Envelope points: exactly one item holding all points.
        if !m.envelopes.is_empty() || !m.envpoints.is_empty() {
            let mut d = Vec::new();
            for p in &m.envpoints {
                d.extend_from_slice(p);
            }
            types.push(TypeSpec { type_id: T_ENVPOINTS, items: vec![(0, d)] });
        }

        // Sounds
        if !m.sounds.is_empty() {
            let mut items = Vec::new();
            for (i, s) in m.sounds.iter().enumerate() {
                let name = add(cstring(&s.name));
                let dat = add(s.data.clone());
                idx.sound_name.push(name);
                idx.sound_data.push(dat);
                items.push((i as u16, vec![1, 0, name as i32, dat as i32, s.data.len() as i32]));
            }
            types.push(TypeSpec { type_id: T_SOUND, items });
        }

        Built { spec: Spec { types, data }, idx }
    }
}

#[cfg(test)]
mod tests {
    use super::*;

    #[test]
    fn adler_known() {
        // "Wikipedia" -> 0x11E60398
        assert_eq!(adler32(b"Wikipedia"), 0x11e6_0398);
    }

    #[test]
    fn i32_string_known() {
        // "Game" as written by the reference implementation
        let v = map::i32_string(b"Game", 3);
        assert_eq!(v[0] as u32, 0xc7e1_ede5);
        assert_eq!(v[2] as u32, 0x8080_8000);
    }
}
