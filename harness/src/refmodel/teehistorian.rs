//! Independent model of the teehistorian format, written from
//! doc/teehistorian.md: message encoding, the (implicit) tick pseudo-code,
//! running sums of player positions / inputs, and a tolerant walker over
//! arbitrary byte strings (used to keep corrupted inputs inside a sane
//! allocation domain). Nothing here calls into libtw2-teehistorian.

use super::varint;
use std::collections::BTreeMap;

pub const INPUT_LEN: usize = 10;

// Message ids as listed in the document.
pub const FINISH: i32 = -1;
pub const TICK_SKIP: i32 = -2;
pub const PLAYER_NEW: i32 = -3;
pub const PLAYER_OLD: i32 = -4;
pub const INPUT_DIFF: i32 = -5;
pub const INPUT_NEW: i32 = -6;
pub const MESSAGE: i32 = -7;
pub const JOIN: i32 = -8;
pub const DROP: i32 = -9;
pub const CONSOLE_COMMAND: i32 = -10;
pub const EX: i32 = -11;

/// "699db17b-8efb-34ff-b1d8-da6f60c15dd1" -> 16 big-endian bytes.
pub fn uuid_from_text(s: &str) -> [u8; 16] {
    let hex: Vec<u8> = s.bytes().filter(|b| *b != b'-').collect();
    assert_eq!(hex.len(), 32, "uuid text {}", s);
    let mut out = [0u8; 16];
    for i in 0..16 {
        let h = std::str::from_utf8(&hex[2 * i..2 * i + 2]).unwrap();
        out[i] = u8::from_str_radix(h, 16).unwrap();
    }
    out
}

pub fn uuid_to_text(u: &[u8; 16]) -> String {
    let h = crate::hex(u);
    format!("{}-{}-{}-{}-{}", &h[0..8], &h[8..12], &h[12..16], &h[16..20], &h[20..32])
}

pub const MAGIC_TEXT: &str = "699db17b-8efb-34ff-b1d8-da6f60c15dd1";

// Extension messages the document lists.
pub const EX_TEST: &str = "6bb8ba88-0f0b-382e-8dae-dbf4052b8b7d";
pub const EX_DDNETVER_OLD: &str = "41b49541-f26f-325d-8715-9baf4b544ef9";
pub const EX_DDNETVER: &str = "1397b63e-ee4e-3919-b86a-b058887fcaf5";
pub const EX_AUTH_INIT: &str = "60daba5c-52c4-3aeb-b8ba-b2953fb55a17";
pub const EX_AUTH_LOGIN: &str = "37ecd3b8-9218-3bb9-a71b-a935b86f6a81";
pub const EX_AUTH_LOGOUT: &str = "d4f5abe8-edd2-3fb9-abd8-1c8bb84f4a63";
pub const EX_JOINVER6: &str = "1899a382-71e3-36da-937d-c9de6bb95b1d";
pub const EX_JOINVER7: &str = "59239b05-0540-318d-bea4-9aa1e80e7d2b";
pub const EX_TEAM_SAVE_SUCCESS: &str = "4560c756-da29-3036-81d4-90a50f0182cd";
pub const EX_TEAM_SAVE_FAILURE: &str = "b29901d5-1244-3bd0-bbde-23d04b1f7ba9";
pub const EX_TEAM_LOAD_SUCCESS: &str = "e05408d3-a313-33df-9eb3-ddb990ab954a";
pub const EX_TEAM_LOAD_FAILURE: &str = "ef8905a2-c695-3591-a1cd-53d2015992dd";
pub const EX_PLAYER_TEAM: &str = "a111c04e-1ea8-38e0-90b1-d7f993ca0da9";
pub const EX_TEAM_PRACTICE: &str = "5792834e-81d1-34c9-a29b-b5ff25dac3bc";
pub const EX_PLAYER_READY: &str = "638587c9-3f75-3887-918e-a3c2614ffaa0";
pub const EX_PLAYER_SWAP: &str = "5de9b633-49cf-3e99-9a25-d4a78e9717d7";

// ------------------------------------------------------------ canonical text
//
// One line of text per reported item. The monitor renders what the reader
// reports with the same helpers, the model renders what was written.

pub fn c_bytes(b: &[u8]) -> String {
    if b.len() <= 48 {
        crate::hex(b)
    } else {
        format!("<{} bytes fnv={:016x}>", b.len(), crate::fnv1a(b))
    }
}
pub fn c_player_new(cid: i32, x: i32, y: i32) -> String {
    format!("PlayerNew cid={} pos=({},{})", cid, x, y)
}
pub fn c_player_change(cid: i32, x: i32, y: i32, ox: i32, oy: i32) -> String {
    format!("PlayerChange cid={} pos=({},{}) old=({},{})", cid, x, y, ox, oy)
}
pub fn c_player_old(cid: i32, x: i32, y: i32) -> String {
    format!("PlayerOld cid={} pos=({},{})", cid, x, y)
}
pub fn c_input(cid: i32, input: &[i32; INPUT_LEN]) -> String {
    format!("Input cid={} input={:?}", cid, input)
}
pub fn c_message(cid: i32, msg: &[u8]) -> String {
    format!("Message cid={} msg={}", cid, c_bytes(msg))
}
pub fn c_join(cid: i32) -> String {
    format!("Join cid={}", cid)
}
pub fn c_drop(cid: i32, reason: &[u8]) -> String {
    format!("Drop cid={} reason={}", cid, c_bytes(reason))
}
pub fn c_console_command(cid: i32, flags: u32, cmd: &[u8], args: &[&[u8]]) -> String {
    let a: Vec<String> = args.iter().map(|x| c_bytes(x)).collect();
    format!("ConsoleCommand cid={} flags={} cmd={} args=[{}]", cid, flags, c_bytes(cmd), a.join(","))
}
pub fn c_unknown_ex(uuid: &[u8; 16], data: &[u8]) -> String {
    format!("UnknownEx uuid={} data={}", crate::hex(uuid), c_bytes(data))
}
/// Known extension message: name plus its decoded fields.
pub fn c_ex(name: &str, fields: &[String]) -> String {
    format!("{} {}", name, fields.join(" "))
}

// ------------------------------------------------------------ records

#[derive(Clone, Debug, PartialEq)]
pub enum Rec {
    PlayerDiff { cid: i32, dx: i32, dy: i32 },
    Finish,
    TickSkip { dt: i32 },
    PlayerNew { cid: i32, x: i32, y: i32 },
    PlayerOld { cid: i32 },
    InputDiff { cid: i32, d: [i32; INPUT_LEN] },
    InputNew { cid: i32, v: [i32; INPUT_LEN] },
    Message { cid: i32, msg: Vec<u8> },
    Join { cid: i32 },
    Drop { cid: i32, reason: Vec<u8> },
    ConsoleCommand { cid: i32, flags: i32, cmd: Vec<u8>, args: Vec<Vec<u8>> },
    /// `expect` is the canonical text of the item a reader that knows (or does
    /// not know) this uuid has to report.
    Ex { uuid: [u8; 16], data: Vec<u8>, expect: String },
}

fn int(out: &mut Vec<u8>, v: i32) {
    out.extend(varint::encode(v));
}
fn string(out: &mut Vec<u8>, s: &[u8]) {
    assert!(s.iter().all(|&b| b != 0));
    out.extend_from_slice(s);
    out.push(0);
}

impl Rec {
    pub fn name(&self) -> &'static str {
        match self {
            Rec::PlayerDiff { .. } => "PLAYER_DIFF",
            Rec::Finish => "FINISH",
            Rec::TickSkip { .. } => "TICK_SKIP",
            Rec::PlayerNew { .. } => "PLAYER_NEW",
            Rec::PlayerOld { .. } => "PLAYER_OLD",
            Rec::InputDiff { .. } => "INPUT_DIFF",
            Rec::InputNew { .. } => "INPUT_NEW",
            Rec::Message { .. } => "MESSAGE",
            Rec::Join { .. } => "JOIN",
            Rec::Drop { .. } => "DROP",
            Rec::ConsoleCommand { .. } => "CONSOLE_COMMAND",
            Rec::Ex { .. } => "EX",
        }
    }
    /// Client id of PLAYER_DIFF / PLAYER_NEW / PLAYER_OLD.
    pub fn player_cid(&self) -> Option<i32> {
        match *self {
            Rec::PlayerDiff { cid, .. } | Rec::PlayerNew { cid, .. } | Rec::PlayerOld { cid } => Some(cid),
            _ => None,
        }
    }
    pub fn encode(&self, out: &mut Vec<u8>) {
        match self {
            Rec::PlayerDiff { cid, dx, dy } => {
                assert!(*cid >= 0);
                int(out, *cid);
                int(out, *dx);
                int(out, *dy);
            }
            Rec::Finish => int(out, FINISH),
            Rec::TickSkip { dt } => {
                int(out, TICK_SKIP);
                int(out, *dt);
            }
            Rec::PlayerNew { cid, x, y } => {
                int(out, PLAYER_NEW);
                int(out, *cid);
                int(out, *x);
                int(out, *y);
            }
            Rec::PlayerOld { cid } => {
                int(out, PLAYER_OLD);
                int(out, *cid);
            }
            Rec::InputDiff { cid, d } => {
                int(out, INPUT_DIFF);
                int(out, *cid);
                for v in d {
                    int(out, *v);
                }
            }
            Rec::InputNew { cid, v } => {
                int(out, INPUT_NEW);
                int(out, *cid);
                for x in v {
                    int(out, *x);
                }
            }
            Rec::Message { cid, msg } => {
                int(out, MESSAGE);
                int(out, *cid);
                int(out, msg.len() as i32);
                out.extend_from_slice(msg);
            }
            Rec::Join { cid } => {
                int(out, JOIN);
                int(out, *cid);
            }
            Rec::Drop { cid, reason } => {
                int(out, DROP);
                int(out, *cid);
                string(out, reason);
            }
            Rec::ConsoleCommand { cid, flags, cmd, args } => {
                int(out, CONSOLE_COMMAND);
                int(out, *cid);
                int(out, *flags);
                string(out, cmd);
                int(out, args.len() as i32);
                for a in args {
                    string(out, a);
                }
            }
            Rec::Ex { uuid, data, .. } => {
                int(out, EX);
                out.extend_from_slice(uuid);
                int(out, data.len() as i32);
                out.extend_from_slice(data);
            }
        }
    }
    pub fn brief(&self) -> String {
        match self {
            Rec::Message { cid, msg } => format!("MESSAGE cid={} len={}", cid, msg.len()),
            Rec::Drop { cid, reason } => format!("DROP cid={} len={}", cid, reason.len()),
            Rec::ConsoleCommand { cid, cmd, args, .. } => {
                format!("CONSOLE_COMMAND cid={} cmdlen={} nargs={}", cid, cmd.len(), args.len())
            }
            Rec::Ex { uuid, data, .. } => format!("EX {} len={}", uuid_to_text(uuid), data.len()),
            Rec::InputNew { cid, .. } => format!("INPUT_NEW cid={}", cid),
            Rec::InputDiff { cid, .. } => format!("INPUT_DIFF cid={}", cid),
            other => format!("{:?}", other),
        }
    }
}

/// Header: the teehistorian UUID, the JSON text, a NUL byte.
pub fn encode_header(json: &str, out: &mut Vec<u8>) {
    assert!(!json.as_bytes().contains(&0));
    out.extend_from_slice(&uuid_from_text(MAGIC_TEXT));
    out.extend_from_slice(json.as_bytes());
    out.push(0);
}

// ------------------------------------------------------------ tick rule
//
// tick = 0
// implicit_cid = None
// for message in messages:
//   if message.kind == TICK_SKIP:
//     tick += message.dt + 1
//     implicit_cid = None
//   if message.kind is in [PLAYER_DIFF, PLAYER_NEW, PLAYER_OLD]:
//     if implicit_cid is not None and message.cid <= implicit_cid:
//       tick += 1
//     implicit_cid = message.cid

#[derive(Clone, Debug, Default)]
pub struct TickModel {
    pub tick: i64,
    pub implicit_cid: Option<i32>,
    pub implicit_advances: u64,
    pub explicit_skips: u64,
}

impl TickModel {
    pub fn new() -> TickModel {
        TickModel::default()
    }
    /// Processes one message; returns the tick the message belongs to.
    pub fn step(&mut self, rec: &Rec) -> i64 {
        if let Rec::TickSkip { dt } = rec {
            self.tick += *dt as i64 + 1;
            self.implicit_cid = None;
            self.explicit_skips += 1;
        }
        if let Some(cid) = rec.player_cid() {
            if let Some(ic) = self.implicit_cid {
                if cid <= ic {
                    self.tick += 1;
                    self.implicit_advances += 1;
                }
            }
            self.implicit_cid = Some(cid);
        }
        self.tick
    }
}

// ------------------------------------------------------------ running sums

#[derive(Clone, Debug, Default)]
pub struct World {
    pub players: BTreeMap<i32, (i32, i32)>,
    pub inputs: BTreeMap<i32, [i32; INPUT_LEN]>,
}

impl World {
    pub fn new() -> World {
        World::default()
    }
    /// Applies one message. `Ok(Some(text))`: the item that has to be reported;
    /// `Ok(None)`: the message itself is not reported (TICK_SKIP, FINISH);
    /// `Err`: the message makes no sense in this state (diff without new, ...),
    /// i.e. the history is not a valid one.
    pub fn apply(&mut self, rec: &Rec) -> Result<Option<String>, &'static str> {
        Ok(Some(match rec {
            Rec::TickSkip { dt } => {
                if *dt < 0 {
                    return Err("negative dt");
                }
                return Ok(None);
            }
            Rec::Finish => return Ok(None),
            Rec::PlayerNew { cid, x, y } => {
                if *cid < 0 {
                    return Err("negative cid");
                }
                if self.players.insert(*cid, (*x, *y)).is_some() {
                    return Err("player new twice");
                }
                c_player_new(*cid, *x, *y)
            }
            Rec::PlayerDiff { cid, dx, dy } => {
                let p = self.players.get_mut(cid).ok_or("player diff without new")?;
                let old = *p;
                *p = (old.0.wrapping_add(*dx), old.1.wrapping_add(*dy));
                c_player_change(*cid, p.0, p.1, old.0, old.1)
            }
            Rec::PlayerOld { cid } => {
                let p = self.players.remove(cid).ok_or("player old without new")?;
                c_player_old(*cid, p.0, p.1)
            }
            Rec::InputNew { cid, v } => {
                if *cid < 0 {
                    return Err("negative cid");
                }
                self.inputs.insert(*cid, *v);
                c_input(*cid, v)
            }
            Rec::InputDiff { cid, d } => {
                let i = self.inputs.get_mut(cid).ok_or("input diff without new")?;
                for k in 0..INPUT_LEN {
                    i[k] = i[k].wrapping_add(d[k]);
                }
                c_input(*cid, i)
            }
            Rec::Message { cid, msg } => c_message(*cid, msg),
            Rec::Join { cid } => c_join(*cid),
            Rec::Drop { cid, reason } => c_drop(*cid, reason),
            Rec::ConsoleCommand { cid, flags, cmd, args } => {
                if args.len() > 16 {
                    return Err("too many args");
                }
                let a: Vec<&[u8]> = args.iter().map(|x| &x[..]).collect();
                c_console_command(*cid, *flags as u32, cmd, &a)
            }
            Rec::Ex { expect, .. } => expect.clone(),
        }))
    }
}

/// What a reader has to report for one written message.
#[derive(Clone, Debug)]
pub struct Expected {
    /// Index into the message list.
    pub rec: usize,
    /// Documentation tick of the message.
    pub tick: i64,
    pub text: String,
}

#[derive(Clone, Debug, Default)]
pub struct Expectation {
    pub items: Vec<Expected>,
    pub final_tick: i64,
    pub implicit_advances: u64,
    pub explicit_skips: u64,
}

/// Runs the tick pseudo-code and the running sums over a message list.
pub fn expectation(recs: &[Rec]) -> Result<Expectation, (usize, &'static str)> {
    let mut t = TickModel::new();
    let mut w = World::new();
    let mut out = Expectation::default();
    for (i, r) in recs.iter().enumerate() {
        let tick = t.step(r);
        match w.apply(r) {
            Err(e) => return Err((i, e)),
            Ok(None) => {}
            Ok(Some(text)) => out.items.push(Expected { rec: i, tick, text }),
        }
        if *r == Rec::Finish {
            break;
        }
    }
    out.final_tick = t.tick;
    out.implicit_advances = t.implicit_advances;
    out.explicit_skips = t.explicit_skips;
    Ok(out)
}

// ------------------------------------------------------------ tolerant walker

#[derive(Clone, Debug, Default)]
pub struct Walk {
    /// Largest client id in a PLAYER_NEW / INPUT_NEW position (the two messages
    /// for which a reader has to create per-client state).
    pub max_new_cid: i64,
    /// One of those ids was encoded in five bytes (value not trusted).
    pub five_byte_cid: bool,
    pub records: usize,
    pub stopped: &'static str,
}

struct Cur<'a> {
    b: &'a [u8],
    pos: usize,
}
impl<'a> Cur<'a> {
    fn int(&mut self) -> Option<(i32, usize)> {
        let d = varint::decode(&self.b[self.pos..])?;
        self.pos += d.consumed;
        // Same arithmetic a 32-bit reader would do with non-zero padding is not
        // prescribed; callers treat five-byte values as untrusted.
        Some((d.value, d.consumed))
    }
    fn ints(&mut self, n: usize) -> Option<()> {
        for _ in 0..n {
            self.int()?;
        }
        Some(())
    }
    fn raw(&mut self, n: usize) -> Option<()> {
        if self.b.len() - self.pos < n {
            return None;
        }
        self.pos += n;
        Some(())
    }
    fn string(&mut self) -> Option<()> {
        let rest = &self.b[self.pos..];
        let n = rest.iter().position(|&x| x == 0)?;
        self.pos += n + 1;
        Some(())
    }
}

/// Walks an arbitrary byte string as far as the message framing of the
/// document allows, without interpreting anything beyond the framing.
pub fn walk(stream: &[u8]) -> Walk {
    let mut w = Walk {
        max_new_cid: -1,
        ..Walk::default()
    };
    let mut c = Cur { b: stream, pos: 0 };
    if c.raw(16).is_none() || c.string().is_none() {
        w.stopped = "header";
        return w;
    }
    w.stopped = "truncated";
    let note = |w: &mut Walk, v: (i32, usize)| {
        w.max_new_cid = w.max_new_cid.max(v.0 as i64);
        if v.1 >= 5 {
            w.five_byte_cid = true;
        }
    };
    loop {
        let id = match c.int() {
            Some(x) => x.0,
            None => return w,
        };
        let ok: Option<()> = (|| {
            match id {
                i if i >= 0 => c.ints(2)?,
                FINISH => {}
                TICK_SKIP => c.ints(1)?,
                PLAYER_NEW => {
                    let v = c.int()?;
                    note(&mut w, v);
                    c.ints(2)?
                }
                PLAYER_OLD => c.ints(1)?,
                INPUT_DIFF => c.ints(1 + INPUT_LEN)?,
                INPUT_NEW => {
                    let v = c.int()?;
                    note(&mut w, v);
                    c.ints(INPUT_LEN)?
                }
                MESSAGE => {
                    c.ints(1)?;
                    let n = c.int()?.0;
                    if n < 0 {
                        return None;
                    }
                    c.raw(n as usize)?
                }
                JOIN => c.ints(1)?,
                DROP => {
                    c.ints(1)?;
                    c.string()?
                }
                CONSOLE_COMMAND => {
                    c.ints(2)?;
                    c.string()?;
                    let n = c.int()?.0;
                    if n < 0 {
                        return None;
                    }
                    for _ in 0..n {
                        c.string()?;
                    }
                }
                EX => {
                    c.raw(16)?;
                    let n = c.int()?.0;
                    if n < 0 {
                        return None;
                    }
                    c.raw(n as usize)?
                }
                _ => {
                    w.stopped = "unknown-id";
                    return None;
                }
            }
            Some(())
        })();
        if ok.is_none() {
            return w;
        }
        w.records += 1;
        if id == FINISH {
            w.stopped = "finish";
            return w;
        }
    }
}
