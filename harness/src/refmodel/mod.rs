//! Independent re-implementations written from doc/ (not from the code under
//! test): used as oracles.
pub mod teehistorian;
pub mod datafile;
pub mod varint;
