//! Variable-length integer of doc/int.md, written from the document:
//! first byte `ESDD_DDDD`, following bytes `EDDD_DDDD`, at most five bytes,
//! little-endian digit groups, sign bit inverts all bits of the value.

/// Minimal number of bytes needed for `v` according to doc/int.md:
/// `L` bytes carry 6 + 7 (L - 1) magnitude bits.
pub fn min_len(v: i32) -> usize {
    let v = v as i64;
    for l in 1..=4usize {
        let bits = 6 + 7 * (l as u32 - 1);
        let lim = 1i64 << bits;
        if -lim <= v && v < lim {
            return l;
        }
    }
    5
}

/// Canonical encoding.
pub fn encode(v: i32) -> Vec<u8> {
    let neg = v < 0;
    // One's complement magnitude: for negative numbers all bits are inverted.
    let mut m: u32 = if neg { !(v as u32) } else { v as u32 };
    let mut out = Vec::new();
    let mut first = (m & 0x3f) as u8;
    m >>= 6;
    if neg {
        first |= 0x40;
    }
    if m != 0 {
        first |= 0x80;
    }
    out.push(first);
    while m != 0 {
        let mut b = (m & 0x7f) as u8;
        m >>= 7;
        if m != 0 {
            b |= 0x80;
        }
        out.push(b);
    }
    out
}

#[derive(Debug, PartialEq, Eq, Clone, Copy)]
pub struct Decoded {
    pub value: i32,
    pub consumed: usize,
    /// The top four bits of a fifth byte are padding.
    pub padding_nonzero: bool,
}

/// Decodes one integer from the front of `bytes`. `None` iff the string ends
/// while the extend bit asks for another byte.
pub fn decode(bytes: &[u8]) -> Option<Decoded> {
    let b0 = *bytes.first()?;
    let neg = b0 & 0x40 != 0;
    let mut m: u32 = (b0 & 0x3f) as u32;
    let mut consumed = 1;
    let mut padding_nonzero = false;
    let mut ext = b0 & 0x80 != 0;
    let mut shift = 6;
    while ext && consumed < 5 {
        let b = *bytes.get(consumed)?;
        consumed += 1;
        if consumed == 5 {
            // Only four digit bits fit into 32 bits: 6 + 7*3 = 27, 27 + 4 = 31.
            padding_nonzero = b & 0xf0 != 0;
            // The code under test ORs in 7 bits shifted by 27; bits above 31 fall off,
            // bit 31 (padding bit 4) would flip the sign. doc: padding must be zero;
            // value prescribed only for zero padding.
            m |= ((b & 0x0f) as u32) << shift;
            ext = false;
        } else {
            m |= ((b & 0x7f) as u32) << shift;
            ext = b & 0x80 != 0;
        }
        shift += 7;
    }
    let value = if neg { !m as i32 } else { m as i32 };
    Some(Decoded {
        value,
        consumed,
        padding_nonzero,
    })
}
