//! Canary-guarded byte windows: a capacity window inside a larger allocation
//! whose surroundings carry a known pattern, so that a write outside the window
//! is detected after the call.

pub const GUARD: usize = 64;

pub struct Canary {
    mem: Vec<u8>,
    cap: usize,
    pattern: u8,
}

impl Canary {
    pub fn new(cap: usize, pattern: u8) -> Canary {
        Canary {
            mem: vec![pattern; cap + 2 * GUARD],
            cap,
            pattern,
        }
    }
    /// The window the code under test may write to.
    pub fn window(&mut self) -> &mut [u8] {
        let cap = self.cap;
        &mut self.mem[GUARD..GUARD + cap]
    }
    pub fn window_ref(&self) -> &[u8] {
        &self.mem[GUARD..GUARD + self.cap]
    }
    /// True when every guard byte still carries the pattern.
    pub fn intact(&self) -> bool {
        self.mem[..GUARD].iter().all(|&b| b == self.pattern)
            && self.mem[GUARD + self.cap..].iter().all(|&b| b == self.pattern)
    }
    /// Address range of the window.
    pub fn range(&self) -> (usize, usize) {
        let p = self.mem.as_ptr() as usize + GUARD;
        (p, p + self.cap)
    }
}

/// True when `inner` (by address) lies entirely inside `outer`. Empty slices
/// are inside anything (their address is not meaningful).
pub fn inside(inner: &[u8], outer: &[u8]) -> bool {
    if inner.is_empty() {
        return true;
    }
    let (i0, i1) = (inner.as_ptr() as usize, inner.as_ptr() as usize + inner.len());
    let (o0, o1) = (outer.as_ptr() as usize, outer.as_ptr() as usize + outer.len());
    o0 <= i0 && i1 <= o1
}
